"""C11 finding (str-D): get_hcables(cable) omits the occurrences of a cable that has no wires.

Property C11: "asking for the occurrences of a given element returns exactly the paths that end in it".
definition.create_cable(name) makes a cable with no wires (and removing the last wire leaves one).  get_hcables(netlist) lists its
occurrence and the reference is valid, but get_hcables(cable) - and get_hcables(HRef of that cable) - reach a hierarchical cable only
through its wires (spydrnet/util/get_hcables.py, the `isinstance(item, Cable)` branch pushes one reference per wire), so a cable
without wires has no occurrences.  get_hports(port without pins) does not have this problem.

run: PYTHONPATH=/repo /venv/bin/python /verif/findings/str-D-hcables-cable-without-wires.py     (exit 1 = defect present)
"""
import sys
import spydrnet as sdn
from spydrnet.util.hierarchical_reference import HRef

n = sdn.Netlist(name='n')
lib = n.create_library(name='work')
top = lib.create_definition(name='top')
c = top.create_cable(name='c')           # no wires
n.set_top_instance(top, instance_name='top')

within = list(sdn.get_hcables(n))
print('get_hcables(netlist)      -> %r  is_valid %r' % (within, [h.is_valid for h in within]))
occ = list(sdn.get_hcables(c))
print('get_hcables(cable)        -> %r  (expected the one path top/c)' % occ)
href = HRef.from_sequence([n.top_instance, c])
occ2 = list(sdn.get_hcables(href))
print('get_hcables(HRef(top/c))  -> %r  (expected itself)' % occ2)
bad = len(within) == 1 and within[0].is_valid and (occ == [] or occ2 == [])
print('DEFECT: the occurrence of a cable without wires is omitted' if bad else 'OK')
sys.exit(1 if bad else 0)
