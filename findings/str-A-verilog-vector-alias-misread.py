"""C06 (Verilog reader faithful to the source), unchanged tree - for the record, NOT wired into bin/check C06: header port aliases
onto bits of VECTOR nets are re-based, resized or refused by the reader.

Run:  PYTHONPATH=/repo /venv/bin/python /verif/findings/str-A-verilog-vector-alias-misread.py     (prints one line per case; exit 1
when any case is misread)

docs/source/reference/verilog_support.rst ("Port Remapping in Module headers") documents the limitation: "Currently only single bit
breakouts are supported ... The port is also assumed to have a width equal to the number of cables in the concatenation", so by the
letter of the support page these inputs are outside the supported subset and C06 does not claim them.  They are what
render_verilog.alias_shapes generates besides the shapes the reader does take as written (own-permuted, own-mixed / other with
nets [w-1:0]); b_c04.py skips them through misread_aliases and counts them in "misread_aliases".
Cause in all cases: VerilogParser.parse_port_declaration takes `input [l:r] net;` for the declaration of the one port whose pins sit
on that net (create_or_update_port(port, l, r, defining=True) followed by connect_resized_port_cable), which is right only for the
plain `module m(p); input [3:0] p;` form.
"""
import os
import sys
import tempfile
import spydrnet as sdn

CASES = [
    # (what, source, expected view of port p: width, lower_index, joins pin 0..)
    ('offset: net p re-based, port p should stay [1:0]',
     "module m(.p(p[6:5]), y);\n input [6:5] p;\n output y;\nendmodule\n", (2, 0, ['p[5]', 'p[6]'])),
    ('sub-range of the own-named net',
     "module m(.p(p[3:1]), y);\n input [4:0] p;\n output y;\nendmodule\n", (3, 0, ['p[1]', 'p[2]', 'p[3]'])),
    ('sub-range of another net',
     "module m(.p(x[2:1]), y);\n input [3:0] x;\n output y;\nendmodule\n", (2, 0, ['x[1]', 'x[2]'])),
    ('bit-selects of a net that is wider than the port',
     "module m(.p({x[0], x[2]}), y);\n input [3:0] x;\n output y;\nendmodule\n", (2, 0, ['x[2]', 'x[0]'])),
    ('two ports share one net',
     "module m(.p(p[1:0]), .q(p[4:2]), y);\n input [4:0] p;\n output y;\nendmodule\n", (2, 0, ['p[0]', 'p[1]'])),
    ('control: permuted bits of the own-named net [2:0] (read as written)',
     "module m(.p({p[0], p[2], p[1]}), y);\n input [2:0] p;\n output y;\nendmodule\n", (3, 0, ['p[1]', 'p[2]', 'p[0]'])),
]


def view(netlist):
    d = next(netlist.get_definitions('m'))
    p = next(d.get_ports('p'))
    joins = []
    for pin in p.pins:
        w = pin.wire
        joins.append(None if w is None else '%s[%d]' % (w.cable.name, w.cable.lower_index + w.cable.wires.index(w)))
    return (len(p.pins), p.lower_index, joins)


bad = 0
with tempfile.TemporaryDirectory() as tmp:
    for k, (what, src, exp) in enumerate(CASES):
        f = os.path.join(tmp, 'c%d.v' % k)
        open(f, 'w').write(src)
        try:
            got = view(sdn.parse(f))
        except Exception as e:
            got = '%s: %s' % (type(e).__name__, ' '.join(str(e).split())[:120])
        ok = got == exp
        bad += 0 if ok else 1
        print('%-8s %s\n         expected (width, lower_index, joins) %r\n         got %r' % ('ok' if ok else 'MISREAD', what, exp, got))
sys.exit(1 if bad else 0)
