"""C10 demo: "an edit is refused exactly when it would create a duplicate or an illegal identifier,
never because of an element that was removed, renamed or un-named earlier" and "asking a parent for a
child by exact name or identifier returns precisely the children a linear scan finds" (EDIF policy).

Step 1: adding a cable whose NAME collides with a sibling is (rightly) refused.  The cable also carries
        a fresh EDIF identifier.  After the refusal the definition must behave as if nothing happened.
Step 2: the same for a cross-policy add that is refused because the newcomer is not EDIF compliant.
"""
import sys

import spydrnet as sdn


def scan(children, key, value):
    return [c for c in children if key in c and c[key] == value]


def refused(action):
    try:
        action()
    except ValueError:
        return True
    return False


def main():
    netlist = sdn.Netlist(name="design")
    netlist[".NS"] = "EDIF"
    library = netlist.create_library(name="work")
    definition = library.create_definition(name="top")
    assert definition[".NS"] == "EDIF"
    first = definition.create_cable(name="n")
    first["EDIF.identifier"] = "id_a"

    # step 1 -------------------------------------------------------------------------------
    newcomer = sdn.Cable(name="n")
    newcomer["EDIF.identifier"] = "fresh"
    assert refused(lambda: definition.add_cable(newcomer)), "a duplicate cable name was accepted"
    assert list(definition.cables) == [first] and newcomer.definition is None

    found = list(definition.get_cables("fresh", key="EDIF.identifier"))
    expected = scan(definition.cables, "EDIF.identifier", "fresh")
    assert found == expected, (
        "get_cables('fresh', key='EDIF.identifier') returns %s but a scan of the cables finds %s "
        "(the cable whose add was refused is not a child)" % ([c.name for c in found], expected)
    )
    other = sdn.Cable(name="m")
    other["EDIF.identifier"] = "FRESH"
    assert not refused(lambda: definition.add_cable(other)), (
        "adding cable 'm' with identifier 'FRESH' was refused although no cable of the definition has "
        "that identifier (identifiers present: %s)"
        % [c["EDIF.identifier"] for c in definition.cables if "EDIF.identifier" in c]
    )

    # step 2 -------------------------------------------------------------------------------
    outsider = sdn.Definition(name="blk")
    outsider[".NS"] = "DEFAULT"
    bad_port = outsider.create_port(name="p")
    bad_port["EDIF.identifier"] = "9 not legal"
    assert refused(lambda: library.add_definition(outsider)), "an illegal identifier entered an EDIF library"
    assert outsider.library is None
    found = list(library.get_definitions("blk"))
    assert found == scan(library.definitions, ".NAME", "blk") == [], (
        "get_definitions('blk') returns %s but the library only holds %s"
        % ([d.name for d in found], [d.name for d in library.definitions])
    )
    assert not refused(lambda: library.create_definition(name="blk")), (
        "creating definition 'blk' was refused although the library only holds %s"
        % [d.name for d in library.definitions]
    )
    print("ok: refused adds leave no trace in the name / identifier lookups")


if __name__ == "__main__":
    try:
        main()
    except AssertionError as e:
        print("PROPERTY VIOLATED:", e)
        sys.exit(1)
