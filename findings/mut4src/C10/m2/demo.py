"""C10 demo: names stay usable "after any history; an edit is refused exactly when it would create a
duplicate ..., never because of an element that was removed ... earlier", and exact-name lookup
"returns precisely the children a linear scan finds" - under both naming policies.

History: create two instances, remove both with one remove_children_from call (the usual way to empty
a definition), look the names up, create a new instance that reuses a name, re-add a removed one.
"""
import sys

import spydrnet as sdn


def scan(children, key, value):
    return [c for c in children if key in c and c[key] == value]


def run(policy):
    netlist = sdn.Netlist(name="design")
    netlist[".NS"] = policy
    library = netlist.create_library(name="work")
    leaf = library.create_definition(name="LEAF")
    top = library.create_definition(name="top")
    u0 = top.create_child(name="u0", reference=leaf)
    u1 = top.create_child(name="u1", reference=leaf)
    u0["EDIF.identifier"] = "u0_id"
    u1["EDIF.identifier"] = "u1_id"

    # control: removing a part of the children in bulk
    extra = top.create_child(name="extra", reference=leaf)
    top.remove_children_from([extra])
    assert list(top.get_instances("extra")) == []

    top.remove_children_from(top.children)
    assert list(top.children) == [] and u0.parent is None and u1.parent is None

    for key, value in ((".NAME", "u0"), (".NAME", "u1"), ("EDIF.identifier", "u0_id"), ("EDIF.identifier", "U1_ID")):
        found = list(top.get_instances(value, key=key))
        expected = scan(top.children, key, value)
        assert found == expected, (
            "[%s] get_instances(%r, key=%r) returns %s but the definition has no children left (scan: %s)"
            % (policy, value, key, [i.name for i in found], expected)
        )

    try:
        fresh = top.create_child(name="u0", reference=leaf)
    except ValueError as e:
        raise AssertionError(
            "[%s] creating instance 'u0' was refused (%s) although the earlier 'u0' has been removed" % (policy, e)
        )
    try:
        top.add_child(u1)
    except ValueError as e:
        raise AssertionError("[%s] re-adding the removed instance 'u1' was refused (%s)" % (policy, e))
    assert list(top.get_instances("u0")) == [fresh] and list(top.get_instances("u1")) == [u1]
    # and a real duplicate is still refused
    try:
        top.create_child(name="u1", reference=leaf)
    except ValueError:
        pass
    else:
        raise AssertionError("[%s] a duplicate instance name was accepted" % policy)


def main():
    for policy in ("DEFAULT", "EDIF"):
        run(policy)
    print("ok: names of removed instances are free again and lookups agree with a scan")


if __name__ == "__main__":
    try:
        main()
    except AssertionError as e:
        print("PROPERTY VIOLATED:", e)
        sys.exit(1)
