"""C19 demo: every change to element data made through the public editing API is announced
before it takes effect, so that a listener which merely replays the announcements holds an exact
mirror of the data.

The lesser-used way of dropping a name, `del element.name`, is a change of element data (the
".NAME" entry) just like `element.name = None`.
"""
import spydrnet as sdn
from spydrnet.callback.callback_listener import CallbackListener


class DataMirror(CallbackListener):
    """replays dictionary announcements into its own dictionaries"""

    def __init__(self):
        self.data = {}
        self.log = []
        super().__init__()

    def dictionary_set(self, element, key, value):
        self.log.append(("set", key))
        self.data.setdefault(id(element), {})[key] = value

    def dictionary_delete(self, element, key):
        self.log.append(("delete", key))
        del self.data.setdefault(id(element), {})[key]

    def dictionary_pop(self, element, key):
        self.log.append(("pop", key))
        self.data.setdefault(id(element), {}).pop(key)


mirror = DataMirror()
try:
    netlist = sdn.Netlist(name="n")
    lib = netlist.create_library("work")
    top = lib.create_definition("top")
    a = top.create_child("a", reference=None)
    b = top.create_child("b", reference=None)
    elements = [netlist, lib, top, a, b]

    def check(step):
        for e in elements:
            real = dict(e.data)
            mine = mirror.data.get(id(e), {})
            assert real == mine, (
                "C19 violated after %s: a listener that replayed every announcement holds the data %r "
                "for %r but the element holds %r (announcements seen: %r)"
                % (step, mine, e, real, mirror.log[-3:])
            )

    check("construction")
    a.name = None  # the usual way
    check("a.name = None")
    a.name = "a2"
    check("a.name = 'a2'")
    del b.name  # the lesser-used way
    check("del b.name")
    # the name must really be free again: another child can take it
    c = top.create_child("b", reference=None)
    elements.append(c)
    check("reuse of the deleted name")
finally:
    mirror.deregister_all_listeners()
print("ok")
