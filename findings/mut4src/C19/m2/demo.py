"""C19 demo: "No announcement is made for a change that does not then happen", and a listener
that merely replays the announcements always holds an exact mirror of the structure.

Bulk variant on its error path: Library.remove_definitions_from is given two of the library's
own definitions plus one definition of ANOTHER library.  The call is refused (AssertionError);
a refused call must not have announced anything and must not have changed anything.
"""
import spydrnet as sdn
from spydrnet.callback.callback_listener import CallbackListener


class ContainmentMirror(CallbackListener):
    def __init__(self):
        self.members = {}  # id(library) -> set of id(definition)
        self.log = []
        super().__init__()

    def library_add_definition(self, library, definition):
        self.log.append(("add", library.name, definition.name))
        self.members.setdefault(id(library), set()).add(id(definition))

    def library_remove_definition(self, library, definition):
        self.log.append(("remove", library.name, definition.name))
        self.members.setdefault(id(library), set()).remove(id(definition))


mirror = ContainmentMirror()
try:
    netlist = sdn.Netlist(name="n")
    work = netlist.create_library("work")
    other = netlist.create_library("other")
    d1 = work.create_definition("d1")
    d2 = work.create_definition("d2")
    d3 = work.create_definition("d3")
    foreign = other.create_definition("foreign")

    announced_before = len(mirror.log)
    try:
        work.remove_definitions_from([d1, d3, foreign])
    except AssertionError:
        refused = True
    else:
        refused = False
    assert refused, "the call with a foreign definition is expected to be refused"

    new_announcements = mirror.log[announced_before:]
    assert new_announcements == [], (
        "C19 violated: the refused call Library.remove_definitions_from(...) announced %r although "
        "the change did not happen" % (new_announcements,)
    )
    for lib in (work, other):
        real = set(id(d) for d in lib.definitions)
        assert real == mirror.members.get(id(lib), set()), (
            "C19 violated: the replaying listener's mirror of library %s differs from the library" % lib.name
        )
    assert all(d.library is work for d in (d1, d2, d3)) and list(work.definitions) == [d1, d2, d3], (
        "C19 violated: a refused call changed the containment: %r"
        % [(d.name, d.library.name if d.library else None) for d in (d1, d2, d3)]
    )

    # the regular (valid) bulk call still works and is announced once per definition
    work.remove_definitions_from([d1, d3])
    assert mirror.log[announced_before:] == [("remove", "work", "d1"), ("remove", "work", "d3")]
    assert list(work.definitions) == [d2]
finally:
    mirror.deregister_all_listeners()
print("ok")
