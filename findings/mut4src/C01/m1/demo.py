"""C01 demo: pin <-> wire links must stay mutually consistent.

Sequence: connect three pins to a wire (an inner pin and two outer pins of an
instance), then bulk-disconnect with Wire.disconnect_pins_from() handing in a
*proxy* outer pin built from (instance, inner pin) -- a form the API accepts
everywhere a real outer pin is accepted.
"""
import sys
import spydrnet as sdn


def check_wire_pin_links(wires, pins):
    problems = []
    for w in wires:
        seen = set()
        for p in w.pins:
            if id(p) in seen:
                problems.append("wire lists a pin twice")
            seen.add(id(p))
            if p.wire is not w:
                problems.append(
                    "wire lists pin %r but that pin reports wire %r" % (p, p.wire)
                )
    for p in pins:
        if p.wire is not None and sum(1 for q in p.wire.pins if q is p) != 1:
            problems.append("pin reports a wire whose pin list does not contain it once")
    return problems


netlist = sdn.Netlist(name="n")
lib = netlist.create_library(name="work")
leaf = lib.create_definition(name="leaf")
port = leaf.create_port(name="p", pins=2)
top = lib.create_definition(name="top")
tport = top.create_port(name="t", pins=1)
inst = top.create_child(name="u0", reference=leaf)
cable = top.create_cable(name="c", wires=1)
wire = cable.wires[0]

ip0, ip1 = port.pins
wire.connect_pin(tport.pins[0])
wire.connect_pin(inst.pins[ip0])
wire.connect_pin(inst.pins[ip1])
all_pins = [tport.pins[0], inst.pins[ip0], inst.pins[ip1]]
assert not check_wire_pin_links([wire], all_pins)

# bulk disconnect through a proxy outer pin (instance, inner pin)
proxy = sdn.OuterPin.from_instance_and_inner_pin(inst, ip0)
wire.disconnect_pins_from([proxy, tport.pins[0]])

problems = check_wire_pin_links([wire], all_pins)
assert inst.pins[ip0].wire is None, "disconnected outer pin still reports a wire"
assert not problems, "C01 violated after disconnect_pins_from(proxy): " + "; ".join(problems)
assert [p for p in wire.pins] == [inst.pins[ip1]], "wire should list exactly the remaining pin"
print("OK: wire/pin links consistent")
sys.exit(0)
