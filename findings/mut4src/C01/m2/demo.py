"""C01 demo: a *refused* bulk removal must leave parent links consistent.

Definition.remove_children_from() is handed one child of the definition and
one instance that belongs to another definition.  The call is refused (both
before and after the change); the property says that even then every container
lists exactly the elements that name it as their parent.
"""
import sys
import spydrnet as sdn

netlist = sdn.Netlist(name="n")
lib = netlist.create_library(name="work")
leaf = lib.create_definition(name="leaf")
top = lib.create_definition(name="top")
other = lib.create_definition(name="other")
mine = [top.create_child(name="u%d" % i, reference=leaf) for i in range(3)]
foreign = other.create_child(name="v0", reference=leaf)

refused = False
try:
    top.remove_children_from([mine[1], foreign])
except AssertionError:
    refused = True
assert refused, "removing a foreign instance must be refused"


def parent_problems(definition):
    problems = []
    for child in definition.children:
        if child.parent is not definition:
            problems.append(
                "definition '%s' lists child '%s' whose parent is %r"
                % (definition.name, child.name, child.parent)
            )
    return problems


problems = parent_problems(top) + parent_problems(other)
for inst in mine:
    if inst.parent is top and sum(1 for c in top.children if c is inst) != 1:
        problems.append("'%s' names top as parent but is not listed once" % inst.name)
assert not problems, "C01 violated after refused remove_children_from: " + "; ".join(problems)
assert foreign.parent is other and list(other.children) == [foreign]
print("OK: containers and parent links agree after the refused call")
sys.exit(0)
