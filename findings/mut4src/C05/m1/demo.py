"""C05 demo: "the design construct selects the top cell".

Two libraries declare a cell with the same identifier (legal: every library is
a name space of its own); the design construct names the one in library `work`
through cellRef + libraryRef.  The parsed netlist must have that cell as top.
"""
import os
import sys
import tempfile
import spydrnet as sdn

EDIF = """(edif demo
  (edifVersion 2 0 0)
  (edifLevel 0)
  (keywordMap (keywordLevel 0))
  (Library prims
    (edifLevel 0)
    (technology (numberDefinition))
    (cell BUF (cellType GENERIC)
      (view netlist (viewType NETLIST)
        (interface (port I (direction INPUT)) (port O (direction OUTPUT)))))
  )
  (Library work
    (edifLevel 0)
    (technology (numberDefinition))
    (cell core (cellType GENERIC)
      (view netlist (viewType NETLIST)
        (interface (port a (direction INPUT)) (port y (direction OUTPUT)))
        (contents
          (instance u0 (viewRef netlist (cellRef BUF (libraryRef prims))))
          (net a (joined (portRef a) (portRef I (instanceRef u0))))
          (net y (joined (portRef y) (portRef O (instanceRef u0)))))))
  )
  (Library bench
    (edifLevel 0)
    (technology (numberDefinition))
    (cell (rename core "core(bench)") (cellType GENERIC)
      (view netlist (viewType NETLIST)
        (interface (port clk (direction INPUT)))
        (contents
          (instance dut (viewRef netlist (cellRef core (libraryRef work)))))))
  )
  (design core (cellRef core (libraryRef work)))
)
"""

with tempfile.TemporaryDirectory() as tmp:
    path = os.path.join(tmp, "demo.edf")
    with open(path, "w") as f:
        f.write(EDIF)
    netlist = sdn.parse(path)

assert [lib.name for lib in netlist.libraries] == ["prims", "work", "bench"]
top = netlist.top_instance
assert top is not None and top.reference is not None, "no top instance"
got = (top.reference.library.name, top.reference.name)
assert got == ("work", "core"), (
    "C05 violated: the design construct says (cellRef core (libraryRef work)) "
    "but the parsed top cell is %r of library %r" % (got[1], got[0])
)
assert [p.name for p in top.reference.ports] == ["a", "y"]
assert top in top.reference.references
bench_core = netlist.libraries[2].definitions[0]
assert bench_core.children[0].reference is netlist.libraries[1].definitions[0]
print("OK: design selects cell 'core' of library 'work'")
sys.exit(0)
