"""C05 demo: every instance refers to the cell named by its cellRef / libraryRef,
whatever letter case the identifiers are written in (EDIF identifiers are case
insensitive).  Here an instance inside library `Work` refers to a sibling cell of
the *same* library and spells the library name `WORK`.
"""
import os
import sys
import tempfile
import spydrnet as sdn

EDIF = """(edif demo
  (edifVersion 2 0 0)
  (edifLevel 0)
  (keywordMap (keywordLevel 0))
  (Library Prims
    (edifLevel 0)
    (technology (numberDefinition))
    (cell INV (cellType GENERIC)
      (view netlist (viewType NETLIST)
        (interface (port I (direction INPUT)) (port O (direction OUTPUT)))))
  )
  (Library Work
    (edifLevel 0)
    (technology (numberDefinition))
    (cell stage (cellType GENERIC)
      (view netlist (viewType NETLIST)
        (interface (port a (direction INPUT)) (port y (direction OUTPUT)))
        (contents
          (instance i0 (viewRef netlist (cellRef inv (libraryRef PRIMS))))
          (net a (joined (portRef a) (portRef I (instanceRef i0))))
          (net y (joined (portRef y) (portRef O (instanceRef i0)))))))
    (cell top (cellType GENERIC)
      (view netlist (viewType NETLIST)
        (interface (port a (direction INPUT)) (port y (direction OUTPUT)))
        (contents
          (instance s0 (viewRef netlist (cellRef stage (libraryRef Work))))
          (instance s1 (viewRef NETLIST (cellRef STAGE (libraryRef WORK))))
          (net a (joined (portRef a) (portRef a (instanceRef s0))))
          (net m (joined (portRef y (instanceRef s0)) (portRef A (instanceRef S1))))
          (net y (joined (portRef y) (portRef y (instanceRef s1)))))))
  )
  (design top (cellRef TOP (libraryRef work)))
)
"""

with tempfile.TemporaryDirectory() as tmp:
    path = os.path.join(tmp, "demo.edf")
    with open(path, "w") as f:
        f.write(EDIF)
    try:
        netlist = sdn.parse(path)
    except BaseException as e:
        raise AssertionError(
            "C05 violated: the reader does not build the design the file describes, it fails with %r"
            % (e,)
        ) from None

work = netlist.libraries[1]
stage, top = work.definitions
assert netlist.top_instance.reference is top, "design construct must select cell top of library Work"
refs = {inst.name: inst.reference for inst in top.children}
assert refs == {"s0": stage, "s1": stage}, "C05 violated: wrong cellRef/libraryRef targets: %r" % refs
m = next(top.get_cables("m"))
joined = sorted((p.instance.name, p.inner_pin.port.name) for p in m.wires[0].pins)
assert joined == [("s0", "y"), ("s1", "a")], "C05 violated: net m joins %r" % joined
print("OK: cellRef/libraryRef resolved independent of letter case")
sys.exit(0)
