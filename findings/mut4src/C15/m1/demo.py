"""C15: after a rejection, process-wide settings - in particular the active naming policy - are
what they were before the call; successful parses likewise restore the policy they switched.

The Verilog reader switches the active policy to DEFAULT while it reads.  Here the active policy
before the call is EDIF (the session builds EDIF-policy netlists through the API), and Verilog
texts - one valid, some truncated/corrupted - are read in between.
"""
import os
import tempfile
import spydrnet as sdn

VALID = """
module leaf(input a, output y);
endmodule
module top(input [1:0] d, output q);
  wire n;
  leaf u0(.a(d[0]), .y(n));
  leaf u1(.a(n), .y(q));
endmodule
"""
tokens = VALID.split()
REJECTED = {
    "truncated in the header": "module top(input a, output",
    "truncated in the body": " ".join(tokens[: len(tokens) - 3]),
    "token replaced": VALID.replace("wire n;", "wire ;"),
    "token deleted": VALID.replace("leaf u1(", "leaf u1"),
}


def read(text):
    fd, path = tempfile.mkstemp(suffix=".v")
    try:
        with os.fdopen(fd, "w") as f:
            f.write(text)
        return sdn.parse(path)
    finally:
        os.remove(path)


def api_behaviour():
    """what an API session observes of the active policy"""
    netlist = sdn.Netlist(name="n")
    lib = netlist.create_library(name="work")
    try:
        lib["EDIF.identifier"] = "9 not an identifier"
        illegal_identifier_accepted = True
    except ValueError:
        illegal_identifier_accepted = False
    a = lib.create_definition(name="a", properties={"EDIF.identifier": "Cell"})
    try:
        lib.create_definition(name="b", properties={"EDIF.identifier": "CELL"})
        case_clash_accepted = True
    except ValueError:
        case_clash_accepted = False
    return (sdn.namespace_manager.default, netlist[".NS"], lib[".NS"], a[".NS"],
            illegal_identifier_accepted, case_clash_accepted)


def check(policy):
    sdn.namespace_manager.default = policy
    before = api_behaviour()
    assert before[0] == policy

    netlist = read(VALID)
    assert netlist[".NS"] == "DEFAULT" and len(list(netlist.get_instances())) == 2
    after = api_behaviour()
    assert after == before, (
        "active policy {} before a successful Verilog parse; afterwards the session observes {} "
        "instead of {}".format(policy, after, before)
    )
    for what, text in REJECTED.items():
        try:
            read(text)
        except Exception:
            pass
        else:
            raise AssertionError("{}: expected the text to be rejected".format(what))
        after = api_behaviour()
        assert after == before, (
            "active policy {} before the rejected Verilog text ({}); afterwards the session "
            "observes {} instead of {}".format(policy, what, after, before)
        )


try:
    check("DEFAULT")
    check("EDIF")
    check("DEFAULT")
finally:
    sdn.namespace_manager.default = "DEFAULT"
print("ok")
