"""C15: EDIF references to cells, ports, instances or libraries that were never declared are
always rejected (each reader either returns a well-formed netlist or raises an error).

Every reference token of a small hierarchical EDIF file is replaced, one at a time, by a name
that is declared nowhere; each corrupted text must be rejected, and the active naming policy
must be what it was before.
"""
import os
import tempfile
import spydrnet as sdn

VALID = """(edif demo
  (edifVersion 2 0 0)
  (edifLevel 0)
  (keywordMap (keywordLevel 0))
  (Library prims
    (edifLevel 0)
    (technology (numberDefinition))
    (cell LEAF (cellType GENERIC)
      (view netlist (viewType NETLIST)
        (interface (port I (direction INPUT)) (port O (direction OUTPUT))))))
  (Library work
    (edifLevel 0)
    (technology (numberDefinition))
    (cell mid (cellType GENERIC)
      (view netlist (viewType NETLIST)
        (interface (port a (direction INPUT)) (port y (direction OUTPUT)))
        (contents
          (instance u (viewRef netlist (cellRef LEAF (libraryRef prims))))
          (net a (joined (portRef a) (portRef I (instanceRef u))))
          (net y (joined (portRef y) (portRef O (instanceRef u)))))))
    (cell top (cellType GENERIC)
      (view netlist (viewType NETLIST)
        (interface (port d (direction INPUT)) (port q (direction OUTPUT)))
        (contents
          (instance m1 (viewRef netlist (cellRef mid (libraryRef work))))
          (instance m2 (viewRef netlist (cellRef mid (libraryRef work))))
          (net d (joined (portRef d) (portRef a (instanceRef m1))))
          (net n (joined (portRef y (instanceRef m1)) (portRef a (instanceRef m2))))
          (net q (joined (portRef q) (portRef y (instanceRef m2))))))))
  (design top (cellRef top (libraryRef work))))
"""


def read(text):
    fd, path = tempfile.mkstemp(suffix=".edf")
    try:
        with os.fdopen(fd, "w") as f:
            f.write(text)
        return sdn.parse(path)
    finally:
        os.remove(path)


policy = sdn.namespace_manager.default
netlist = read(VALID)
assert sorted(h.name for h in sdn.get_hinstances(netlist, recursive=True)) == [
    "m1", "m1/u", "m2", "m2/u"
]
assert sdn.namespace_manager.default == policy

# every "(<kind>Ref <name>" occurrence, replaced by an undeclared name
words = VALID.replace("(", " ( ").replace(")", " ) ").split()
kinds = {"libraryRef": "library", "cellRef": "cell", "instanceRef": "instance", "portRef": "port"}
corrupted = 0
for position, word in enumerate(words):
    if word in kinds:
        mutated = list(words)
        mutated[position + 1] = "never_declared"
        text = " ".join(mutated)
        what = "reference #{} to the {} {!r} replaced by an undeclared {}".format(
            position, kinds[word], words[position + 1], kinds[word]
        )
        try:
            result = read(text)
        except Exception:
            result = None
        assert sdn.namespace_manager.default == policy, what + ": naming policy not restored"
        assert result is None, (
            "{}: the reader accepted the text and returned {} (libraries {})".format(
                what, result, [l.name for l in result.libraries]
            )
        )
        corrupted += 1
assert corrupted == 24, corrupted
print("ok")
