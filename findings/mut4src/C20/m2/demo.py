"""C20 demo: the comparer accepts a faithful copy (clone) and ALWAYS raises when the copy differs
in the count of libraries, definitions, ports, cables or instances.

One element is added to, or dropped from, a clone, once for each kind of element.
"""
import spydrnet as sdn
from spydrnet.compare.compare_netlists import Comparer


def build():
    netlist = sdn.Netlist(name="n")
    prims = netlist.create_library("prims")
    inv = prims.create_definition("INV")
    i = inv.create_port("I", direction=sdn.IN, pins=1)
    o = inv.create_port("O", direction=sdn.OUT, pins=1)
    netlist.create_library("reserved")  # a library that holds nothing yet
    work = netlist.create_library("work")
    top = work.create_definition("top")
    a = top.create_port("a", direction=sdn.IN, pins=1)
    y = top.create_port("y", direction=sdn.OUT, pins=1)
    u = top.create_child("u0", reference=inv)
    ca = top.create_cable("a", wires=1)
    cy = top.create_cable("y", wires=1)
    ca.wires[0].connect_pin(a.pins[0])
    ca.wires[0].connect_pin(u.pins[i.pins[0]])
    cy.wires[0].connect_pin(y.pins[0])
    cy.wires[0].connect_pin(u.pins[o.pins[0]])
    netlist.set_top_instance(top, instance_name="top")
    return netlist


def raises(orig, copy):
    try:
        Comparer(orig, copy).compare()
    except Exception:
        return True
    return False


def lib(netlist, name):
    return next(netlist.get_libraries(name))


def top_of(netlist):
    return next(lib(netlist, "work").get_definitions("top"))


orig = build()
assert not raises(orig, orig.clone()), "C20 violated: a faithful copy (clone) is rejected"

edits = {
    "add one library": lambda c: c.create_library("extra"),
    "drop one library": lambda c: c.remove_library(lib(c, "reserved")),
    "add one definition": lambda c: lib(c, "prims").create_definition("BUF"),
    "add one port": lambda c: top_of(c).create_port("extra", direction=sdn.IN, pins=1),
    "add one cable": lambda c: top_of(c).create_cable("extra", wires=1),
    "drop one cable": lambda c: top_of(c).remove_cable(next(top_of(c).get_cables("y"))),
    "add one instance": lambda c: top_of(c).create_child("u1", reference=next(lib(c, "prims").get_definitions("INV"))),
    "drop one instance": lambda c: top_of(c).remove_child(next(top_of(c).get_instances("u0"))),
}
missed = []
for label, edit in edits.items():
    copy = orig.clone()
    edit(copy)
    if not raises(orig, copy):
        missed.append(label)
assert not missed, (
    "C20 violated: the comparer did not raise although the copy differs in a count of elements: "
    + ", ".join(missed)
)
print("ok")
