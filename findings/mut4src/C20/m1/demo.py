"""C20 demo: the comparer accepts a faithful copy (clone) and ALWAYS raises when the copy differs
in a port's direction.

Every single change of one port's direction in the clone is tried, for every port and every
other direction value (IN, OUT, INOUT, UNDEFINED).
"""
import spydrnet as sdn
from spydrnet.compare.compare_netlists import Comparer


def build():
    netlist = sdn.Netlist(name="n")
    prims = netlist.create_library("prims")
    inv = prims.create_definition("INV")
    i = inv.create_port("I", direction=sdn.IN, pins=1)
    o = inv.create_port("O", direction=sdn.OUT, pins=1)
    box = prims.create_definition("BOX")  # a black box whose port directions are not known
    box.create_port("P", pins=2)
    work = netlist.create_library("work")
    top = work.create_definition("top")
    a = top.create_port("a", direction=sdn.IN, pins=1)
    y = top.create_port("y", direction=sdn.OUT, pins=1)
    io = top.create_port("io", direction=sdn.INOUT, pins=2)
    u = top.create_child("u0", reference=inv)
    b = top.create_child("b0", reference=box)
    ca = top.create_cable("a", wires=1)
    cy = top.create_cable("y", wires=1)
    cio = top.create_cable("io", wires=2)
    ca.wires[0].connect_pin(a.pins[0])
    ca.wires[0].connect_pin(u.pins[i.pins[0]])
    cy.wires[0].connect_pin(y.pins[0])
    cy.wires[0].connect_pin(u.pins[o.pins[0]])
    for k in range(2):
        cio.wires[k].connect_pin(io.pins[k])
        cio.wires[k].connect_pin(b.pins[box.ports[0].pins[k]])
    netlist.set_top_instance(top, instance_name="top")
    return netlist


def raises(orig, copy):
    try:
        Comparer(orig, copy).compare()
    except Exception:
        return True
    return False


orig = build()
assert not raises(orig, orig.clone()), "C20 violated: a faithful copy (clone) is rejected"

directions = [sdn.IN, sdn.OUT, sdn.INOUT, sdn.UNDEFINED]
missed = []
for li, lib in enumerate(orig.libraries):
    for di, definition in enumerate(lib.definitions):
        for pi, port in enumerate(definition.ports):
            for new_direction in directions:
                if new_direction == port.direction:
                    continue
                copy = orig.clone()
                copy_port = copy.libraries[li].definitions[di].ports[pi]
                copy_port.direction = new_direction
                if not raises(orig, copy):
                    missed.append("%s.%s: %s -> %s" % (definition.name, port.name, port.direction.name, new_direction.name))
assert not missed, (
    "C20 violated: the comparer did not raise although the copy differs in a port's direction: "
    + "; ".join(missed)
)
print("ok")
