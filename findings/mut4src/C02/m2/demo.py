"""C02 demo: re-pointing an instance to a shape-compatible definition keeps every
connection on the corresponding pin -- also when the definition got a port
inserted in front of the existing ones (add_port(..., position=0)) *after* the
instance had been created.
"""
import sys
import spydrnet as sdn


def build(lib, name):
    d = lib.create_definition(name=name)
    d.create_port(name="d", pins=2, direction=sdn.IN)
    d.create_port(name="q", pins=1, direction=sdn.OUT)
    return d


netlist = sdn.Netlist(name="n")
lib = netlist.create_library(name="work")
ff_a = build(lib, "ff_a")
ff_b = build(lib, "ff_b")
top = lib.create_definition(name="top")
u0 = top.create_child(name="u0", reference=ff_a)

# both implementations later receive a clock port in front of the data ports
for d in (ff_a, ff_b):
    clk = sdn.Port(name="clk", direction=sdn.IN)
    clk.create_pin()
    d.add_port(clk, position=0)
assert [p.name for p in ff_a.ports] == ["clk", "d", "q"] == [p.name for p in ff_b.ports]

# wire every pin of u0 to its own net
nets = {}
for port in ff_a.ports:
    for i, ip in enumerate(port.pins):
        cable = top.create_cable(name="n_%s_%d" % (port.name, i), wires=1)
        cable.wires[0].connect_pin(u0.pins[ip])
        nets[(port.name, i)] = cable.wires[0]

u0.reference = ff_b  # shape-compatible: same port positions and widths

problems = []
if u0 not in ff_b.references or u0 in ff_a.references:
    problems.append("reference sets not updated")
inner = [ip for port in ff_b.ports for ip in port.pins]
if len(list(u0.pins)) != len(inner):
    problems.append("wrong number of outer pins")
for port in ff_b.ports:
    for i, ip in enumerate(port.pins):
        op = u0.pins[ip]
        if op.inner_pin is not ip or op.instance is not u0:
            problems.append("outer pin for %s[%d] names inner pin of port '%s'"
                            % (port.name, i, op.inner_pin.port.name))
        want = nets[(port.name, i)]
        if op.wire is not want:
            problems.append(
                "pin %s[%d] of u0 is on net '%s' instead of '%s'"
                % (port.name, i, op.wire.cable.name if op.wire else None, want.cable.name)
            )
assert not problems, "C02 violated after re-pointing u0 to ff_b: " + "; ".join(problems)
print("OK: every connection stayed on the corresponding pin")
sys.exit(0)
