"""C02 demo: re-pointing an instance to a shape-compatible definition -- here the
definition it already references (e.g. a generic "swap implementation" loop that
happens to pick the current one) -- must keep it in that definition's reference
set, and later port/pin edits must keep mirroring onto its outer pins.
"""
import sys
import spydrnet as sdn


def mirror_problems(definitions, instances):
    problems = []
    for inst in instances:
        ref = inst.reference
        for d in definitions:
            if (inst in d.references) != (d is ref):
                problems.append(
                    "instance '%s' references '%s' but membership in references of '%s' is %s"
                    % (inst.name, ref.name if ref else None, d.name, inst in d.references)
                )
        if ref is not None:
            inner = [p for port in ref.ports for p in port.pins]
            outer = list(inst.pins)
            if len(outer) != len(inner) or any(ip not in inst.pins for ip in inner):
                problems.append(
                    "instance '%s' has %d outer pins for %d inner pins of '%s'"
                    % (inst.name, len(outer), len(inner), ref.name)
                )
            for ip in inner:
                if ip in inst.pins:
                    op = inst.pins[ip]
                    if op.instance is not inst or op.inner_pin is not ip:
                        problems.append("outer pin does not name its instance / inner pin")
    return problems


netlist = sdn.Netlist(name="n")
lib = netlist.create_library(name="work")
leaf = lib.create_definition(name="leaf")
leaf.create_port(name="a", pins=2)
alt = lib.create_definition(name="alt")
alt.create_port(name="a", pins=2)
top = lib.create_definition(name="top")
u0 = top.create_child(name="u0", reference=leaf)
u1 = top.create_child(name="u1", reference=leaf)
netlist.top_instance = top
everything = [leaf, alt, top], [u0, u1, netlist.top_instance]
assert not mirror_problems(*everything)

# re-point u0 through every candidate implementation and back to the first one
for candidate in (alt, leaf, leaf):
    u0.reference = candidate
    problems = mirror_problems(*everything)
    assert not problems, "C02 violated after re-pointing u0 to '%s': %s" % (
        candidate.name, "; ".join(problems))

# later edits of the definition must still be mirrored on every instance
leaf.create_port(name="b", pins=1)
problems = mirror_problems(*everything)
assert not problems, "C02 violated after adding a port: " + "; ".join(problems)
print("OK: reference sets and outer pins mirror the definitions")
sys.exit(0)
