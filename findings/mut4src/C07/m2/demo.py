"""C07 demo: the copy "shares no element with the original" and every link, "reference sets"
included, "resolves inside the copy", so that "later edits ... of either netlist never show in the other".

The original netlist went through an ordinary edit before it is cloned: a library whose cells
instance a primitive of another library was taken out of the netlist (spydrnet keeps such instances
in the primitive's reference set).  The clone must only know about its own instances.
"""
import sys

import spydrnet as sdn


def build():
    netlist = sdn.Netlist(name="design")
    prims = netlist.create_library(name="prims")
    buf = prims.create_definition(name="BUF")
    buf.create_port(name="I", pins=1, direction=sdn.IN)
    buf.create_port(name="O", pins=1, direction=sdn.OUT)

    work = netlist.create_library(name="work")
    top = work.create_definition(name="top")
    top.create_child(name="b0", reference=buf)
    top.create_child(name="b1", reference=buf)

    extra = netlist.create_library(name="extra")
    helper = extra.create_definition(name="helper")
    helper.create_child(name="hb", reference=buf)

    netlist.top_instance = sdn.Instance(name="top_i")
    netlist.top_instance.reference = top
    return netlist


def elements_of(netlist):
    found = {netlist.top_instance}
    for library in netlist.libraries:
        for definition in library.definitions:
            found.add(definition)
            found.update(definition.children)
    return found


def main():
    netlist = build()
    extra = next(netlist.get_libraries("extra"))
    hb = extra.definitions[0].children[0]
    # an edit of the original before cloning
    netlist.remove_library(extra)
    assert hb in hb.reference.references and len(hb.pins) == 2

    copy = netlist.clone()
    own = elements_of(copy)
    for library in copy.libraries:
        for definition in library.definitions:
            foreign = [i for i in definition.references if i not in own]
            assert not foreign, (
                "the reference set of '%s' in the clone contains %d instance(s) that are not part of the clone: %s"
                % (definition.name, len(foreign), [i.name for i in foreign])
            )
            for instance in definition.references:
                assert instance.reference is definition
    buf_copy = next(copy.get_definitions("BUF"))
    assert sorted(i.name for i in buf_copy.references) == ["b0", "b1"]

    # a later edit of the clone must not show in the original
    buf_copy.ports[0].create_pin()
    assert len(hb.pins) == 2, (
        "adding a pin to BUF.I in the clone changed instance 'hb' of the original (%d pins now)"
        % len(hb.pins)
    )
    print("ok: the clone's reference sets resolve inside the clone")


if __name__ == "__main__":
    try:
        main()
    except AssertionError as e:
        print("PROPERTY VIOLATED:", e)
        sys.exit(1)
