"""C07 demo: "later edits ... of either netlist never show in the other" with "arbitrary user data".

A cable carries nested user data (the shape the Verilog and EDIF readers produce: a dictionary of
inline constraints, a list of property records).  The netlist is cloned and the data of the
*clone's* cable is edited in place.  The original must not change; the same for a cloned definition
and a cloned cable.
"""
import sys

import spydrnet as sdn


def build():
    netlist = sdn.Netlist(name="design")
    lib = netlist.create_library(name="work")
    leaf = lib.create_definition(name="LEAF")
    leaf.create_port(name="A", pins=1)
    top = lib.create_definition(name="top")
    port = top.create_port(name="in", pins=1)
    cable = top.create_cable(name="n1", wires=1)
    cable["VERILOG.InlineConstraints"] = {"KEEP": "true"}
    cable["EDIF.properties"] = [{"identifier": "MARK", "value": 1}]
    inst = top.create_child(name="u0", reference=leaf)
    cable.wires[0].connect_pin(port.pins[0])
    cable.wires[0].connect_pin(inst.pins[leaf.ports[0].pins[0]])
    netlist.top_instance = sdn.Instance(name="top_i")
    netlist.top_instance.reference = top
    return netlist, top, cable


def snapshot(cable):
    return (dict(cable["VERILOG.InlineConstraints"]), [dict(r) for r in cable["EDIF.properties"]])


def edit(cable):
    cable["VERILOG.InlineConstraints"]["DONT_TOUCH"] = "yes"
    cable["EDIF.properties"][0]["value"] = 2
    cable["EDIF.properties"].append({"identifier": "ADDED", "value": 3})


def main():
    for what in ("netlist", "definition", "cable"):
        netlist, top, cable = build()
        before = snapshot(cable)
        if what == "netlist":
            copy_cable = next(netlist.clone().get_cables("n1"))
        elif what == "definition":
            copy_cable = next(top.clone().get_cables("n1"))
        else:
            copy_cable = cable.clone()
        assert copy_cable is not cable
        assert snapshot(copy_cable) == before, "the %s clone does not carry the same data" % what
        edit(copy_cable)
        after = snapshot(cable)
        assert after == before, (
            "an edit of the user data of cable 'n1' in the cloned %s shows in the original: %s -> %s"
            % (what, before, after)
        )
        # and the other way round
        netlist, top, cable = build()
        copy_netlist = netlist.clone()
        edit(cable)
        copy_cable = next(copy_netlist.get_cables("n1"))
        assert snapshot(copy_cable) == before, (
            "an edit of the original's cable data shows in the clone: %s" % (snapshot(copy_cable),)
        )
    print("ok: cable data of clone and original are independent")


if __name__ == "__main__":
    try:
        main()
    except AssertionError as e:
        print("PROPERTY VIOLATED:", e)
        sys.exit(1)
