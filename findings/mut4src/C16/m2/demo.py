"""C16 demo: writing a netlist to EBLIF must leave its names as they were.

Only the EDIF writer is allowed to default an absent netlist name.  The EBLIF writer never
looks at the netlist name, so an unnamed netlist is composable to EBLIF; doing so through
the Netlist.compose shortcut must leave netlist.name absent, exactly as sdn.compose does.
"""
import os
import tempfile

import spydrnet as sdn


def build():
    netlist = sdn.Netlist()  # no name on purpose
    prims = netlist.create_library("hdi_primitives")
    inv = prims.create_definition("INV")
    pi = inv.create_port("I", direction=sdn.IN, pins=1)
    po = inv.create_port("O", direction=sdn.OUT, pins=1)
    work = netlist.create_library("work")
    top = work.create_definition("top")
    a = top.create_port("a", direction=sdn.IN, pins=1)
    y = top.create_port("y", direction=sdn.OUT, pins=1)
    u = top.create_child("u0", reference=inv)
    u["EBLIF.type"] = "EBLIF.subckt"
    ca = top.create_cable("a", wires=1)
    cy = top.create_cable("y", wires=1)
    ca.wires[0].connect_pin(a.pins[0])
    ca.wires[0].connect_pin(u.pins[pi.pins[0]])
    cy.wires[0].connect_pin(y.pins[0])
    cy.wires[0].connect_pin(u.pins[po.pins[0]])
    netlist.set_top_instance(top, instance_name="top_i")
    return netlist


with tempfile.TemporaryDirectory() as tmp:
    # reference behaviour: the function entry point
    n1 = build()
    f1 = os.path.join(tmp, "fn.eblif")
    sdn.compose(n1, f1, write_blackbox=False)
    assert n1.name is None, "C16 violated: sdn.compose(.eblif) gave the netlist the name %r" % n1.name

    # the method entry point, same netlist, same options
    n2 = build()
    f2 = os.path.join(tmp, "method.eblif")
    data_before = dict(n2.data)
    n2.compose(f2, write_blackbox=False)
    assert open(f1).read() == open(f2).read(), "both entry points must write the same text"
    assert n2.name is None and dict(n2.data) == data_before, (
        "C16 violated: Netlist.compose to EBLIF changed the netlist's name from None to %r "
        "(data %r -> %r); only the EDIF writer may default an absent netlist name"
        % (n2.name, data_before, dict(n2.data))
    )
print("ok")
