"""C03 demo: EDIF write-then-read returns the same netlist, and the file written
is always accepted by the reader -- here for a netlist built through the API in
which two sibling instances (and two sibling nets) have names that differ only
in letter case (legal in spydrnet's default, case sensitive, namespace; EDIF
identifiers are case insensitive, so the writer has to invent distinct ones).
"""
import os
import sys
import tempfile
import spydrnet as sdn


def describe(netlist):
    """A plain-data description of what C03 says must survive the round trip."""
    out = {"top": (netlist.top_instance.name, netlist.top_instance.reference.name,
                   netlist.top_instance.reference.library.name)}
    for lib in netlist.libraries:
        for d in lib.definitions:
            key = (lib.name, d.name)
            ports = [(p.name, p.direction.name, len(p.pins), p.is_array) for p in d.ports]
            insts = sorted(
                (i.name, i.reference.name, i.reference.library.name,
                 repr(i.get("EDIF.properties", None)))
                for i in d.children)
            nets = {}
            for c in d.cables:
                bits = []
                for w in c.wires:
                    pins = []
                    for pin in w.pins:
                        if isinstance(pin, sdn.OuterPin):
                            ip = pin.inner_pin
                            pins.append((pin.instance.name, ip.port.name, ip.port.pins.index(ip)))
                        else:
                            pins.append((None, pin.port.name, pin.port.pins.index(pin)))
                    bits.append(pins)
                nets[c.name] = (len(c.wires), c.lower_index, bits)
            out[key] = (ports, insts, nets)
    return out


netlist = sdn.Netlist(name="design")
prims = netlist.create_library(name="prims")
buf = prims.create_definition(name="BUF")
buf.create_port(name="I", direction=sdn.IN, pins=1)
buf.create_port(name="O", direction=sdn.OUT, pins=1)
work = netlist.create_library(name="work")
top = work.create_definition(name="top")
pin_a = top.create_port(name="a", direction=sdn.IN, pins=1).pins[0]
pin_y = top.create_port(name="y", direction=sdn.OUT, pins=1).pins[0]
stage1 = top.create_child(name="Stage", reference=buf)
stage2 = top.create_child(name="stage", reference=buf)
n_in = top.create_cable(name="a", wires=1).wires[0]
n_mid1 = top.create_cable(name="Mid", wires=1).wires[0]
n_out = top.create_cable(name="y", wires=1).wires[0]
n_in.connect_pin(pin_a)
n_in.connect_pin(stage1.pins[buf.ports[0].pins[0]])
n_mid1.connect_pin(stage1.pins[buf.ports[1].pins[0]])
n_mid1.connect_pin(stage2.pins[buf.ports[0].pins[0]])
n_out.connect_pin(stage2.pins[buf.ports[1].pins[0]])
n_out.connect_pin(pin_y)
netlist.top_instance = sdn.Instance(name="design")
netlist.top_instance.reference = top

before = describe(netlist)
with tempfile.TemporaryDirectory() as tmp:
    path = os.path.join(tmp, "out.edf")
    sdn.compose(netlist, path)
    try:
        back = sdn.parse(path)
    except Exception as e:  # noqa
        raise AssertionError(
            "C03 violated: the EDIF file written by the composer is rejected by the reader: %r" % (e,)
        ) from None
after = describe(back)
assert before == after, "C03 violated: write-then-read changed the netlist:\n%r\n!=\n%r" % (before, after)
print("OK: EDIF round trip preserved the netlist")
sys.exit(0)
