"""C06 demo: "parameters and attributes are represented as documented".

docs/source/reference/verilog_support.rst: "Multiple sets of constraints can exist before
constructs" and they end up in the "VERILOG.InlineConstraints" dictionary of the instance / cable
that follows them.  Vivado writes one (* ... *) group per attribute, so two groups in front of one
instance or wire is the normal case there.
"""
import io
import sys

from spydrnet.parsers.verilog.parser import VerilogParser

SOURCE = """
(* STRUCTURAL_NETLIST = "yes" *)
module top (input a, output y);
  wire a;
  wire y;
  (* MARK_DEBUG = "true" *) (* KEEP *)
  wire n;

  (* BOX_TYPE = "PRIMITIVE" *)
  (* DONT_TOUCH *)
  (* LOC = "SLICE_X0Y0" *)
  BUF b0 (.I(a), .O(n));

  (* single = "1", second *)
  BUF b1 (.I(n), .O(y));
endmodule
"""


def main():
    netlist = VerilogParser.from_file_handle(io.StringIO(SOURCE)).parse()
    top = netlist.top_instance.reference

    def constraints(element):
        return dict(element["VERILOG.InlineConstraints"]) if "VERILOG.InlineConstraints" in element else {}

    b0 = next(top.get_instances("b0"))
    b1 = next(top.get_instances("b1"))
    n = next(top.get_cables("n"))

    expected_b0 = {"BOX_TYPE": '"PRIMITIVE"', "DONT_TOUCH": None, "LOC": '"SLICE_X0Y0"'}
    expected_b1 = {"single": '"1"', "second": None}
    expected_n = {"MARK_DEBUG": '"true"', "KEEP": None}

    assert constraints(b1) == expected_b1, "attributes of b1 (one group): %s" % constraints(b1)
    assert constraints(n) == expected_n, (
        "the source puts the attributes %s on wire n (two (* *) groups) but the reader kept %s"
        % (sorted(expected_n), sorted(constraints(n)))
    )
    assert constraints(b0) == expected_b0, (
        "the source puts the attributes %s on instance b0 (three (* *) groups) but the reader kept %s"
        % (sorted(expected_b0), sorted(constraints(b0)))
    )
    print("ok: all attribute groups were kept")


if __name__ == "__main__":
    try:
        main()
    except AssertionError as e:
        print("PROPERTY VIOLATED:", e)
        sys.exit(1)
