"""C06 demo: "the single root module of the design becomes the top", for any module order.

A four-level chain root -> stage -> unit -> leaf is written with the leaf first and the module
that instances the leaf last, so that when `unit` is read both of its ancestors are already known.
"""
import io
import sys

from spydrnet.parsers.verilog.parser import VerilogParser

SOURCE = """
module leaf (input a, output y);
endmodule

module root (input a, output y);
  wire a, y;
  stage s0 (.a(a), .y(y));
endmodule

module stage (input a, output y);
  wire a, y;
  unit u0 (.a(a), .y(y));
endmodule

module unit (input a, output y);
  wire a, y;
  leaf l0 (.a(a), .y(y));
endmodule
"""


def main():
    netlist = VerilogParser.from_file_handle(io.StringIO(SOURCE)).parse()
    top = netlist.top_instance
    assert top is not None and top.reference is not None, "no top instance"
    work = next(netlist.get_libraries("work"))
    # the root module is the only module nobody instances
    roots = [d.name for d in work.definitions if len(d.references - {top}) == 0]
    assert roots == ["root"], "unexpected root set " + str(roots)
    assert top.reference.name == "root", (
        "the single root module of the design is 'root' but the top instance refers to '%s'"
        % top.reference.name
    )
    # the whole design is reachable from the top: root/s0/u0/l0
    path = []
    definition = top.reference
    while definition.children:
        child = definition.children[0]
        path.append(child.name)
        definition = child.reference
    assert path == ["s0", "u0", "l0"], "hierarchy below the top is %s" % path
    print("ok: top is", top.reference.name)


if __name__ == "__main__":
    try:
        main()
    except AssertionError as e:
        print("PROPERTY VIOLATED:", e)
        sys.exit(1)
