"""C12: selection ALL returns exactly the hierarchical wires joined through instance port
boundaries, so every member of a net yields the same answer.

Net under test: a wire `bus` of the top definition drives port D of two instances (m1, m2) of the
same definition `mid`; inside `mid`, port D is attached to the wire `d_int`.  The electrical net is
{bus, m1/d_int, m2/d_int} whichever member one starts from.
"""
import spydrnet as sdn
from spydrnet.util.hierarchical_reference import HRef

netlist = sdn.Netlist(name="n")
lib = netlist.create_library(name="work")

leaf = lib.create_definition(name="LEAF")
leaf_i = leaf.create_port(name="I", pins=1)

mid = lib.create_definition(name="mid")
mid_d = mid.create_port(name="D", pins=1)
d_int = mid.create_cable(name="d_int", wires=1)
ff = mid.create_child(name="ff", reference=leaf)
d_int.wires[0].connect_pin(mid_d.pins[0])
d_int.wires[0].connect_pin(ff.pins[leaf_i.pins[0]])

top = lib.create_definition(name="top")
top_in = top.create_port(name="in", pins=1)
bus = top.create_cable(name="bus", wires=1)
m1 = top.create_child(name="m1", reference=mid)
m2 = top.create_child(name="m2", reference=mid)
bus.wires[0].connect_pin(top_in.pins[0])
bus.wires[0].connect_pin(m1.pins[mid_d.pins[0]])
bus.wires[0].connect_pin(m2.pins[mid_d.pins[0]])
top_i = sdn.Instance(name="top_i")
top_i.reference = top
netlist.top_instance = top_i

expected = ["bus", "m1/d_int", "m2/d_int"]


def net_of(start):
    got = list(sdn.get_hwires(start, selection="ALL"))
    assert len(got) == len(set(got)), "duplicate hierarchical wires"
    return sorted(h.name for h in got)


starts = {
    "wire bus": HRef.from_sequence([top_i, bus, bus.wires[0]]),
    "cable bus": HRef.from_sequence([top_i, bus]),
    "wire m1/d_int": HRef.from_sequence([top_i, m1, d_int, d_int.wires[0]]),
    "wire m2/d_int": HRef.from_sequence([top_i, m2, d_int, d_int.wires[0]]),
    "pin m1/D": HRef.from_sequence([top_i, m1, mid_d, mid_d.pins[0]]),
    "port m2/D": HRef.from_sequence([top_i, m2, mid_d]),
    "pin m1/ff/I": HRef.from_sequence([top_i, m1, ff, leaf_i, leaf_i.pins[0]]),
    "pin in (top port)": HRef.from_sequence([top_i, top_in, top_in.pins[0]]),
}
for what, start in starts.items():
    assert start.is_valid, what
    got = net_of(start)
    assert got == expected, (
        "everything connected (ALL) starting from {}: expected the net {}, got {} - "
        "members of one net give different answers".format(what, expected, got)
    )
print("ok")
