"""C12: selection ALL returns exactly the hierarchical wires joined through instance port
boundaries, upward and downward to any depth - so every member of a net yields the same answer.

Net under test runs through two pass-through cells (cells that only contain a wire joining an
input port to an output port, no sub-instances):

    top.in --w_in-- p1(A ~t~ B) --link-- p2(A ~t~ B) --w_out-- top.out

`link` touches only instance pins.  The net is {w_in, p1/t, link, p2/t, w_out} from any member.
"""
import spydrnet as sdn
from spydrnet.util.hierarchical_reference import HRef

netlist = sdn.Netlist(name="n")
lib = netlist.create_library(name="work")

thru = lib.create_definition(name="thru")
thru_a = thru.create_port(name="A", pins=1)
thru_b = thru.create_port(name="B", pins=1)
t = thru.create_cable(name="t", wires=1)
t.wires[0].connect_pin(thru_a.pins[0])
t.wires[0].connect_pin(thru_b.pins[0])

top = lib.create_definition(name="top")
top_in = top.create_port(name="in", pins=1)
top_out = top.create_port(name="out", pins=1)
w_in = top.create_cable(name="w_in", wires=1)
link = top.create_cable(name="link", wires=1)
w_out = top.create_cable(name="w_out", wires=1)
p1 = top.create_child(name="p1", reference=thru)
p2 = top.create_child(name="p2", reference=thru)
w_in.wires[0].connect_pin(top_in.pins[0])
w_in.wires[0].connect_pin(p1.pins[thru_a.pins[0]])
link.wires[0].connect_pin(p1.pins[thru_b.pins[0]])
link.wires[0].connect_pin(p2.pins[thru_a.pins[0]])
w_out.wires[0].connect_pin(p2.pins[thru_b.pins[0]])
w_out.wires[0].connect_pin(top_out.pins[0])
top_i = sdn.Instance(name="top_i")
top_i.reference = top
netlist.top_instance = top_i

expected = ["link", "p1/t", "p2/t", "w_in", "w_out"]

starts = {
    "wire w_in": HRef.from_sequence([top_i, w_in, w_in.wires[0]]),
    "wire p1/t": HRef.from_sequence([top_i, p1, t, t.wires[0]]),
    "pin p1/B": HRef.from_sequence([top_i, p1, thru_b, thru_b.pins[0]]),
    "port p2/A": HRef.from_sequence([top_i, p2, thru_a]),
    "wire p2/t": HRef.from_sequence([top_i, p2, t, t.wires[0]]),
    "wire w_out": HRef.from_sequence([top_i, w_out, w_out.wires[0]]),
    "wire link": HRef.from_sequence([top_i, link, link.wires[0]]),
    "cable link": HRef.from_sequence([top_i, link]),
}
for what, start in starts.items():
    assert start.is_valid, what
    got = list(sdn.get_hwires(start, selection="ALL"))
    assert len(got) == len(set(got)), "duplicate hierarchical wires from " + what
    names = sorted(h.name for h in got)
    assert names == expected, (
        "everything connected (ALL) starting from {}: expected the net {}, got {} - "
        "members of one net give different answers".format(what, expected, names)
    )

# and the hierarchical wire `link` reports exactly the two sub-instance pins attached to it
hpins = sorted(h.name for h in sdn.get_hpins(starts["wire link"]))
assert hpins == ["p1/B", "p2/A"], hpins
print("ok")
