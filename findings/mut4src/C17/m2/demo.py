"""C17 demo: whatever the names (any length 1..300), the EDIF writer assigns legal identifiers
and "the exported file is always readable again and the re-read netlist shows the original names".

A name of 255 or more characters gets an identifier of exactly 255 characters, the longest the
EDIF naming rules accept.  The file written with such an identifier must be readable again.
"""
import os
import tempfile

import spydrnet as sdn

names = ["n" * 254, "L" * 255, "q" * 300, "short"]

netlist = sdn.Netlist(name="n")
lib = netlist.create_library("work")
leaf = lib.create_definition("leaf")
leaf.create_port("p", direction=sdn.IN, pins=1)
top = lib.create_definition("top")
for name in names:
    top.create_child(name, reference=leaf)
netlist.set_top_instance(top, instance_name="top")

with tempfile.TemporaryDirectory() as tmp:
    path = os.path.join(tmp, "out.edf")
    sdn.compose(netlist, path)
    for inst in top.children:
        identifier = inst["EDIF.identifier"]
        assert len(identifier) <= 255 and identifier.isalnum(), "setup: legal identifier expected"
    assert len(top.children[1]["EDIF.identifier"]) == 255 and len(top.children[2]["EDIF.identifier"]) == 255
    try:
        reread = sdn.parse(path)
    except Exception as e:  # noqa
        raise AssertionError(
            "C17 violated: the exported file is not readable again although every identifier is legal "
            "(longest identifier: 255 characters): %s" % str(e)[:120]
        ) from None
    got = sorted(c.name for c in reread.top_instance.reference.children)
    assert got == sorted(names), "C17 violated: the re-read netlist does not show the original names"
print("ok")
