"""C17 demo: every object gets a LEGAL EDIF identifier (<= 255 characters, letter or & first,
then letters, digits, _) whatever its name, and the exported file is readable again with the
original names.

The sibling names used here are of the pre-existing form x_sdn_N_ with a very long number N
(total length 262 and 300, within the 1..300 range of the property).
"""
import os
import re
import tempfile

import spydrnet as sdn

LEGAL = re.compile(r"^(?:[A-Za-z]|&[A-Za-z0-9_])[A-Za-z0-9_]*$")


def legal(identifier):
    return len(identifier) <= 255 and LEGAL.match(identifier) is not None


names = [
    "u_sdn_" + "7" * 255 + "_",  # 262 characters
    "_sdn_" + "1" * 294 + "_",  # 300 characters, nothing but the suffix
    "plain",
]

netlist = sdn.Netlist(name="n")
lib = netlist.create_library("work")
leaf = lib.create_definition("leaf")
leaf.create_port("p", direction=sdn.IN, pins=1)
top = lib.create_definition("top")
for name in names:
    top.create_child(name, reference=leaf)
netlist.set_top_instance(top, instance_name="top")

with tempfile.TemporaryDirectory() as tmp:
    path = os.path.join(tmp, "out.edf")
    sdn.compose(netlist, path)
    seen = set()
    for inst in top.children:
        identifier = inst["EDIF.identifier"]
        assert legal(identifier), (
            "C17 violated: instance named %r... (%d chars) got the identifier %r... of %d characters, "
            "which the EDIF naming rules do not accept"
            % (inst.name[:20], len(inst.name), identifier[:20], len(identifier))
        )
        assert identifier.lower() not in seen, "C17 violated: identifier %r not unique" % identifier
        seen.add(identifier.lower())
    reread = sdn.parse(path)
    got = sorted(c.name for c in reread.top_instance.reference.children)
    assert got == sorted(names), "C17 violated: the re-read netlist does not show the original names"
print("ok")
