"""C18 demo: ".conn merging the two nets" -- after `.conn a b` every pin that was joined to
net a or to net b must sit on one and the same net, and the result must be well-formed.

Here each of the two nets carries three pins (a model port pin and two instance pins) when the
.conn statement is read.
"""
import os
import tempfile

import spydrnet as sdn

TEXT = """\
.model top
.inputs a
.outputs y z
.subckt BUF I=a O=b
.cname u_buf
.subckt INV I=a O=y
.cname u_inv1
.subckt INV I=b O=z
.cname u_inv2
.subckt SINK D=b
.cname u_sink
.conn a b
.end

.model BUF
.inputs I
.outputs O
.blackbox
.end

.model INV
.inputs I
.outputs O
.blackbox
.end

.model SINK
.inputs D
.blackbox
.end
"""


def pin_label(pin):
    if isinstance(pin, sdn.OuterPin):
        return "%s.%s" % (pin.instance.name, pin.inner_pin.port.name)
    return "top.%s" % pin.port.name


with tempfile.TemporaryDirectory() as tmp:
    path = os.path.join(tmp, "conn.eblif")
    with open(path, "w") as f:
        f.write(TEXT)
    netlist = sdn.parse(path)

top = netlist.top_instance.reference
expected = {"top.a", "u_buf.I", "u_inv1.I", "u_buf.O", "u_inv2.I", "u_sink.D"}
nets = {}
for cable in top.cables:
    for wire in cable.wires:
        nets[(cable.name, wire.index())] = set(pin_label(p) for p in wire.pins)
merged = [pins for pins in nets.values() if pins & expected]
assert len(merged) == 1 and merged[0] == expected, (
    "C18 violated: .conn a b did not merge the two nets: the pins %s are spread over %r"
    % (sorted(expected), sorted(sorted(m) for m in merged))
)
# well-formed: every pin of every instance that was given an actual is on a wire of this model
for inst in top.children:
    for pin in inst.pins.values():
        if pin_label(pin) in expected:
            assert pin.wire is not None and pin.wire.cable is not None and pin.wire.cable.definition is top, (
                "C18 violated: pin %s is not joined to a net of the model after .conn" % pin_label(pin)
            )
print("ok")
