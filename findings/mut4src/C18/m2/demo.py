"""C18 demo: "writing it as EBLIF and reading it back gives the same instances, types, data and nets".

One instance carries BOTH .attr and .param lines (others carry only one kind or none).
"""
import os
import tempfile

import spydrnet as sdn

TEXT = """\
.model top
.inputs a b
.outputs y q
.subckt LUT2 I0=a I1=b O=n1
.cname u_lut
.attr keep 1
.attr loc SLICE_X0Y0
.param INIT 4'h8
.subckt FDRE D=n1 C=a Q=q
.cname u_ff
.param IS_C_INVERTED 1'b0
.gate BUF I=n1 O=y
.cname u_buf
.attr dont_touch true
.end

.model LUT2
.inputs I0 I1
.outputs O
.blackbox
.end

.model FDRE
.inputs D C
.outputs Q
.blackbox
.end

.model BUF
.inputs I
.outputs O
.blackbox
.end
"""


def snapshot(netlist):
    top = netlist.top_instance.reference
    result = {}
    for inst in top.children:
        result[inst.name] = (
            inst.reference.name,
            inst["EBLIF.type"],
            dict(inst.data.get("EBLIF.attr", {})),
            dict(inst.data.get("EBLIF.param", {})),
        )
    return result


with tempfile.TemporaryDirectory() as tmp:
    src = os.path.join(tmp, "src.eblif")
    out = os.path.join(tmp, "out.eblif")
    with open(src, "w") as f:
        f.write(TEXT)
    first = sdn.parse(src)
    before = snapshot(first)
    assert before["u_lut"][2] == {"keep": "1", "loc": "SLICE_X0Y0"} and before["u_lut"][3] == {"INIT": "4'h8"}, (
        "C18 violated: .attr/.param data not attached on reading: %r" % (before["u_lut"],)
    )
    sdn.compose(first, out)
    second = sdn.parse(out)
    after = snapshot(second)
    for name in sorted(before):
        assert name in after, "C18 violated: instance %s lost in write-then-read" % name
        assert before[name] == after[name], (
            "C18 violated: write-then-read changed instance %s (definition, type, attr, param): %r -> %r"
            % (name, before[name], after[name])
        )
print("ok")
