"""C11: asking for the occurrences of a given element returns exactly the paths that end in it.

The element here is an instance (and the pins of that instance) whose reference is a definition
that has been taken out of its library - a legal edit that breaks no path leading to the instance.
"""
import spydrnet as sdn
from spydrnet.util.hierarchical_reference import HRef

netlist = sdn.Netlist(name="n")
lib = netlist.create_library(name="work")
prims = netlist.create_library(name="prims")

leaf = prims.create_definition(name="LEAF")
leaf_port = leaf.create_port(name="I")
leaf_pin = leaf_port.create_pin()

mid = lib.create_definition(name="mid")
u = mid.create_child(name="u", reference=leaf)

top = lib.create_definition(name="top")
m1 = top.create_child(name="m1", reference=mid)
m2 = top.create_child(name="m2", reference=mid)
netlist.top_instance = sdn.Instance(name="top_i")
netlist.top_instance.reference = top


def names(hrefs):
    return sorted(h.name for h in hrefs)


expected = ["m1/u", "m2/u"]

# sanity: before the edit
got = list(sdn.get_hinstances(u))
assert names(got) == expected, "before the edit: occurrences of u are {}".format(names(got))

# the edit: LEAF leaves its library (u keeps referring to it, every path down to u is intact)
prims.remove_definition(leaf)
assert u.reference is leaf and leaf.library is None

# every path is still there when enumerating from the netlist ...
enumerated = [h for h in sdn.get_hinstances(netlist, recursive=True) if h.item is u]
assert names(enumerated) == expected, "enumeration lost u: {}".format(names(enumerated))
assert all(h.is_valid for h in enumerated), "paths down to u must still be reported valid"

# ... so asking for the occurrences of u must give exactly those paths, as the same objects
got = list(sdn.get_hinstances(u))
assert names(got) == expected, (
    "occurrences of instance u should be the paths {} that end in it, got {}".format(
        expected, names(got)
    )
)
assert len(got) == len(set(got)) == 2, "duplicates among the occurrences of u"
assert set(map(id, got)) == set(map(id, enumerated)), "not the same reference objects"

got = list(HRef.get_all_hrefs_of_item(u))
assert names(got) == expected, "HRef.get_all_hrefs_of_item(u) gave {}".format(names(got))

# the same through an outer pin of u (occurrences of the pin = one per path of u)
outer_pin = u.pins[leaf_pin]
got = list(sdn.get_hpins(outer_pin))
assert names(got) == ["m1/u/I", "m2/u/I"], (
    "occurrences of the pin of u should be m1/u/I and m2/u/I, got {}".format(names(got))
)
print("ok")
