"""C11: the hierarchical queries return exactly one reference per occurrence - no omissions or
duplicates - whatever the query root is; here the root is a collection that mixes a netlist (or a
reference to an instance) with elements inside it (a port, a cable, a pin), and the query is
get_hports.
"""
import spydrnet as sdn
from spydrnet.util.hierarchical_reference import HRef

netlist = sdn.Netlist(name="n")
lib = netlist.create_library(name="work")

leaf = lib.create_definition(name="leaf")
leaf_i = leaf.create_port(name="I", pins=2)

mid = lib.create_definition(name="mid")
mid_p = mid.create_port(name="P", pins=2)
mid_c = mid.create_cable(name="P", wires=2)
u = mid.create_child(name="u", reference=leaf)
for k in range(2):
    mid_c.wires[k].connect_pin(mid_p.pins[k])
    mid_c.wires[k].connect_pin(u.pins[leaf_i.pins[k]])

top = lib.create_definition(name="top")
top_a = top.create_port(name="A")
top_a.create_pin()
m1 = top.create_child(name="m1", reference=mid)
m2 = top.create_child(name="m2", reference=mid)
top_i = sdn.Instance(name="top_i")
top_i.reference = top
netlist.top_instance = top_i


def check(root, recursive, expected, what):
    got = list(sdn.get_hports(root, recursive=recursive))
    names = sorted(h.name for h in got)
    assert all(h.is_valid for h in got), what
    assert len(got) == len(set(map(id, got))), (
        "{}: a port occurrence is returned twice: {}".format(what, names)
    )
    assert names == sorted(expected), "{}: expected {} got {}".format(what, sorted(expected), names)


all_ports = ["A", "m1/P", "m2/P", "m1/u/I", "m2/u/I"]
# single roots
check(netlist, True, all_ports, "netlist, recursive")
check(netlist, False, ["A"], "netlist")
check(top_a, False, ["A"], "port A")
check(mid_p, False, ["m1/P", "m2/P"], "port P of mid")

# roots that are collections of several kinds of object
h_m1 = HRef.from_sequence([top_i, m1])
check([netlist, top_a], False, ["A"], "[netlist, port A]")
check([top_a, netlist], False, ["A"], "[port A, netlist]")
check([netlist, mid_p], True, all_ports, "[netlist, port P of mid], recursive")
check([h_m1, mid_c], False, ["m1/P", "m2/P", "m1/u/I", "m2/u/I"], "[href m1, cable P of mid]")
check([h_m1, mid_p.pins[0]], True, ["m1/P", "m2/P", "m1/u/I"], "[href m1, pin P[0]], recursive")
print("ok")
