"""C08 demo: "every non-leaf instance reachable from the top instance is the only instance of its
definition" for a sharing pattern with "instances outside the top hierarchy".

ADD is instanced once below the top (top/a0) and once by `spare`, a definition that sits in the
library but is not part of the design.  MUL is instanced twice below the top and once by `spare`.
"""
import sys

import spydrnet as sdn
from spydrnet.uniquify import uniquify


def build():
    netlist = sdn.Netlist(name="design")
    prims = netlist.create_library(name="prims")
    lut = prims.create_definition(name="LUT")
    lut.create_port(name="I", pins=1, direction=sdn.IN)
    lut.create_port(name="O", pins=1, direction=sdn.OUT)

    work = netlist.create_library(name="work")

    def cell(name):
        d = work.create_definition(name=name)
        a = d.create_port(name="A", pins=1, direction=sdn.IN)
        y = d.create_port(name="Y", pins=1, direction=sdn.OUT)
        u = d.create_child(name="u", reference=lut)
        ca = d.create_cable(name="A", wires=1)
        cy = d.create_cable(name="Y", wires=1)
        ca.wires[0].connect_pin(a.pins[0])
        ca.wires[0].connect_pin(u.pins[lut.ports[0].pins[0]])
        cy.wires[0].connect_pin(u.pins[lut.ports[1].pins[0]])
        cy.wires[0].connect_pin(y.pins[0])
        return d

    add = cell("ADD")
    mul = cell("MUL")

    spare = work.create_definition(name="spare")  # never instanced
    spare.create_child(name="sa", reference=add)
    spare.create_child(name="sm", reference=mul)

    top = work.create_definition(name="top")
    top.create_child(name="a0", reference=add)
    top.create_child(name="m0", reference=mul)
    top.create_child(name="m1", reference=mul)

    netlist.top_instance = sdn.Instance(name="top_i")
    netlist.top_instance.reference = top
    return netlist


def reachable(netlist):
    stack = [(c, "top_i/" + c.name) for c in netlist.top_instance.reference.children]
    while stack:
        instance, path = stack.pop()
        yield instance, path
        stack.extend((c, path + "/" + c.name) for c in instance.reference.children)


def main():
    netlist = build()
    before = sorted((p, i.reference.name.split("_sdn_unique_")[0]) for i, p in reachable(netlist))
    uniquify(netlist)
    after = sorted((p, i.reference.name.split("_sdn_unique_")[0]) for i, p in reachable(netlist))
    assert before == after, "the elaborated design changed"
    for instance, path in reachable(netlist):
        if instance.reference.is_leaf():
            continue
        others = [i.name for i in instance.reference.references if i is not instance]
        assert not others, (
            "after uniquify the non-leaf instance %s is not the only instance of its definition '%s': "
            "it is shared with %s" % (path, instance.reference.name, others)
        )
    print("ok: every non-leaf instance below the top is the only instance of its definition")


if __name__ == "__main__":
    try:
        main()
    except AssertionError as e:
        print("PROPERTY VIOLATED:", e)
        sys.exit(1)
