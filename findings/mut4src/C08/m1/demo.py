"""C08 demo: "After uniquify, every non-leaf instance reachable from the top instance is the only
instance of its definition" - with "pass-through cells" in the sharing pattern.

`top` holds two instances of FEED, a cell that only wires its input port to its output port (a
cable, no instance inside).  spydrnet's own leaf test (Definition.is_leaf / Instance.is_leaf) says
such a cell is not a leaf, so uniquify has to give each instance its own copy.
"""
import sys

import spydrnet as sdn
from spydrnet.uniquify import uniquify


def build():
    netlist = sdn.Netlist(name="design")
    prims = netlist.create_library(name="prims")
    buf = prims.create_definition(name="BUF")
    buf_i = buf.create_port(name="I", pins=1, direction=sdn.IN)
    buf_o = buf.create_port(name="O", pins=1, direction=sdn.OUT)

    work = netlist.create_library(name="work")
    feed = work.create_definition(name="FEED")
    f_a = feed.create_port(name="A", pins=1, direction=sdn.IN)
    f_y = feed.create_port(name="Y", pins=1, direction=sdn.OUT)
    through = feed.create_cable(name="through", wires=1)
    through.wires[0].connect_pin(f_a.pins[0])
    through.wires[0].connect_pin(f_y.pins[0])

    top = work.create_definition(name="top")
    t_in = top.create_port(name="in", pins=1, direction=sdn.IN)
    t_out = top.create_port(name="out", pins=1, direction=sdn.OUT)
    f0 = top.create_child(name="f0", reference=feed)
    f1 = top.create_child(name="f1", reference=feed)
    b0 = top.create_child(name="b0", reference=buf)
    n_in = top.create_cable(name="n_in", wires=1)
    n_mid = top.create_cable(name="n_mid", wires=1)
    n_buf = top.create_cable(name="n_buf", wires=1)
    n_out = top.create_cable(name="n_out", wires=1)
    n_in.wires[0].connect_pin(t_in.pins[0])
    n_in.wires[0].connect_pin(f0.pins[f_a.pins[0]])
    n_mid.wires[0].connect_pin(f0.pins[f_y.pins[0]])
    n_mid.wires[0].connect_pin(b0.pins[buf_i.pins[0]])
    n_buf.wires[0].connect_pin(b0.pins[buf_o.pins[0]])
    n_buf.wires[0].connect_pin(f1.pins[f_a.pins[0]])
    n_out.wires[0].connect_pin(f1.pins[f_y.pins[0]])
    n_out.wires[0].connect_pin(t_out.pins[0])

    netlist.top_instance = sdn.Instance(name="top_i")
    netlist.top_instance.reference = top
    return netlist


def reachable(netlist):
    stack = list(netlist.top_instance.reference.children)
    while stack:
        instance = stack.pop()
        yield instance
        stack.extend(instance.reference.children)


def check_unique(netlist):
    for instance in reachable(netlist):
        if instance.is_leaf():
            continue
        others = [i.name for i in instance.reference.references if i is not instance]
        assert not others, (
            "non-leaf instance '%s' is not the only instance of its definition '%s' (also instanced by %s)"
            % (instance.name, instance.reference.name, others)
        )


def main():
    netlist = build()
    uniquify(netlist)
    check_unique(netlist)
    work = next(netlist.get_libraries("work"))
    names = [d.name for d in work.definitions]
    assert len(names) == len(set(names)) == 3, "definitions of work: %s" % names
    uniquify(netlist)
    assert [d.name for d in work.definitions] == names, "a second uniquify changed the netlist"
    print("ok: every non-leaf instance is unique:", names)


if __name__ == "__main__":
    try:
        main()
    except AssertionError as e:
        print("PROPERTY VIOLATED:", e)
        sys.exit(1)
