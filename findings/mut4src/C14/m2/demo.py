"""C14: a refused edit changes nothing - here re-pointing an instance to another definition is
refused because the shapes mismatch (mismatching references): same number of ports, the first
ports agree, a later port has a different width.  After the refusal: same reference sets of every
definition, same connections, same outer pins.
"""
import spydrnet as sdn

netlist = sdn.Netlist(name="n")
lib = netlist.create_library(name="work")


def cell(name, widths):
    d = lib.create_definition(name=name)
    for k, w in enumerate(widths):
        d.create_port(name="P%d" % k, pins=w)
    return d


old = cell("old", [1, 2])
same = cell("same", [1, 2])
fewer = cell("fewer", [1])
wider = cell("wider", [1, 3])  # first port agrees, the second does not

top = lib.create_definition(name="top")
u = top.create_child(name="u", reference=old)
v = top.create_child(name="v", reference=old)
cable = top.create_cable(name="c", wires=3)
for wire, inner in zip(cable.wires, [p for port in old.ports for p in port.pins]):
    wire.connect_pin(u.pins[inner])
netlist.top_instance = sdn.Instance(name="top_i")
netlist.top_instance.reference = top


def snapshot():
    return {
        "reference of u": u.reference.name,
        "reference sets": {
            d.name: sorted(i.name for i in d.references) for d in lib.definitions
        },
        "outer pins of u": [
            (id(inner), inner.port.definition.name, inner.port.name, id(outer), id(outer.wire))
            for inner, outer in ((op.inner_pin, op) for op in u.pins)
        ],
        "connections": [
            [(type(p).__name__, id(p), id(p.wire)) for p in w.pins] for w in cable.wires
        ],
        "lookup": [i.name for i in sdn.get_instances(old, selection="OUTSIDE")],
    }


def refused(what, target):
    before = snapshot()
    try:
        u.reference = target
    except AssertionError:
        pass
    else:
        raise AssertionError(what + ": expected the shape mismatch to be refused")
    after = snapshot()
    for key in before:
        assert after[key] == before[key], (
            "{}: refused, but '{}' changed from {} to {}".format(
                what, key, before[key], after[key]
            )
        )


refused("u.reference = fewer (port count differs)", fewer)
refused("u.reference = wider (width of second port differs)", wider)
refused("u.reference = wider, again", wider)

# and a legal re-pointing still works afterwards, with all connections kept
u.reference = same
assert sorted(i.name for i in old.references) == ["v"]
assert sorted(i.name for i in same.references) == ["u"]
assert [len(w.pins) for w in cable.wires] == [1, 1, 1]
assert [p.inner_pin.port.definition for w in cable.wires for p in w.pins] == [same] * 3
print("ok")
