"""C14: a refused edit changes nothing - here an add refused by the naming rules (duplicate name)
under the EDIF naming policy, where every element carries two names (.NAME and EDIF.identifier).
After the refusal the netlist must give the same answers to name lookups as before, and nothing of
a half-built element (compound constructor) may remain registered anywhere.
"""
import spydrnet as sdn

netlist = sdn.Netlist(name="n")
netlist[".NS"] = "EDIF"
lib = netlist.create_library(name="work", properties={"EDIF.identifier": "work"})
top = lib.create_definition(name="top", properties={"EDIF.identifier": "top"})
top.create_child(name="u[0]", properties={"EDIF.identifier": "u_0_"})
top.create_port(name="p[0]", properties={"EDIF.identifier": "p_0_"})
top.create_cable(name="c[0]", properties={"EDIF.identifier": "c_0_"})


def snapshot():
    return {
        "libraries": [(l.name, l["EDIF.identifier"]) for l in netlist.libraries],
        "definitions": [(d.name, d["EDIF.identifier"]) for d in lib.definitions],
        "children": [(c.name, c["EDIF.identifier"]) for c in top.children],
        "ports": [(c.name, c["EDIF.identifier"]) for c in top.ports],
        "cables": [(c.name, c["EDIF.identifier"]) for c in top.cables],
    }


def lookups():
    idents = ["work", "top", "u_0_", "p_0_", "c_0_", "fresh", "FRESH", "fresh2"]
    out = {}
    for ident in idents:
        out[ident] = (
            [x.name for x in netlist.get_libraries(ident, key="EDIF.identifier")],
            [x.name for x in lib.get_definitions(ident, key="EDIF.identifier")],
            [x.name for x in top.get_instances(ident, key="EDIF.identifier")],
            [x.name for x in top.get_ports(ident, key="EDIF.identifier")],
            [x.name for x in top.get_cables(ident, key="EDIF.identifier")],
        )
    return out


def refused(what, call):
    before, answers = snapshot(), lookups()
    try:
        call()
    except ValueError:
        pass
    else:
        raise AssertionError(what + ": expected the naming rules to refuse it")
    assert snapshot() == before, what + ": containment/names changed by a refused edit"
    after = lookups()
    for ident in answers:
        assert after[ident] == answers[ident], (
            "{}: the refused edit changed the answer to the name lookup of identifier {!r} "
            "from {} to {}".format(what, ident, answers[ident], after[ident])
        )


# 1. add of an existing free element: fresh identifier, but its .NAME collides
stray = sdn.Instance(name="u[0]", properties={"EDIF.identifier": "fresh"})
refused("add_child(duplicate .NAME)", lambda: top.add_child(stray))
assert stray.parent is None

# 2. compound constructors: create-and-add refused because of the name
refused(
    "create_definition(duplicate .NAME)",
    lambda: lib.create_definition(name="top", properties={"EDIF.identifier": "fresh"}),
)
refused(
    "create_port(duplicate .NAME)",
    lambda: top.create_port(name="p[0]", properties={"EDIF.identifier": "fresh"}),
)
refused(
    "create_cable(duplicate .NAME)",
    lambda: top.create_cable(name="c[0]", properties={"EDIF.identifier": "fresh"}),
)
refused(
    "create_library(duplicate .NAME)",
    lambda: netlist.create_library(name="work", properties={"EDIF.identifier": "fresh2"}),
)

# 3. nothing remains registered: the identifiers of the refused elements are still free
top.create_child(name="u[1]", properties={"EDIF.identifier": "fresh"})
lib.create_definition(name="leaf", properties={"EDIF.identifier": "fresh"})
top.create_port(name="p[1]", properties={"EDIF.identifier": "fresh"})
top.create_cable(name="c[1]", properties={"EDIF.identifier": "FRESH"})
netlist.create_library(name="prims", properties={"EDIF.identifier": "fresh2"})
print("ok")
