"""C04 demo: (* *) attributes of an instance survive Verilog write-then-read, also when
the first attribute of the list has no value: (* ASYNC_REG, KEEP = "true" *)."""
import os
import sys
import tempfile
import spydrnet as sdn


def bit(w):
    return None if w is None else (w.cable.name, w.cable.wires.index(w) + w.cable.lower_index)


def describe(netlist):
    """modules, port directions/widths/base indices, wires, instances (module, parameters,
    attributes), bit-level connections, assign statements (per width, joining which bits)"""
    out = {"top": netlist.top_instance.reference.name}
    for lib in netlist.libraries:
        if lib.name == "SDN_VERILOG_ASSIGNMENT":
            continue
        for d in lib.definitions:
            ports = [(p.name, p.direction.name, len(p.pins), p.lower_index) for p in d.ports]
            wires = sorted((c.name, len(c.wires), c.lower_index) for c in d.cables)
            insts, assigns = [], []
            for i in d.children:
                conns = tuple(
                    (port.name, k, bit(i.pins[ip].wire))
                    for port in i.reference.ports for k, ip in enumerate(port.pins))
                if i.reference.library.name == "SDN_VERILOG_ASSIGNMENT":
                    assigns.append(conns)
                else:
                    insts.append((
                        i.name, i.reference.name,
                        sorted((i.get("VERILOG.Parameters") or {}).items()),
                        sorted((i.get("VERILOG.InlineConstraints") or {}).items(), key=repr),
                        conns))
            inner = [(p.name, k, bit(ip.wire)) for p in d.ports for k, ip in enumerate(p.pins)]
            out[d.name] = {
                "ports": ports, "wires": wires, "instances": sorted(insts, key=repr),
                "assigns": sorted(assigns, key=repr), "port bits": inner,
                "attributes": sorted((d.get("VERILOG.InlineConstraints") or {}).items(), key=repr),
            }
    return out


def write_then_read(netlist):
    with tempfile.TemporaryDirectory() as tmp:
        path = os.path.join(tmp, "out.v")
        sdn.compose(netlist, path)
        text = open(path).read()
        try:
            return sdn.parse(path), text
        except BaseException as e:
            raise AssertionError(
                "C04 violated: the Verilog text written is not accepted by the reader: %r\n%s" % (e, text)
            ) from None


def parse_text(source):
    with tempfile.TemporaryDirectory() as tmp:
        path = os.path.join(tmp, "in.v")
        with open(path, "w") as f:
            f.write(source)
        return sdn.parse(path)


def check_roundtrip(netlist, what):
    before = describe(netlist)
    back, text = write_then_read(netlist)
    after = describe(back)
    problems = []
    for mod in sorted(set(before) | set(after)):
        if before.get(mod) == after.get(mod):
            continue
        if not isinstance(before.get(mod), dict) or not isinstance(after.get(mod), dict):
            problems.append("%s: %r -> %r" % (mod, before.get(mod), after.get(mod)))
            continue
        for key in before[mod]:
            if before[mod][key] != after[mod][key]:
                problems.append("module %s, %s:\n    before write: %r\n    after read  : %r"
                                % (mod, key, before[mod][key], after[mod][key]))
    assert not problems, "C04 violated (%s): write-then-read changed the netlist\n%s\n--- text written ---\n%s" % (
        what, "\n".join(problems), text)

SOURCE = r"""
`celldefine
module FDRE (Q, C, D);
  output Q;
  input C;
  input D;
endmodule
`endcelldefine

module top (clk, d, q);
  input clk;
  input [1:0] d;
  output [1:0] q;
  wire clk;
  wire [1:0] d;
  wire [1:0] q;

  (* ASYNC_REG, KEEP = "true", src = "top.v:12" *)
  FDRE r0 (.Q(q[0]), .C(clk), .D(d[0]));
  (* KEEP = "true", ASYNC_REG *)
  FDRE r1 (.Q(q[1]), .C(clk), .D(d[1]));
endmodule
"""

netlist = parse_text(SOURCE)
attrs = next(netlist.get_instances("r0"))["VERILOG.InlineConstraints"]
assert list(attrs.items()) == [("ASYNC_REG", None), ("KEEP", '"true"'), ("src", '"top.v:12"')], attrs
check_roundtrip(netlist, "instance carrying a value-less (* *) attribute followed by valued ones")
check_roundtrip(netlist.clone(), "same netlist after clone()")
print("OK: Verilog write-then-read returned the same netlist")
sys.exit(0)
