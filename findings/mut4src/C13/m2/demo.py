"""C13: for every query function the result for an exact string equals the unfiltered result
restricted to the elements whose value under the chosen key (here EDIF.identifier, on a netlist
built under the DEFAULT naming policy) equals it, and the result does not depend on whether the
accelerated name lookup of the namespace plugin is available.
"""
import spydrnet as sdn

netlist = sdn.Netlist(name="n")
assert netlist[".NS"] == "DEFAULT"
lib = netlist.create_library(name="work")
lib["EDIF.identifier"] = "work_lib"
leaf = lib.create_definition(name="LEAF")
leaf["EDIF.identifier"] = "LEAF_id"
top = lib.create_definition(name="top")
top["EDIF.identifier"] = "top_id"
port = top.create_port(name="p[0]")
port["EDIF.identifier"] = "p_0_"
port.create_pin()
cable = top.create_cable(name="c[0]")
cable["EDIF.identifier"] = "c_0_"
cable.create_wire()
inst = top.create_child(name="u$1", reference=leaf)
inst["EDIF.identifier"] = "u_1"
other = top.create_child(name="u$2", reference=leaf)
other["EDIF.identifier"] = "v_2"
netlist.top_instance = sdn.Instance(name="top_i")
netlist.top_instance.reference = top

queries = [
    ("get_libraries", sdn.get_libraries, netlist, "work_lib", lib),
    ("get_definitions", sdn.get_definitions, lib, "top_id", top),
    ("get_definitions", sdn.get_definitions, netlist, "LEAF_id", leaf),
    ("get_ports", sdn.get_ports, top, "p_0_", port),
    ("get_cables", sdn.get_cables, top, "c_0_", cable),
    ("get_instances", sdn.get_instances, top, "u_1", inst),
    ("get_instances", sdn.get_instances, netlist, "v_2", other),
]


def run_all(label):
    results = []
    for fname, func, root, pattern, element in queries:
        unfiltered = list(func(root, key="EDIF.identifier"))
        want = [x for x in unfiltered if x.get("EDIF.identifier") == pattern]
        assert want == [element], (fname, pattern, want)
        got = list(func(root, pattern, key="EDIF.identifier"))
        assert got == want, (
            "{} [{}]: exact pattern {!r} under key EDIF.identifier should return the unfiltered "
            "result restricted to the elements whose identifier equals it ({}), got {}".format(
                fname, label, pattern, [x.name for x in want], [x.name for x in got]
            )
        )
        # the wildcard and regex spellings of the same question agree
        assert list(func(root, pattern[:-1] + "?", key="EDIF.identifier")) == want
        assert list(func(root, pattern, key="EDIF.identifier", is_re=True)) == want
        # and the default key is still answered
        assert list(func(root, element.name)) == [element], (fname, element.name)
        results.append([id(x) for x in got])
    return results


with_lookup = run_all("fast lookup registered")
sdn.namespace_manager.deregister_all_listeners()
try:
    without_lookup = run_all("fast lookup not registered")
finally:
    sdn.namespace_manager.register_all_listeners()
assert with_lookup == without_lookup, "result depends on the availability of the fast lookup"
print("ok")
