"""C13: several patterns give the union, no element is returned twice and the result does not
depend on the order of the patterns - for every query function, here get_netlists.
"""
import itertools
import re
import spydrnet as sdn


def build(name):
    netlist = sdn.Netlist(name=name)
    lib = netlist.create_library(name="work")
    top = lib.create_definition(name="top")
    top.create_port(name="p").create_pin()
    cable = top.create_cable(name="c")
    cable.create_wire()
    netlist.top_instance = sdn.Instance(name="top_i")
    netlist.top_instance.reference = top
    return netlist


alpha, beta, gamma = build("alpha"), build("beta"), build("Gamma")
everything = [alpha, beta, gamma]
# roots of different kinds, all leading to the three netlists
roots = {
    "netlists": [alpha, beta, gamma],
    "libraries+definitions": [alpha.libraries[0], beta.libraries[0].definitions[0], gamma],
    "instances+cables": [alpha.top_instance, beta.libraries[0].definitions[0].cables[0], gamma],
}


def expected(patterns, is_case=True, is_re=False):
    """the unfiltered result restricted to the netlists whose name matches any pattern"""
    out = []
    for n in everything:
        for p in patterns:
            rx = p if is_re else "".join(
                ".*" if c == "*" else "." if c == "?" else re.escape(c) for c in p
            )
            if re.fullmatch(rx, n.name, flags=0 if is_case else re.IGNORECASE):
                out.append(n.name)
                break
    return sorted(out)


cases = [
    (["alpha"], {}),
    (["alpha", "alpha"], {}),
    (["alpha", "beta"], {}),
    (["a*", "*a"], {}),
    (["gamma", "ALPHA"], {"is_case": False}),
    (["alpha", "*"], {}),
    (["alpha", "a*"], {}),
    (["alpha", "bet?", "Gamma"], {}),
    (["alpha", "gam.*"], {"is_case": False, "is_re": True}),
]
for root_name, root in roots.items():
    unfiltered = sorted(n.name for n in sdn.get_netlists(list(root)))
    assert unfiltered == ["Gamma", "alpha", "beta"], unfiltered
    for patterns, options in cases:
        want = expected(patterns, **options)
        for ordering in itertools.permutations(patterns):
            got = sorted(n.name for n in sdn.get_netlists(list(root), list(ordering), **options))
            assert len(got) == len(set(got)), (
                "get_netlists({}, patterns={}, {}): a netlist is returned twice: {}".format(
                    root_name, list(ordering), options, got
                )
            )
            assert got == want, (
                "get_netlists({}, patterns={}, {}): expected the union {}, got {}".format(
                    root_name, list(ordering), options, want, got
                )
            )
# the filter callback is applied on top
got = [n.name for n in sdn.get_netlists(everything, ["alpha", "*"], filter=lambda n: n is not beta)]
assert sorted(got) == ["Gamma", "alpha"], got
print("ok")
