"""C09 demo: "the netlist stays well-formed" after flattening, for nets that "stop at an unconnected
port" ("ports unconnected inside or outside").

cell MID:  port A  is driven from outside (top net n_a) but connects to nothing inside,
           port Y  is driven inside by the leaf `drv` but left open at the instance `mid`,
           port P -> leaf `use` is connected on both sides (the ordinary case).
After flattening every pin on a wire of the top definition has to be a pin of the top definition:
an outer pin of one of its children or an inner pin of one of its own ports.
"""
import sys

import spydrnet as sdn
from spydrnet.flatten import flatten
from spydrnet.uniquify import uniquify


def build():
    netlist = sdn.Netlist(name="design")
    lib = netlist.create_library(name="work")
    buf = lib.create_definition(name="BUF")
    buf_i = buf.create_port(name="I", pins=1, direction=sdn.IN)
    buf_o = buf.create_port(name="O", pins=1, direction=sdn.OUT)

    mid = lib.create_definition(name="MID")
    m_a = mid.create_port(name="A", pins=1, direction=sdn.IN)
    m_p = mid.create_port(name="P", pins=1, direction=sdn.IN)
    m_y = mid.create_port(name="Y", pins=1, direction=sdn.OUT)
    drv = mid.create_child(name="drv", reference=buf)
    use = mid.create_child(name="use", reference=buf)
    y_net = mid.create_cable(name="y_net", wires=1)
    y_net.wires[0].connect_pin(drv.pins[buf_o.pins[0]])
    y_net.wires[0].connect_pin(m_y.pins[0])
    p_net = mid.create_cable(name="p_net", wires=1)
    p_net.wires[0].connect_pin(m_p.pins[0])
    p_net.wires[0].connect_pin(use.pins[buf_i.pins[0]])

    top = lib.create_definition(name="top")
    t_in = top.create_port(name="in", pins=1, direction=sdn.IN)
    src = top.create_child(name="src", reference=buf)
    m = top.create_child(name="mid", reference=mid)
    n_a = top.create_cable(name="n_a", wires=1)
    n_a.wires[0].connect_pin(src.pins[buf_o.pins[0]])
    n_a.wires[0].connect_pin(m.pins[m_a.pins[0]])  # mid.A: open inside
    n_p = top.create_cable(name="n_p", wires=1)
    n_p.wires[0].connect_pin(t_in.pins[0])
    n_p.wires[0].connect_pin(m.pins[m_p.pins[0]])
    # mid.Y is left open outside

    netlist.top_instance = sdn.Instance(name="top_i")
    netlist.top_instance.reference = top
    return netlist


def describe(pin):
    if isinstance(pin, sdn.OuterPin):
        return "outer pin %s.%s" % (pin.instance.name, pin.inner_pin.port.name)
    return "inner pin %s.%s" % (pin.port.definition.name, pin.port.name)


def main():
    netlist = build()
    uniquify(netlist)
    flatten(netlist)
    top = netlist.top_instance.reference
    names = sorted(c.name for c in top.children)
    assert names == ["mid/drv", "mid/use", "src"], "leaf instances after flatten: %s" % names
    children = set(top.children)
    for cable in top.cables:
        assert cable.definition is top
        for wire in cable.wires:
            for pin in wire.pins:
                assert pin.wire is wire
                if isinstance(pin, sdn.OuterPin):
                    ok = pin.instance in children and pin.instance.pins[pin.inner_pin] is pin
                else:
                    ok = pin.port is not None and pin.port.definition is top
                assert ok, (
                    "not well-formed: wire of top level cable '%s' is connected to %s, which is not a pin of the "
                    "flattened top definition" % (cable.name, describe(pin))
                )
    print("ok: the flattened top definition is well-formed")


if __name__ == "__main__":
    try:
        main()
    except AssertionError as e:
        print("PROPERTY VIOLATED:", e)
        sys.exit(1)
