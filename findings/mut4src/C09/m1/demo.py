"""C09 demo: "Two endpoints ... are electrically connected after flattening if and only if they were
before, including nets that ... feed through a cell from one port to another" ("inner nets tied to
several ports").

top:   src.O --n_a--> mid.A        mid.Y --n_y--> dst.I   and   mid.Z --n_z--> top port `out`
mid:   one inner net joins port A, port Y, port Z and the input of the leaf `tap`.
So src.O, dst.I, mid/tap.I and the top level port bit `out` are one electrical net.
"""
import sys

import spydrnet as sdn
from spydrnet.flatten import flatten
from spydrnet.uniquify import uniquify


def build():
    netlist = sdn.Netlist(name="design")
    lib = netlist.create_library(name="work")
    buf = lib.create_definition(name="BUF")
    buf_i = buf.create_port(name="I", pins=1, direction=sdn.IN)
    buf_o = buf.create_port(name="O", pins=1, direction=sdn.OUT)

    mid = lib.create_definition(name="MID")
    m_a = mid.create_port(name="A", pins=1, direction=sdn.IN)
    m_y = mid.create_port(name="Y", pins=1, direction=sdn.OUT)
    m_z = mid.create_port(name="Z", pins=1, direction=sdn.OUT)
    tap = mid.create_child(name="tap", reference=buf)
    inner = mid.create_cable(name="inner", wires=1)
    for pin in (m_a.pins[0], m_y.pins[0], m_z.pins[0], tap.pins[buf_i.pins[0]]):
        inner.wires[0].connect_pin(pin)

    top = lib.create_definition(name="top")
    t_out = top.create_port(name="out", pins=1, direction=sdn.OUT)
    src = top.create_child(name="src", reference=buf)
    dst = top.create_child(name="dst", reference=buf)
    m = top.create_child(name="mid", reference=mid)
    n_a = top.create_cable(name="n_a", wires=1)
    n_y = top.create_cable(name="n_y", wires=1)
    n_z = top.create_cable(name="n_z", wires=1)
    n_a.wires[0].connect_pin(src.pins[buf_o.pins[0]])
    n_a.wires[0].connect_pin(m.pins[m_a.pins[0]])
    n_y.wires[0].connect_pin(m.pins[m_y.pins[0]])
    n_y.wires[0].connect_pin(dst.pins[buf_i.pins[0]])
    n_z.wires[0].connect_pin(m.pins[m_z.pins[0]])
    n_z.wires[0].connect_pin(t_out.pins[0])

    netlist.top_instance = sdn.Instance(name="top_i")
    netlist.top_instance.reference = top
    return netlist


def nets_of_flat_top(top):
    """endpoint name -> wire, for leaf pins and top level port bits"""
    where = {}
    for cable in top.cables:
        for wire in cable.wires:
            for pin in wire.pins:
                if isinstance(pin, sdn.OuterPin):
                    key = "%s.%s[%d]" % (pin.instance.name, pin.inner_pin.port.name, pin.inner_pin.port.pins.index(pin.inner_pin))
                else:
                    key = "port %s[%d]" % (pin.port.name, pin.port.pins.index(pin))
                where[key] = wire
    return where


def main():
    netlist = build()
    uniquify(netlist)
    flatten(netlist)
    top = netlist.top_instance.reference
    names = sorted(c.name for c in top.children)
    assert names == ["dst", "mid/tap", "src"], "leaf instances after flatten: %s" % names
    assert all(c.reference.is_leaf() for c in top.children)
    where = nets_of_flat_top(top)
    group = ["src.O[0]", "dst.I[0]", "mid/tap.I[0]", "port out[0]"]
    for key in group:
        assert key in where, "endpoint %s is not connected to any wire after flattening" % key
    for key in group[1:]:
        assert where[key] is where[group[0]], (
            "%s and %s were one net before flattening (joined inside cell `mid`) but are on different nets after"
            % (group[0], key)
        )
    print("ok: the net that feeds through `mid` is still one net:", group)


if __name__ == "__main__":
    try:
        main()
    except AssertionError as e:
        print("PROPERTY VIOLATED:", e)
        sys.exit(1)
