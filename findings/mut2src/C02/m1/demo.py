"""C02 demo (m1): instances must mirror their definition also after a REFUSED bulk port removal.

Property clause: "At all times an instance that references a definition ... carries exactly one
outer pin for every inner pin the definition currently has (each outer pin naming that instance
and that inner pin)" -- at every prefix of any sequence of definition/port edits.
"""
import sys
import spydrnet as sdn


def check_mirror(definition, label):
    inner = [pin for port in definition.ports for pin in port.pins]
    for inst in definition.references:
        assert inst.reference is definition
        outer = list(inst.pins)
        assert len(outer) == len(inner), (
            "%s: definition '%s' currently has %d inner pins but instance '%s' carries %d outer pins"
            % (label, definition.name, len(inner), inst.name, len(outer))
        )
        for ip in inner:
            assert ip in inst.pins, "%s: instance '%s' has no outer pin for an inner pin of port '%s'" % (
                label, inst.name, ip.port.name)
            op = inst.pins[ip]
            assert op.instance is inst and op.inner_pin is ip, label + ": outer pin names wrong instance/inner pin"


def trial(k):
    netlist = sdn.Netlist("n%d" % k)
    lib = netlist.create_library("work")
    leaf = lib.create_definition("leaf")
    ports = [leaf.create_port("p%d" % i, pins=1 + i % 2) for i in range(5)]
    other = lib.create_definition("other")
    foreign = other.create_port("x", pins=1)

    top = lib.create_definition("top")
    u0 = top.create_child("u0", reference=leaf)
    u1 = top.create_child("u1", reference=leaf)
    netlist.top_instance = top
    cable = top.create_cable("c", wires=1)
    w = cable.wires[0]
    w.connect_pin(u0.pins[ports[0].pins[0]])
    w.connect_pin(u1.pins[ports[1].pins[0]])
    check_mirror(leaf, "trial %d before" % k)

    refused = False
    try:
        # illegal: 'x' is a port of another definition -> the whole call has to be refused
        leaf.remove_ports_from(set(ports[:4]) | {foreign})
    except AssertionError:
        refused = True
    assert refused, "remove_ports_from accepted a port of a different definition"

    assert list(leaf.ports) == ports, "refused call changed the port list"
    check_mirror(leaf, "trial %d after refused remove_ports_from" % k)
    check_mirror(other, "trial %d (other)" % k)
    assert u0.pins[ports[0].pins[0]].wire is w and u1.pins[ports[1].pins[0]].wire is w, (
        "trial %d: a connection was lost although the call was refused" % k)


for k in range(25):
    trial(k)
print("OK: every instance still mirrors its definition after a refused remove_ports_from")
sys.exit(0)
