"""C02 demo (m2): re-pointing an instance to the definition it already references.

Property clause: "At all times an instance that references a definition is a member of that
definition's reference set and of no other, and carries exactly one outer pin for every inner pin
the definition currently has ... no matter in which order ... instances were ... re-pointed".
Assigning `inst.reference = inst.reference` (e.g. a generic "re-bind every instance" pass) is a
legal, shape-compatible re-pointing.
"""
import sys
import spydrnet as sdn

netlist = sdn.Netlist("n")
lib = netlist.create_library("work")
leaf = lib.create_definition("leaf")
a = leaf.create_port("a", pins=2)
other = lib.create_definition("leaf2")
other.create_port("a", pins=2)
top = lib.create_definition("top")
u0 = top.create_child("u0", reference=leaf)
u1 = top.create_child("u1", reference=leaf)
netlist.top_instance = top
w = top.create_cable("c", wires=1).wires[0]
w.connect_pin(u0.pins[a.pins[0]])


def check(definition, label):
    inner = [pin for port in definition.ports for pin in port.pins]
    for d in lib.definitions:
        for inst in d.references:
            assert inst.reference is d, "%s: '%s' is listed in the reference set of '%s' but references '%s'" % (
                label, inst.name, d.name, inst.reference.name)
    for inst in (u0, u1):
        ref = inst.reference
        assert inst in ref.references, (
            "%s: instance '%s' references definition '%s' but is NOT a member of its reference set"
            % (label, inst.name, ref.name))
        inner = [pin for port in ref.ports for pin in port.pins]
        assert len(inst.pins) == len(inner) and all(
            ip in inst.pins and inst.pins[ip].inner_pin is ip and inst.pins[ip].instance is inst for ip in inner
        ), "%s: instance '%s' has %d outer pins, definition '%s' has %d inner pins" % (
            label, inst.name, len(inst.pins), ref.name, len(inner))


check(leaf, "initially")

# ordinary re-pointing to a compatible definition and back
u1.reference = other
check(leaf, "after re-pointing u1 to leaf2")
u1.reference = leaf
check(leaf, "after re-pointing u1 back to leaf")

# re-pointing to the definition already referenced
u0.reference = u0.reference
assert u0.reference is leaf
assert u0.pins[a.pins[0]].wire is w, "connection lost by re-pointing"
check(leaf, "after u0.reference = u0.reference")

# the definition keeps tracking the instance: a new port must show up on u0 as well
b = leaf.create_port("b", pins=1)
check(leaf, "after adding port b to leaf")
leaf.remove_port(a)
check(leaf, "after removing port a from leaf")
assert w.pins == [], "outer pin of a removed port is still on its wire"
print("OK: reference sets and outer pins track self re-pointing")
sys.exit(0)
