"""C19 demo (m1): a listener that merely replays the announcements holds an exact mirror of the
connections -- also for the disconnections that happen implicitly when a pin is removed from the port
of a definition that is instantiated and wired up."""
import sys

import spydrnet as sdn
from spydrnet.callback.callback_listener import CallbackListener


class Mirror(CallbackListener):
    """replays connect/disconnect announcements: wire -> set of pins"""

    def __init__(self):
        self.joined = {}
        self.log = []
        super().__init__()

    def wire_connect_pin(self, wire, pin):
        assert pin not in self.joined.get(wire, ()), "announced before it takes effect"
        self.joined.setdefault(wire, []).append(pin)
        self.log.append(("connect", wire, pin))

    def wire_disconnect_pin(self, wire, pin):
        if pin in self.joined.get(wire, []):
            self.joined[wire].remove(pin)
        self.log.append(("disconnect", wire, pin))

    def port_remove_pin(self, port, pin):
        self.log.append(("port_remove_pin", port, pin))


def build():
    nl = sdn.Netlist(name="n")
    lib = nl.create_library("work")
    leaf = lib.create_definition("leaf")
    bus = leaf.create_port("d", direction=sdn.IN, pins=3)
    top = lib.create_definition("top")
    insts = [top.create_child("u%d" % k, reference=leaf) for k in range(2)]
    cable = top.create_cable("c", wires=3)
    for k, wire in enumerate(cable.wires):
        for inst in insts:
            wire.connect_pin(inst.pins[bus.pins[k]])
    inner = leaf.create_cable("d", wires=3)
    for k, wire in enumerate(inner.wires):
        wire.connect_pin(bus.pins[k])
    return nl, leaf, bus, top, cable, inner


def compare(mirror, wires, what):
    problems = []
    for label, wire in wires:
        actual = list(wire.pins)
        mirrored = mirror.joined.get(wire, [])
        if len(actual) != len(mirrored) or any(a is not m for a, m in zip(actual, mirrored)):
            problems.append("%s: wire %s really joins %d pin(s) but the replaying listener still holds %d "
                            "(no wire_disconnect_pin was announced for the difference)"
                            % (what, label, len(actual), len(mirrored)))
    return problems


mirror = Mirror()
try:
    nl, leaf, bus, top, cable, inner = build()
    wires = [("top.c[%d]" % k, w) for k, w in enumerate(cable.wires)] + \
            [("leaf.d[%d]" % k, w) for k, w in enumerate(inner.wires)]
    problems = compare(mirror, wires, "after construction")

    bus.remove_pin(bus.pins[2])                       # single variant
    problems += compare(mirror, wires, "after port.remove_pin(d[2])")
    bus.remove_pins_from([bus.pins[0]])               # bulk variant
    problems += compare(mirror, wires, "after port.remove_pins_from([d[0]])")
    assert len(bus.pins) == 1 and all(len(i.pins) == 1 for i in top.children)
finally:
    mirror.deregister_all_listeners()

if problems:
    print("VIOLATION of C19 (a replaying listener must hold an exact mirror of the connections):")
    for p in problems:
        print("  -", p)
    sys.exit(1)
print("OK: implicit disconnections of a pin removal were all announced")
