"""C19 demo (m2): every change to element data made through the public API -- including the
`properties=` argument of the constructors and of the compound create_* calls -- is announced, so a
listener that merely replays dictionary_set / dictionary_delete / dictionary_pop holds an exact mirror
of the data of every element."""
import sys

import spydrnet as sdn
from spydrnet.callback.callback_listener import CallbackListener


class DataMirror(CallbackListener):
    def __init__(self):
        self.data = {}
        super().__init__()

    def dictionary_set(self, element, key, value):
        assert element.get(key, None) is not value or key == ".NS", "announced before it takes effect"
        self.data.setdefault(id(element), {})[key] = value

    def dictionary_delete(self, element, key):
        self.data.setdefault(id(element), {}).pop(key, None)

    def dictionary_pop(self, element, key):
        self.data.setdefault(id(element), {}).pop(key, None)


PROPS = {"INIT": "16'h8000", "LOC": "SLICE_X0Y0", "EDIF.properties": [{"identifier": "a", "value": 1}]}

mirror = DataMirror()
try:
    elements = {}
    nl = sdn.Netlist(name="n", properties=dict(PROPS))
    elements["Netlist(properties=)"] = nl
    lib = nl.create_library("work", properties=dict(PROPS))
    elements["netlist.create_library(properties=)"] = lib
    leaf = lib.create_definition("leaf", properties=dict(PROPS))
    elements["library.create_definition(properties=)"] = leaf
    top = lib.create_definition("top")
    elements["definition.create_port(properties=)"] = top.create_port("p", properties=dict(PROPS))
    elements["definition.create_cable(properties=)"] = top.create_cable("c", properties=dict(PROPS))
    elements["definition.create_child(properties=)"] = top.create_child("u0", properties=dict(PROPS), reference=leaf)
    elements["Instance(properties=)"] = sdn.Instance("u1", dict(PROPS))
    # later edits through the element API
    for e in elements.values():
        e["extra"] = 1
        e.pop("LOC")
        del e["extra"]
finally:
    mirror.deregister_all_listeners()

problems = []
for how, element in elements.items():
    actual = dict(element.data)
    mirrored = mirror.data.get(id(element), {})
    if actual != mirrored:
        missing = sorted(k for k in actual if k not in mirrored)
        stale = sorted(k for k in mirrored if k not in actual)
        problems.append("%s: element data has keys %s that were never announced%s"
                        % (how, missing, (", listener still holds %s" % stale) if stale else ""))

if problems:
    print("VIOLATION of C19 (a replaying listener must hold an exact mirror of all element data):")
    for p in problems:
        print("  -", p)
    sys.exit(1)
print("OK: the data of all %d elements equals what was announced" % len(elements))
