"""C10 demo (m1): an edit is refused exactly when it would create a duplicate (or illegal) name /
identifier, and asking a parent for a child by exact identifier returns precisely the children a
linear scan finds - also after an add that was (rightly) refused."""
import os
import sys

sys.path.insert(0, os.getcwd())
import spydrnet as sdn


def scan(children, key, value):
    if key == "EDIF.identifier":
        return [c for c in children if key in c and c[key].lower() == value.lower()]
    return [c for c in children if key in c and c[key] == value]


def check_scope(kind, parent, getter, children_of, new_orphan, add):
    # two children: names A / b, identifiers A / b
    for n in ("A", "b"):
        e = new_orphan()
        e.name = n
        e["EDIF.identifier"] = n
        add(parent, e)

    # an orphan with a fresh identifier but a name that is already taken: must be refused
    orphan = new_orphan()
    orphan.name = "A"
    orphan["EDIF.identifier"] = "fresh"
    try:
        add(parent, orphan)
    except ValueError:
        pass
    else:
        raise AssertionError("%s: duplicate name 'A' was accepted" % kind)
    assert orphan not in children_of(parent)

    # exact-identifier lookup must agree with a scan of the children (nobody is called 'fresh')
    for ident in ("fresh", "FRESH", "A", "a", "b"):
        got = list(getter(parent, ident, key="EDIF.identifier"))
        want = scan(children_of(parent), "EDIF.identifier", ident)
        assert got == want, (
            "C10 violated (%s): lookup of identifier %r returns %r but a scan of the children finds %r"
            % (kind, ident, got, want)
        )

    # the identifier 'fresh' is free, so this edit must NOT be refused
    other = new_orphan()
    other.name = "c"
    other["EDIF.identifier"] = "fresh"
    try:
        add(parent, other)
    except ValueError as e:
        raise AssertionError(
            "C10 violated (%s): adding a child with the unused identifier 'fresh' was refused (%s) "
            "because of an element that was never added" % (kind, e)
        )
    names = [c.name for c in children_of(parent)]
    assert names == ["A", "b", "c"], names


def main():
    saved = sdn.namespace_manager.default
    sdn.namespace_manager.default = "EDIF"
    try:
        netlist = sdn.Netlist(name="n")
        check_scope("libraries of a netlist", netlist, lambda p, v, key: p.get_libraries(v, key=key),
                    lambda p: list(p.libraries), sdn.Library, lambda p, e: p.add_library(e))
        lib = netlist.libraries[0]
        check_scope("definitions of a library", lib, lambda p, v, key: p.get_definitions(v, key=key),
                    lambda p: list(p.definitions), sdn.Definition, lambda p, e: p.add_definition(e))
        d = lib.definitions[0]
        check_scope("ports of a definition", d, lambda p, v, key: p.get_ports(v, key=key),
                    lambda p: list(p.ports), sdn.Port, lambda p, e: p.add_port(e))
        check_scope("cables of a definition", d, lambda p, v, key: p.get_cables(v, key=key),
                    lambda p: list(p.cables), sdn.Cable, lambda p, e: p.add_cable(e))
        check_scope("instances of a definition", d, lambda p, v, key: p.get_instances(v, key=key),
                    lambda p: list(p.children), sdn.Instance, lambda p, e: p.add_child(e))
    finally:
        sdn.namespace_manager.default = saved
    print("OK: refused adds leave no trace in any naming scope")


if __name__ == "__main__":
    main()
