"""C10 demo (m2): under the EDIF policy identifiers are checked for legal form; an edit is refused
exactly when it would create a duplicate or an illegal identifier. Here the edit is `add`: a
definition that was built by hand (while the DEFAULT policy was active) is added to a library of an
EDIF netlist, which makes it - and everything inside it - subject to the EDIF policy."""
import os
import sys

sys.path.insert(0, os.getcwd())
import spydrnet as sdn
from spydrnet.plugins.namespace_manager.edif_namespace import EdifNamespace


def edif_library():
    saved = sdn.namespace_manager.default
    sdn.namespace_manager.default = "EDIF"  # what the EDIF reader does while it builds a netlist
    try:
        netlist = sdn.Netlist(name="n")
        netlist["EDIF.identifier"] = "n"
        lib = netlist.create_library(name="work")
        lib["EDIF.identifier"] = "work"
        return netlist, lib
    finally:
        sdn.namespace_manager.default = saved


def handmade_definition(kind, identifier):
    """a definition built under the DEFAULT policy with one child of `kind` carrying `identifier`"""
    assert sdn.namespace_manager.default == "DEFAULT"
    d = sdn.Definition(name="cell")
    d["EDIF.identifier"] = "cell"
    child = {"port": d.create_port, "cable": d.create_cable, "instance": d.create_child}[kind](name="x")
    child["EDIF.identifier"] = identifier  # anything goes under the DEFAULT policy
    return d, child


def illegal_identifiers_in(netlist):
    bad = []
    for lib in netlist.libraries:
        for d in lib.definitions:
            for e in [lib, d] + list(d.ports) + list(d.cables) + list(d.children):
                if e[".NS"] == "EDIF" and "EDIF.identifier" in e:
                    if not EdifNamespace.is_name_valid("EDIF.identifier", e["EDIF.identifier"]):
                        bad.append((type(e).__name__, e["EDIF.identifier"]))
    return bad


def main():
    for kind in ("port", "cable", "instance"):
        # 1. a legal hand-made definition is accepted and converted to the EDIF policy
        netlist, lib = edif_library()
        d, child = handmade_definition(kind, "legal_id")
        lib.add_definition(d)
        assert d[".NS"] == "EDIF" and child[".NS"] == "EDIF"
        # ... and from then on the identifier is policed
        try:
            child["EDIF.identifier"] = "9 not-legal"
        except ValueError:
            pass
        else:
            raise AssertionError("illegal identifier accepted by a direct edit")

        # 2. the same add with an illegal identifier inside must be refused
        for identifier in ("9 not-legal", "has-dash", "", "x" * 300):
            netlist, lib = edif_library()
            d, child = handmade_definition(kind, identifier)
            try:
                lib.add_definition(d)
            except ValueError:
                assert d.library is None and list(lib.definitions) == []
                continue
            raise AssertionError(
                "C10 violated: add_definition was not refused although it brings the illegal identifier %r of a "
                "%s into an EDIF naming scope; illegal identifiers now in the netlist: %r"
                % (identifier[:20], kind, illegal_identifiers_in(netlist))
            )
    print("OK: illegal identifiers cannot enter an EDIF netlist through add")


if __name__ == "__main__":
    main()
