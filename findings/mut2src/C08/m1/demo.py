"""C08 demo (m1): uniquify must leave the elaborated design untouched - in particular the grouping
of all leaf pins and top-level port bits into electrically connected nets.

The netlist below is read from Verilog in which module `pair` is instantiated (twice, by name)
before it is declared, naming its ports in another order than the module header does. That is an
ordinary well-formed netlist; the only unusual thing is its construction history."""
import os
import sys
import tempfile

sys.path.insert(0, os.getcwd())
import spydrnet as sdn
from spydrnet.uniquify import uniquify

SRC = """\
module top (input [1:0] a, input b, output [1:0] y, output z);
  wire [1:0] m;
  wire n;
  pair p0 (.sel(b), .q(m), .d(a), .r(n));
  pair p1 (.sel(n), .q(y), .d(m), .r(z));
endmodule

module pair (input [1:0] d, input sel, output [1:0] q, output r);
  BUF2 b0 (.I(d), .O(q));
  BUF1 b1 (.I(sel), .O(r));
endmodule
"""


def is_leaf(definition):
    return len(definition.children) == 0 and len(definition.cables) == 0


def elaborate(netlist):
    """(tree of hierarchical instance names with the leaf type at every path, nets)"""
    parent = {}

    def find(x):
        parent.setdefault(x, x)
        while parent[x] != x:
            parent[x] = parent[parent[x]]
            x = parent[x]
        return x

    def union(a, b):
        parent[find(a)] = find(b)

    tree = {}
    endpoints = set()

    def walk(instance, path):
        definition = instance.reference
        leaf = is_leaf(definition) and path != ()
        tree[path] = definition.name if leaf else None
        if leaf or path == ():
            for port in definition.ports:
                for k in range(len(port.pins)):
                    endpoints.add((path, port.name, k))
        if leaf:
            return
        for cable in definition.cables:
            for k, wire in enumerate(cable.wires):
                node = ("wire", path, cable.name, k)
                for pin in wire.pins:
                    if isinstance(pin, sdn.OuterPin):
                        inner = pin.inner_pin
                        union(node, (path + (pin.instance.name,), inner.port.name, inner.port.pins.index(inner)))
                    else:
                        union(node, (path, pin.port.name, pin.port.pins.index(pin)))
        for child in definition.children:
            walk(child, path + (child.name,))

    walk(netlist.top_instance, ())
    groups = {}
    for e in endpoints:
        groups.setdefault(find(e), set()).add(e)
    return tree, frozenset(frozenset(g) for g in groups.values())


def main():
    with tempfile.TemporaryDirectory() as d:
        path = os.path.join(d, "design.v")
        with open(path, "w") as f:
            f.write(SRC)
        netlist = sdn.parse(path)

    tree_before, nets_before = elaborate(netlist)
    pair = next(netlist.get_definitions("pair"))
    assert len(pair.references) == 2

    uniquify(netlist)

    # every non-leaf instance below the top is the only instance of its definition
    stack = list(netlist.top_instance.reference.children)
    while stack:
        inst = stack.pop()
        if not is_leaf(inst.reference):
            assert len(inst.reference.references) == 1, "instance %s still shares its definition" % inst.name
        stack.extend(inst.reference.children)

    tree_after, nets_after = elaborate(netlist)
    assert tree_after == tree_before, "C08 violated: instance tree / leaf types changed"
    if nets_after != nets_before:
        changed = sorted(sorted(map(str, n)) for n in nets_before ^ nets_after)
        raise AssertionError(
            "C08 violated: uniquify changed the grouping of leaf pins and top-level port bits "
            "into nets; nets that differ:\n  " + "\n  ".join(map(str, changed))
        )
    print("OK: uniquify left the elaborated design untouched")


if __name__ == "__main__":
    main()
