"""C08 demo (m2): after uniquify every non-leaf instance below the top is the only instance of its
definition, the netlist stays well-formed and "newly created definitions have fresh unique names in
the original's library" - names AND (for EDIF netlists) EDIF identifiers, which are the names that
are written to an EDIF file.

The library already contains a cell called `mid_sdn_unique_<k>` (e.g. the netlist was written out
after an earlier uniquify run and read back), where <k> is the number uniquify hands out next."""
import os
import sys

sys.path.insert(0, os.getcwd())
import spydrnet as sdn
import spydrnet.uniquify as uq
from spydrnet.uniquify import uniquify


def build(policy):
    saved = sdn.namespace_manager.default
    sdn.namespace_manager.default = policy
    try:
        k = uq.MOD_NAME_UID  # the suffix number that uniquify will try first
        netlist = sdn.Netlist(name="design")
        netlist["EDIF.identifier"] = "design"
        lib = netlist.create_library(name="work")
        lib["EDIF.identifier"] = "work"

        def make(name):
            d = lib.create_definition(name=name)
            d["EDIF.identifier"] = name
            return d

        leaf = make("leaf")
        leaf.create_port(name="i", direction=sdn.IN).create_pin()
        mid = make("mid")
        pin = mid.create_port(name="i", direction=sdn.IN).create_pin()
        wire = mid.create_cable(name="n").create_wire()
        wire.connect_pin(pin)
        wire.connect_pin(mid.create_child(name="l", reference=leaf).pins[leaf.ports[0].pins[0]])
        # a left-over of an earlier run: same base name, suffix that will be tried first
        old = make("mid_sdn_unique_%d" % k)
        old.create_port(name="i", direction=sdn.IN).create_pin()
        old.create_cable(name="n").create_wire().connect_pin(old.ports[0].pins[0])
        top = make("top")
        for name, ref in (("a", mid), ("b", mid), ("c", old)):
            top.create_child(name=name, reference=ref)
        netlist.set_top_instance(top, instance_name="top")
        return netlist
    finally:
        sdn.namespace_manager.default = saved


def check(policy):
    netlist = build(policy)
    try:
        uniquify(netlist)
    except Exception as e:  # uniquify must work for every well-formed netlist
        raise AssertionError(
            "C08 violated (%s naming policy): uniquify failed on a well-formed netlist: %s: %s"
            % (policy, type(e).__name__, e)
        )
    top = netlist.top_instance.reference
    for child in top.children:
        assert len(child.reference.references) == 1, "instance %s is not unique" % child.name
    for lib in netlist.libraries:
        names = [d.name for d in lib.definitions]
        idents = [d["EDIF.identifier"].lower() for d in lib.definitions if "EDIF.identifier" in d]
        assert len(names) == len(set(names)), "duplicate definition names: %r" % names
        assert len(idents) == len(set(idents)), (
            "C08 violated (%s naming policy): the definition created by uniquify does not have a fresh "
            "unique EDIF identifier in its library: %r" % (policy, sorted(idents))
        )


def main():
    check("EDIF")
    check("DEFAULT")
    print("OK: uniquify created definitions with fresh unique names and identifiers")


if __name__ == "__main__":
    main()
