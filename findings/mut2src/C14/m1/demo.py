"""C14 demo (m1): when an add is refused by the naming rules (duplicate name) the netlist
is left exactly as before - including the answers to name lookups - and nothing of the
refused element remains registered anywhere."""
import spydrnet as sdn
from spydrnet.global_state.global_service import lookup

KEYS = (".NAME", "EDIF.identifier")


def snapshot(netlist, probes):
    snap = []
    for lib in netlist.libraries:
        snap.append(("lib", id(lib), dict(lib.data)))
        for d in lib.definitions:
            snap.append(("def", id(d), dict(d.data), sorted(id(r) for r in d.references)))
            for p in d.ports:
                snap.append(("port", id(p), dict(p.data), [id(x) for x in p.pins]))
            for c in d.cables:
                snap.append(("cable", id(c), dict(c.data),
                             [[id(x) for x in w.pins] for w in c.wires]))
            for i in d.children:
                snap.append(("inst", id(i), dict(i.data), id(i.reference)))
    # answers to name lookups, under both keys, for every probe string
    looks = []
    for lib in netlist.libraries:
        for key in KEYS:
            for probe in probes:
                looks.append(("L", key, probe, id(lookup(netlist, sdn.Library, key, probe))))
                looks.append(("D", id(lib), key, probe,
                              id(lookup(lib, sdn.Definition, key, probe)),
                              [id(x) for x in sdn.get_definitions(lib, probe, key=key)]))
                for d in lib.definitions:
                    for typ, getter in ((sdn.Port, sdn.get_ports), (sdn.Cable, sdn.get_cables),
                                        (sdn.Instance, sdn.get_instances)):
                        looks.append((typ.__name__, id(d), key, probe,
                                      id(lookup(d, typ, key, probe)),
                                      [id(x) for x in getter(d, probe, key=key)]))
    return snap, looks


def named(cls, name, identifier):
    element = cls()
    element.name = name
    element["EDIF.identifier"] = identifier
    return element


netlist = sdn.Netlist(name="n")
netlist[".NS"] = "EDIF"          # the policy used for netlists that come from EDIF files
lib = netlist.create_library(name="work")
lib["EDIF.identifier"] = "work"
leaf = lib.create_definition(name="leaf")
leaf["EDIF.identifier"] = "leaf"
top = lib.create_definition(name="top")
top["EDIF.identifier"] = "top"
top.add_port(named(sdn.Port, "a[3:0]", "a"))
top.add_cable(named(sdn.Cable, "a[3:0]", "a"))
u = named(sdn.Instance, "u/0", "u_0")
u.reference = leaf
top.add_child(u)

PROBES = ["work", "leaf", "top", "a", "a[3:0]", "u_0", "u/0", "fresh", "FRESH", "b", "u_1", "lib2"]
before = snapshot(netlist, PROBES)

# every one of these carries a NEW identifier but a display name that is already taken
refused = [
    ("library.add_definition", lambda: lib.add_definition(named(sdn.Definition, "top", "fresh"))),
    ("definition.add_port", lambda: top.add_port(named(sdn.Port, "a[3:0]", "b"))),
    ("definition.add_cable", lambda: top.add_cable(named(sdn.Cable, "a[3:0]", "b"))),
    ("definition.add_child", lambda: top.add_child(named(sdn.Instance, "u/0", "u_1"))),
    ("netlist.add_library", lambda: netlist.add_library(named(sdn.Library, "work", "lib2"))),
]
for _ in range(2):                      # singly and repeatedly
    for label, call in refused:
        try:
            call()
        except (ValueError, AssertionError):
            pass
        else:
            raise SystemExit("%s with a duplicate name was not refused" % label)
        after = snapshot(netlist, PROBES)
        assert after[0] == before[0], "refused %s changed the netlist structure/data" % label
        diff = [(b, a) for b, a in zip(before[1], after[1]) if a != b]
        assert not diff, (
            "refused %s changed the answers to name lookups (key, probe): %r"
            % (label, [d[0][:-2] if len(d[0]) > 4 else d[0][:3] for d in diff])
        )

# and the identifiers of the refused elements are still free for a legal add
lib.add_definition(named(sdn.Definition, "other", "fresh"))
top.add_port(named(sdn.Port, "b[3:0]", "b"))
top.add_cable(named(sdn.Cable, "b[3:0]", "b"))
top.add_child(named(sdn.Instance, "u/1", "u_1"))
netlist.add_library(named(sdn.Library, "work2", "lib2"))
print("OK")
