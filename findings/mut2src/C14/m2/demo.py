"""C14 demo (m2): an editing call that is refused by the naming rules (colliding name)
leaves the netlist exactly as it was: same top instance, same reference sets of every
definition, same names and data."""
import spydrnet as sdn


def snapshot(netlist):
    top = netlist.top_instance
    snap = {
        "top_instance": id(top),
        "top_flag": None if top is None else top.is_top_instance,
        "top_data": None if top is None else dict(top.data),
        "libraries": [],
    }
    for lib in netlist.libraries:
        defs = []
        for d in lib.definitions:
            defs.append((id(d), dict(d.data), sorted(id(r) for r in d.references),
                         [(id(c), dict(c.data), id(c.reference)) for c in d.children]))
        snap["libraries"].append((id(lib), dict(lib.data), defs))
    return snap


netlist = sdn.Netlist(name="n")
lib = netlist.create_library(name="work")
widget = lib.create_definition(name="widget")
core = lib.create_definition(name="core")
core.create_child(name="w0", reference=widget)
netlist.set_top_instance(core, instance_name="core")
old_top = netlist.top_instance
assert old_top.reference is core and old_top.name == "core" and old_top.is_top_instance

before = snapshot(netlist)
for attempt in range(2):                        # singly and repeatedly
    try:
        # asks to (re)name definition 'widget' to 'core' - a name already taken in the library
        netlist.set_top_instance(widget, instance_name="core")
    except ValueError:
        pass
    else:
        raise SystemExit("set_top_instance with a colliding name was not refused")
    after = snapshot(netlist)
    assert netlist.top_instance is old_top, (
        "refused set_top_instance() replaced the netlist's top instance (%r -> %r)"
        % (old_top, netlist.top_instance)
    )
    assert old_top.is_top_instance, "refused call cleared is_top_instance of the old top"
    assert len(widget.references) == 1, (
        "refused set_top_instance() left %d extra instance(s) registered in "
        "widget.references" % (len(widget.references) - 1)
    )
    assert after == before, "refused set_top_instance() changed the netlist"

# a legal call still works
netlist.set_top_instance(widget, instance_name="widget_top")
assert netlist.top_instance.reference is widget and netlist.top_instance.name == "widget_top"
assert widget.name == "widget_top"
print("OK")
