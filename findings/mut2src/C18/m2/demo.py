"""C18 demo (m2): `.conn a b` merges the two nets -- every pin that was joined to `a` or to `b`
is afterwards on one and the same net -- the result is well-formed (every connected pin sits on a wire
that belongs to a cable of the model), and it survives write-then-read.  The .conn statement stands where
tools put it, after the statements that use the two nets (the unmodified parser only supports that order)."""
import itertools
import os
import sys
import tempfile

import spydrnet as sdn

SUBCKTS = [  # (cname, model, {formal: actual})
    ("u0", "BUF", {"I": "a", "O": "n1"}),
    ("u1", "BUF", {"I": "n1", "O": "y"}),
    ("u2", "BUF", {"I": "n1", "O": "w"}),
    ("u3", "BUF", {"I": "n2", "O": "z"}),
    ("u4", "BUF", {"I": "n2", "O": "v"}),
]
CONN = ("n1", "n2")
MERGED = {"u0.O", "u1.I", "u2.I", "u3.I", "u4.I"}


def render(conn_position):
    body = []
    for cname, model, conns in SUBCKTS:
        body.append([".subckt %s %s" % (model, " ".join("%s=%s" % fa for fa in conns.items())),
                     ".cname " + cname])
    body.insert(conn_position, [".conn %s %s" % CONN])
    lines = [".model top", ".inputs a", ".outputs y z"] + list(itertools.chain(*body)) + [".end"]
    return "\n".join(lines) + "\n"


def pin_name(pin):
    if isinstance(pin, sdn.OuterPin):
        return pin.instance.name + "." + pin.inner_pin.port.name
    return "top." + pin.port.name


def check(netlist, title):
    problems = []
    top = netlist.top_instance.reference
    wires_in_model = set(id(w) for c in top.cables for w in c.wires)
    net_of = {}
    for inst in top.children:
        for pin in inst.pins.values():
            if pin.wire is not None:
                if id(pin.wire) not in wires_in_model:
                    problems.append("%s: pin %s sits on a wire that belongs to no cable of the model (not well-formed)"
                                    % (title, pin_name(pin)))
                net_of[pin_name(pin)] = id(pin.wire)
    ids = set(net_of.get(p) for p in MERGED)
    if len(ids) != 1 or None in ids:
        groups = {}
        for p in sorted(MERGED):
            groups.setdefault(net_of.get(p), []).append(p)
        problems.append("%s: .conn %s %s did not merge the nets; the pins are spread over: %s"
                        % (title, CONN[0], CONN[1], sorted(groups.values())))
    else:
        wire = next(w for c in top.cables for w in c.wires if id(w) in ids)
        got = set(pin_name(p) for p in wire.pins)
        if got != MERGED:
            problems.append("%s: merged net joins %s, expected %s" % (title, sorted(got), sorted(MERGED)))
    return problems


problems = []
with tempfile.TemporaryDirectory() as tmp:
    for position in [len(SUBCKTS)]:                   # .conn after all users of the two nets
        src = os.path.join(tmp, "conn%d.eblif" % position)
        open(src, "w").write(render(position))
        netlist = sdn.parse(src)
        title = ".conn as statement #%d" % position
        found = check(netlist, title)
        problems += found
        if not found:
            out = os.path.join(tmp, "again%d.eblif" % position)
            sdn.compose(netlist, out)
            problems += check(sdn.parse(out), title + ", after write-then-read")

if problems:
    print("VIOLATION of C18 (.conn must merge the two nets, result must be well-formed):")
    for p in problems:
        print("  -", p)
    sys.exit(1)
print("OK: .conn merges both nets completely")
