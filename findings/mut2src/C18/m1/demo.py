"""C18 demo (m1): in the parsed netlist every formal=actual pair of a .subckt is joined to the
named net bit (only the literal actual `unconn` means "left open"), and writing the netlist as EBLIF
and reading it back gives the same nets (as sets of pins)."""
import os
import sys
import tempfile

import spydrnet as sdn

# abstract flat design: instance -> (model, {formal: actual})
DESIGN = {
    "u_and": ("AND2", {"A": "a", "B": "b", "Y": "n1"}),
    "u_buf": ("BUF", {"I": "unconnected_in", "O": "unconn"}),        # O really is left open
    "u_or": ("OR2", {"A": "n1", "B": "unconnected_in", "Y": "dbg_unconn_2"}),
    "u_inv": ("INV", {"I": "dbg_unconn_2", "O": "y"}),
    "u_reg": ("DFF", {"D": "bus[1]", "C": "a", "Q": "q"}),
    "u_reg0": ("DFF", {"D": "bus[0]", "C": "a", "Q": "bus[1]"}),
    "u_drv": ("BUF", {"I": "b", "O": "bus[0]"}),
}
INPUTS = ["a", "b", "unconnected_in"]
OUTPUTS = ["y", "q"]

lines = ["# independent rendering of the design", ".model top",
         ".inputs " + " ".join(INPUTS), ".outputs " + " ".join(OUTPUTS)]
for name, (model, conns) in DESIGN.items():
    lines.append(".subckt " + model + " " + " ".join("%s=%s" % fa for fa in conns.items()))
    lines.append(".cname " + name)
lines.append(".end")
TEXT = "\n".join(lines) + "\n"


def expected_nets():
    nets = {}
    for p in INPUTS + OUTPUTS:
        nets.setdefault(p, set()).add("top." + p)
    for name, (model, conns) in DESIGN.items():
        for formal, actual in conns.items():
            if actual != "unconn":
                nets.setdefault(actual, set()).add(name + "." + formal)
    return nets


def parsed_nets(netlist):
    nets = {}
    top = netlist.top_instance.reference
    for cable in top.cables:
        for k, wire in enumerate(cable.wires):
            key = cable.name if len(cable.wires) == 1 else "%s[%d]" % (cable.name, k)
            pins = set()
            for pin in wire.pins:
                if isinstance(pin, sdn.OuterPin):
                    pins.add(pin.instance.name + "." + pin.inner_pin.port.name)
                else:
                    pins.add("top." + pin.port.name)
            if pins:
                nets[key] = pins
    return nets


def report(title, want, got):
    out = []
    for net in sorted(set(want) | set(got)):
        if want.get(net, set()) != got.get(net, set()):
            out.append("%s: net %r joins %s, expected %s" % (
                title, net, sorted(got.get(net, set())), sorted(want.get(net, set()))))
    return out


problems = []
with tempfile.TemporaryDirectory() as tmp:
    src = os.path.join(tmp, "design.eblif")
    open(src, "w").write(TEXT)
    netlist = sdn.parse(src)
    want = expected_nets()
    problems += report("parse", want, parsed_nets(netlist))
    assert sorted(i.name for i in netlist.top_instance.reference.children) == sorted(DESIGN)
    # genuine unconn actual is recorded, and only that one
    opened = {i.name: i["unconn"] for i in netlist.top_instance.reference.children if "unconn" in i}
    if opened != {"u_buf": ["O[0]"]}:
        problems.append("parse: pins recorded as intentionally unconnected: %r, expected only u_buf O[0]" % opened)
    out = os.path.join(tmp, "again.eblif")
    sdn.compose(netlist, out)
    problems += report("write-then-read", want, parsed_nets(sdn.parse(out)))

if problems:
    print("VIOLATION of C18 (every formal=actual pair must be joined to the named net bit):")
    for p in problems:
        print("  -", p)
    sys.exit(1)
print("OK: all formal=actual pairs are joined to their nets, before and after write-then-read")
