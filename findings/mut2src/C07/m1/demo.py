"""C07 demo (m1): a clone shares nothing with the original - later edits of either netlist
(here: of the user data stored on a cable) never show in the other."""
import os
import sys

sys.path.insert(0, os.getcwd())
import spydrnet as sdn


def build():
    netlist = sdn.Netlist(name="design")
    lib = netlist.create_library(name="work")
    leaf = lib.create_definition(name="leaf")
    leaf.create_port(name="i", direction=sdn.IN).create_pin()
    top = lib.create_definition(name="top")
    port = top.create_port(name="a", direction=sdn.IN)
    port.create_pin()
    cable = top.create_cable(name="a")
    wire = cable.create_wire()
    wire.connect_pin(port.pins[0])
    child = top.create_child(name="u0", reference=leaf)
    wire.connect_pin(child.pins[leaf.ports[0].pins[0]])
    # arbitrary user data, the way the Verilog/EDIF readers store attributes: nested containers
    cable["VERILOG.InlineConstraints"] = {"keep": "true"}
    cable["EDIF.properties"] = [{"identifier": "LOC", "value": "X0Y0"}]
    cable["note"] = "plain string"
    netlist.set_top_instance(top, instance_name="top")
    return netlist


def snapshot(netlist):
    out = {}
    for lib in netlist.libraries:
        for d in lib.definitions:
            for c in d.cables:
                out[(lib.name, d.name, c.name)] = repr(sorted((k, repr(v)) for k, v in c.data.items()))
    return out


def check_root(label, make_clone, get_cable_of_clone, netlist):
    before = snapshot(netlist)
    clone = make_clone(netlist)
    cc = get_cable_of_clone(clone)
    oc = netlist.libraries[0].definitions[1].cables[0]
    assert cc is not oc
    assert cc["VERILOG.InlineConstraints"] == oc["VERILOG.InlineConstraints"], "clone data differs"
    assert cc["EDIF.properties"] == oc["EDIF.properties"], "clone data differs"
    # edit the clone only
    cc["VERILOG.InlineConstraints"]["dont_touch"] = "yes"
    cc["EDIF.properties"][0]["value"] = "X9Y9"
    cc["EDIF.properties"].append({"identifier": "NEW", "value": 1})
    cc["note"] = "changed"
    after = snapshot(netlist)
    assert after == before, (
        "C07 violated (%s as clone root): an edit of the clone's cable data shows in the original:\n"
        "  before: %s\n  after:  %s" % (label, before, after)
    )


def main():
    check_root("netlist", lambda n: n.clone(), lambda c: c.libraries[0].definitions[1].cables[0], build())
    check_root("library", lambda n: n.libraries[0].clone(), lambda c: c.definitions[1].cables[0], build())
    check_root(
        "definition", lambda n: n.libraries[0].definitions[1].clone(), lambda c: c.cables[0], build()
    )
    check_root("cable", lambda n: n.libraries[0].definitions[1].cables[0].clone(), lambda c: c, build())
    print("OK: cable data of clones is independent of the original")


if __name__ == "__main__":
    main()
