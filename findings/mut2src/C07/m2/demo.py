"""C07 demo (m2): cloning an instance yields a detached copy with the same internal structure:
one outer pin per inner pin of the referenced definition, each outer pin paired with that inner
pin, side connections (wires) cut, reference set of the shared definition updated, source untouched.
The copy can then be used like any other instance."""
import os
import sys

sys.path.insert(0, os.getcwd())
import spydrnet as sdn


def build():
    netlist = sdn.Netlist(name="design")
    lib = netlist.create_library(name="work")
    leaf = lib.create_definition(name="leaf")
    leaf.create_port(name="i", direction=sdn.IN).create_pins(2)
    leaf.create_port(name="o", direction=sdn.OUT).create_pin()
    top = lib.create_definition(name="top")
    cable = top.create_cable(name="n")
    cable.create_wires(3)
    u0 = top.create_child(name="u0", reference=leaf)
    for wire, inner in zip(cable.wires, [p for port in leaf.ports for p in port.pins]):
        wire.connect_pin(u0.pins[inner])
    netlist.set_top_instance(top, instance_name="top")
    return netlist, top, leaf, u0, cable


def main():
    netlist, top, leaf, u0, cable = build()
    inner_pins = [p for port in leaf.ports for p in port.pins]
    source_before = [(ip, op, op.inner_pin, op.instance, op.wire) for ip, op in u0.pins.items()]

    c = u0.clone()

    # detached copy, bookkeeping of the shared definition as documented
    assert c is not u0 and c.parent is None and c.reference is leaf
    assert c in leaf.references and u0 in leaf.references and len(leaf.references) == 2
    # the source is not modified
    assert [(ip, op, op.inner_pin, op.instance, op.wire) for ip, op in u0.pins.items()] == source_before
    # same internal structure: outer-pin/inner-pin pairs
    assert list(c.pins.keys()) == inner_pins, "clone does not have one outer pin per inner pin, in order"
    for inner, outer in c.pins.items():
        assert outer not in list(u0.pins.values()) or outer is not u0.pins[inner]
        assert outer.wire is None, "side connection of the cloned instance was not cut"
        assert outer.instance is c, "outer pin of the clone does not belong to the clone"
        assert outer.inner_pin is inner, (
            "C07 violated: outer pin of the cloned instance is not paired with its inner pin "
            "(outer-pin/inner-pin pair does not resolve): inner_pin=%r, expected %r"
            % (outer.inner_pin, inner)
        )

    # later edits of the copy: place it next to the original and wire it up
    c.name = "u1"
    top.add_child(c)
    extra = top.create_cable(name="m")
    extra.create_wires(3)
    for wire, inner in zip(extra.wires, inner_pins):
        wire.connect_pin(c.pins[inner])
    for wire, inner in zip(extra.wires, inner_pins):
        assert [p.instance.name for p in wire.pins] == ["u1"]
        assert wire.pins[0].inner_pin is inner
    # ... never show in the original
    for wire, inner in zip(cable.wires, inner_pins):
        assert wire.pins == [u0.pins[inner]]
    print("OK: cloned instance is a faithful, detached and usable copy")


if __name__ == "__main__":
    main()
