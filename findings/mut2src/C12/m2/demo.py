"""C12 demo (m2): tracing returns exactly the hierarchical wires of the elaborated design
(below the netlist's top instance) that are joined through instance port boundaries; the
OUTSIDE of a pin of the top instance is unconnected, whatever the top instance is."""
import spydrnet as sdn
from spydrnet.util.hierarchical_reference import HRef

netlist = sdn.Netlist(name="n")
lib = netlist.create_library(name="work")

buf = lib.create_definition(name="buf")
buf_i = buf.create_port("I", pins=1)
buf_o = buf.create_port("O", pins=1)

# design under test
dut = lib.create_definition(name="dut")
d_in = dut.create_port("IN", pins=1)
d_out = dut.create_port("OUT", pins=1)
b0 = dut.create_child(name="b0", reference=buf)
a = dut.create_cable(name="a").create_wire()
b = dut.create_cable(name="b").create_wire()
a.connect_pin(d_in.pins[0]); a.connect_pin(b0.pins[buf_i.pins[0]])
b.connect_pin(b0.pins[buf_o.pins[0]]); b.connect_pin(d_out.pins[0])

# a test bench that instantiates the dut and drives it
tb = lib.create_definition(name="tb")
dut_i = tb.create_child(name="dut_i", reference=dut)
drv = tb.create_child(name="drv", reference=buf)
stim = tb.create_cable(name="stim").create_wire()
resp = tb.create_cable(name="resp").create_wire()
stim.connect_pin(drv.pins[buf_o.pins[0]]); stim.connect_pin(dut_i.pins[d_in.pins[0]])
resp.connect_pin(dut_i.pins[d_out.pins[0]])

# the netlist's top is the dut instance itself (legal: any instance may be made the top)
netlist.top_instance = dut_i
top_href = HRef.from_parent_and_item(None, dut_i)
assert top_href.is_valid

names = lambda hs: sorted(h.name for h in hs)
all_hwires = list(sdn.get_hwires(netlist, recursive=True))
assert names(all_hwires) == ["a", "b"], names(all_hwires)
universe = set(all_hwires)

# nets of the elaborated design: {a} and {b} (buf is a leaf, nothing above the top instance)
for start in all_hwires:
    got = list(sdn.get_hwires(start, selection="ALL"))
    assert all(h.is_valid for h in got) and set(got) <= universe, (
        "get_hwires(<hwire %s>, ALL) returned references outside the elaborated design: %r"
        % (start.name, [(h.name, h.is_valid) for h in got])
    )
    assert set(got) == {start}, "net of %s is %r, expected only itself" % (
        start.name, names(got))

for hpin in sdn.get_hpins(top_href):          # the two port pins of the top instance
    outside = list(sdn.get_hwires(hpin, selection="OUTSIDE"))
    assert outside == [], (
        "the outside of top-level pin %s is unconnected, but OUTSIDE returned %r (valid=%r)"
        % (hpin.name, names(outside), [h.is_valid for h in outside])
    )
    inside = list(sdn.get_hwires(hpin, selection="INSIDE"))
    assert len(inside) == 1 and inside[0] in universe
    for start in (hpin, hpin.parent):
        got = set(sdn.get_hwires(start, selection="ALL"))
        assert got == set(inside), (
            "get_hwires(<%s %s>, ALL) returned %r, expected exactly %r"
            % (type(start.item).__name__, start.name, names(got), names(inside))
        )
    both = set(sdn.get_hwires(hpin, selection="BOTH"))
    assert both == set(inside), "BOTH from top-level pin %s gave %r" % (hpin.name, names(both))
print("OK")
