"""C12 demo (m1): selection ALL returns exactly the hierarchical wires joined through
instance port boundaries, to any depth - also through pass-through (wire-only) cells -
and every member of a net yields the same answer."""
import spydrnet as sdn
from spydrnet.util.hierarchical_reference import HRef

netlist = sdn.Netlist(name="n")
lib = netlist.create_library(name="work")

# leaf cell
buf = lib.create_definition(name="buf")
buf_i = buf.create_port("I", pins=1)
buf_o = buf.create_port("O", pins=1)

# pass-through cell: A and B joined by one inner wire, no children
thru = lib.create_definition(name="thru")
thru_a = thru.create_port("A", pins=1)
thru_b = thru.create_port("B", pins=1)
w = thru.create_cable(name="w").create_wire()
w.connect_pin(thru_a.pins[0])
w.connect_pin(thru_b.pins[0])

# top: IN -x- p0 -y- p1 -z- b0 -q- OUT
top = lib.create_definition(name="top")
t_in = top.create_port("IN", pins=1)
t_out = top.create_port("OUT", pins=1)
p0 = top.create_child(name="p0", reference=thru)
p1 = top.create_child(name="p1", reference=thru)
b0 = top.create_child(name="b0", reference=buf)
x = top.create_cable(name="x").create_wire()
y = top.create_cable(name="y").create_wire()
z = top.create_cable(name="z").create_wire()
q = top.create_cable(name="q").create_wire()
x.connect_pin(t_in.pins[0]); x.connect_pin(p0.pins[thru_a.pins[0]])
y.connect_pin(p0.pins[thru_b.pins[0]]); y.connect_pin(p1.pins[thru_a.pins[0]])
z.connect_pin(p1.pins[thru_b.pins[0]]); z.connect_pin(b0.pins[buf_i.pins[0]])
q.connect_pin(b0.pins[buf_o.pins[0]]); q.connect_pin(t_out.pins[0])
netlist.set_top_instance(top, instance_name="top")
top_i = netlist.top_instance

# ---- independent oracle: union-find over the elaborated design -------------------
all_hwires = list(sdn.get_hwires(netlist, recursive=True))
parent = {h: h for h in all_hwires}


def find(a):
    while parent[a] is not a:
        a = parent[a]
    return a


def hwire(hinst, wire):
    return HRef.from_parent_and_item(HRef.from_parent_and_item(hinst, wire.cable), wire)


def walk(hinst):
    yield hinst
    for child in hinst.item.reference.children:
        for sub in walk(HRef.from_parent_and_item(hinst, child)):
            yield sub


for hinst in walk(HRef.from_parent_and_item(None, top_i)):
    if hinst.parent is None:
        continue
    for outer in hinst.item.pins:
        inner = outer.inner_pin
        if outer.wire is not None and inner.wire is not None:
            a, b = find(hwire(hinst.parent, outer.wire)), find(hwire(hinst, inner.wire))
            parent[a] = b
nets = {}
for h in all_hwires:
    nets.setdefault(find(h), set()).add(h)

names = lambda hs: sorted(h.name for h in hs)
assert sorted(names(n) for n in nets.values()) == [["p0/w", "p1/w", "x", "y", "z"], ["q"]]

# ---- every member of a net must give exactly that net ----------------------------
for start in all_hwires:
    expected = nets[find(start)]
    got = list(sdn.get_hwires(start, selection="ALL"))
    assert len(got) == len(set(got)), "duplicates from %s" % start.name
    assert set(got) == expected, (
        "get_hwires(<hwire %s>, selection=ALL) returned %r but the electrically "
        "connected net is %r" % (start.name, names(got), names(expected))
    )
    # same from the hierarchical cable
    got = set(sdn.get_hwires(start.parent, selection="ALL"))
    assert got == expected, "from hcable %s: %r != %r" % (
        start.parent.name, names(got), names(expected))

# from hierarchical pins and ports too
for hpin in sdn.get_hpins(netlist, recursive=True):
    inside = list(sdn.get_hwires(hpin, selection="INSIDE"))
    outside = list(sdn.get_hwires(hpin, selection="OUTSIDE"))
    members = inside + outside
    if not members:
        continue
    expected = nets[find(members[0])]
    for start in (hpin, hpin.parent):
        got = set(sdn.get_hwires(start, selection="ALL"))
        assert got == expected, (
            "get_hwires(<%s %s>, selection=ALL) returned %r, connected net is %r"
            % (type(start.item).__name__, start.name, names(got), names(expected))
        )
print("OK")
