"""C15 demo (m2): given any text - valid or corrupted at any token - each reader
terminates (returning a netlist or raising an error), never hangs, and afterwards the
active naming policy is what it was before the call."""
import os
import signal
import tempfile
import spydrnet as sdn
from spydrnet.plugins import namespace_manager

VALID = """
module a();
endmodule

module b();
  wire w;
  leaf u1();
endmodule

module c();
  b u2();
  d u4();
endmodule

module d();
  a u3();
endmodule
"""
# one token replaced: inside module b the instantiated module name 'leaf' became 'c'
# (still lexically and syntactically fine, but now b -> c -> b is a cyclic hierarchy, and
# module d - used by c - instantiates the module that was the top so far)
CORRUPT = VALID.replace("leaf u1();", "c u1();")
assert CORRUPT != VALID

TIME_LIMIT = 20  # seconds; a normal parse of these few lines takes milliseconds


class Hang(Exception):
    pass


def on_alarm(signum, frame):
    raise Hang()


def run_reader(text):
    """returns ('netlist', n) / ('error', e); raises Hang if the reader does not terminate"""
    handle, path = tempfile.mkstemp(suffix=".v")
    os.write(handle, text.encode())
    os.close(handle)
    signal.signal(signal.SIGALRM, on_alarm)
    signal.alarm(TIME_LIMIT)
    try:
        try:
            return "netlist", sdn.parse(path)
        except Hang:
            raise
        except Exception as error:      # a clean rejection
            return "error", error
    finally:
        signal.alarm(0)
        os.unlink(path)


policy_before = namespace_manager.default

kind, netlist = run_reader(VALID)
assert kind == "netlist", "the valid text must parse: %r" % (netlist,)
assert namespace_manager.default == policy_before
assert sorted(d.name for d in netlist.libraries[0].definitions) == ["a", "b", "c", "d"]

try:
    kind, outcome = run_reader(CORRUPT)
except Hang:
    raise AssertionError(
        "the Verilog reader did not terminate within %d s on a text with one replaced "
        "token (module b instantiates c instead of leaf): it hangs" % TIME_LIMIT
    )
assert namespace_manager.default == policy_before, "naming policy not restored"
if kind == "netlist":
    # whatever is handed back must be a complete structure
    assert outcome.top_instance is not None and outcome.top_instance.reference is not None
    for definition in outcome.get_definitions():
        for instance in definition.children:
            assert instance.reference is not None and instance.parent is definition

# and the process is as good as new
kind, again = run_reader(VALID)
assert kind == "netlist" and namespace_manager.default == policy_before
print("OK")
