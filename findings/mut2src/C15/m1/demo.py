"""C15 demo (m1): EDIF references to instances that were never declared (in the cell that
refers to them) are always rejected; a reader never hands back a half-built structure; and
after a rejection the active naming policy is what it was before."""
import io
import spydrnet as sdn
from spydrnet.parsers.edif.parser import EdifParser
from spydrnet.plugins import namespace_manager

GOOD = """(edif top (edifVersion 2 0 0) (edifLevel 0) (keywordMap (keywordLevel 0))
 (library prims (edifLevel 0) (technology (numberDefinition))
  (cell BUF (cellType GENERIC) (view netlist (viewType NETLIST)
   (interface (port I (direction INPUT)) (port O (direction OUTPUT)) (port E (direction INPUT))))))
 (library work (edifLevel 0) (technology (numberDefinition))
  (cell sub (cellType GENERIC) (view netlist (viewType NETLIST)
   (interface (port a (direction INPUT)) (port y (direction OUTPUT)))
   (contents
    (instance inner_buf (viewRef netlist (cellRef BUF (libraryRef prims))))
    (net a (joined (portRef a) (portRef I (instanceRef inner_buf))))
    (net y (joined (portRef y) (portRef O (instanceRef inner_buf))))
   )))
  (cell top (cellType GENERIC) (view netlist (viewType NETLIST)
   (interface (port a (direction INPUT)) (port y (direction OUTPUT)))
   (contents
    (instance u0 (viewRef netlist (cellRef sub)))
    (net a (joined (portRef a) (portRef a (instanceRef u0))))
    (net y (joined (portRef y) (portRef y (instanceRef u0))))
   ))))
 (design top (cellRef top (libraryRef work))))
"""


def parse(text):
    parser = EdifParser.from_file_handle(io.StringIO(text))
    parser.parse()
    return parser.netlist


def well_formed(netlist):
    for lib in netlist.libraries:
        for d in lib.definitions:
            for cable in d.cables:
                for wire in cable.wires:
                    for pin in wire.pins:
                        assert pin.wire is wire
                        if isinstance(pin, sdn.OuterPin):
                            assert pin.instance.parent is d, (
                                "half-built structure: wire %s of cell %s is attached to a pin "
                                "of instance %s, which lives in cell %s"
                                % (cable.name, d.name, pin.instance.name,
                                   pin.instance.parent.name))
                        else:
                            assert pin.port.definition is d


policy_before = namespace_manager.default
netlist = parse(GOOD)
well_formed(netlist)
assert namespace_manager.default == policy_before
assert [i.name for i in netlist.top_instance.reference.children] == ["u0"]

# single corruptions: the instanceRef of top's net 'y' names an instance that top never declared
corruptions = {
    "instance of a child cell": "(portRef y (instanceRef inner_buf))",   # exists only inside 'sub'
    "unknown instance": "(portRef y (instanceRef u7))",
    "the cell's own name": "(portRef y (instanceRef top))",
}
for label, replacement in corruptions.items():
    port = "E" if "inner_buf" in replacement else "y"   # BUF.E is left open inside 'sub'
    bad = GOOD.replace("(portRef y (instanceRef u0))", replacement.replace("portRef y", "portRef " + port))
    assert bad != GOOD
    try:
        result = parse(bad)
    except Exception as error:            # rejected: fine
        result = None
    assert namespace_manager.default == policy_before, "naming policy not restored"
    if result is not None:
        well_formed(result)               # raises with the details if half-built
        raise AssertionError(
            "EDIF text whose (instanceRef ...) names an instance never declared in the cell "
            "[%s] was accepted" % label)
# later parses in the same process behave as in a fresh one
well_formed(parse(GOOD))
print("OK")
