"""C11 demo (m2): hierarchical queries return exactly one reference per occurrence
- no omissions and NO DUPLICATES - for every kind of query root."""
import spydrnet as sdn
from spydrnet.util.hierarchical_reference import HRef

netlist = sdn.Netlist(name="n")
lib = netlist.create_library(name="work")

leaf = lib.create_definition(name="leaf")          # leaf cell, no cables
mid = lib.create_definition(name="mid")            # shared, instanced twice
mid.create_cable(name="mc").create_wire()
mid.create_child(name="l0", reference=leaf)
top = lib.create_definition(name="top")
top.create_cable(name="tc").create_wires(2)
top.create_child(name="m0", reference=mid)
top.create_child(name="m1", reference=mid)
netlist.set_top_instance(top, instance_name="top")
top_i = netlist.top_instance

# ground truth: one hierarchical cable per (instance path, cable) in the elaborated design
expected = sorted(["tc", "m0/mc", "m1/mc"])


def names(hrefs):
    return sorted(h.name for h in hrefs)


def check(label, hrefs, expect):
    hrefs = list(hrefs)
    assert len(hrefs) == len(set(hrefs)), (
        "%s returned the same occurrence more than once: %r" % (label, names(hrefs))
    )
    assert names(hrefs) == expect, "%s returned %r, expected exactly %r" % (
        label, names(hrefs), expect)
    assert all(h.is_valid for h in hrefs), label + ": invalid reference returned"


check("get_hcables(netlist, recursive=True)",
      sdn.get_hcables(netlist, recursive=True), expected)
check("get_hcables(top_instance, recursive=True)",
      sdn.get_hcables(top_i, recursive=True), expected)
check("get_hcables(top definition, recursive=True)",
      sdn.get_hcables(top, recursive=True), expected)
check("get_hcables(mid definition)", sdn.get_hcables(mid), ["m0/mc", "m1/mc"])
# a library root reaches 'mid' both as a definition of the library and as a child of 'top'
check("get_hcables(library, recursive=True)",
      sdn.get_hcables(lib, recursive=True), expected)
check("get_hcables(library, recursive=False)",
      sdn.get_hcables(lib, recursive=False), expected)
# a collection of roots of different kinds that overlap
check("get_hcables([netlist, mid definition], recursive=True)",
      sdn.get_hcables([netlist, mid], recursive=True), expected)
m0_href = HRef.from_sequence([top_i, top.children[0]])
check("get_hcables([href(top), instance m0], recursive=True)",
      sdn.get_hcables([HRef.from_sequence([top_i]), top.children[0]], recursive=True),
      expected)
print("OK")
