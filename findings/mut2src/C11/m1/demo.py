"""C11 demo (m1): a hierarchical reference must report invalid, in agreement with
the current netlist, after an edit that breaks its path."""
import spydrnet as sdn
from spydrnet.util.hierarchical_reference import HRef


def build():
    netlist = sdn.Netlist(name="n")
    lib = netlist.create_library(name="work")
    leaf = lib.create_definition(name="leaf")
    top = lib.create_definition(name="top")
    u0 = top.create_child(name="u0", reference=leaf)
    cable = top.create_cable(name="c")
    wire = cable.create_wire()
    top_i = sdn.Instance(name="top_i")
    top_i.reference = top
    netlist.top_instance = top_i
    return netlist, lib, top, leaf, top_i, u0, cable, wire


def check_all_invalid(what, hrefs):
    for href in hrefs:
        assert href.is_valid is False, (
            "after %s the reference %r (path no longer in the elaborated design) "
            "still reports is_valid=True" % (what, href)
        )
        assert href.is_unique is False, (
            "after %s the broken reference %r still reports is_unique=True" % (what, href)
        )
    root = hrefs[0]
    for query in (sdn.get_hinstances, sdn.get_hcables, sdn.get_hwires):
        found = list(query(root, recursive=True))
        assert found == [], (
            "after %s %s(<stale reference>) still enumerates occurrences: %r"
            % (what, query.__name__, found)
        )


def refs(top_i, u0, cable, wire):
    return [
        HRef.from_sequence([top_i]),
        HRef.from_sequence([top_i, u0]),
        HRef.from_sequence([top_i, cable]),
        HRef.from_sequence([top_i, cable, wire]),
    ]


# baseline: everything valid, one reference per occurrence
netlist, lib, top, leaf, top_i, u0, cable, wire = build()
hrefs = refs(top_i, u0, cable, wire)
assert all(h.is_valid for h in hrefs), "fresh references must be valid"
assert [h.name for h in sdn.get_hinstances(netlist)] == ["u0"]

# edit 1: the library that holds the design is taken out of the netlist
netlist.remove_library(lib)
check_all_invalid("netlist.remove_library(lib)", hrefs)

# edit 2: the top definition is removed from its library
netlist, lib, top, leaf, top_i, u0, cable, wire = build()
hrefs = refs(top_i, u0, cable, wire)
lib.remove_definition(top)
check_all_invalid("library.remove_definition(top)", hrefs)

# edit 3: another instance is made the top through set_top_instance()
netlist, lib, top, leaf, top_i, u0, cable, wire = build()
hrefs = refs(top_i, u0, cable, wire)
other = sdn.Instance(name="other_top")
other.reference = top
netlist.set_top_instance(other)
assert netlist.top_instance is other
check_all_invalid("netlist.set_top_instance(other)", hrefs)
new_root = HRef.from_sequence([other])
assert new_root.is_valid, "the reference to the new top instance must be valid"
assert [h.name for h in sdn.get_hinstances(netlist)] == ["u0"], (
    "get_hinstances(netlist) must enumerate the one occurrence below the new top instance"
)

print("OK")
