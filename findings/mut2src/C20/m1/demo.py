"""C20 demo (m1): comparing a netlist with a faithful copy (clone) never raises, and comparing it with
a copy that differs in a port's direction always raises -- for every pair of distinct directions."""
import sys

import spydrnet as sdn
from spydrnet.compare.compare_netlists import Comparer

DIRECTIONS = [sdn.IN, sdn.OUT, sdn.INOUT, sdn.UNDEFINED]


def build(direction_of_x):
    nl = sdn.Netlist(name="n")
    prims = nl.create_library("prims")
    buf = prims.create_definition("BUF")
    pi = buf.create_port("I", direction=sdn.IN, pins=1)
    po = buf.create_port("O", direction=sdn.OUT, pins=1)
    work = nl.create_library("work")
    top = work.create_definition("top")
    a = top.create_port("a", direction=sdn.IN, pins=1)
    x = top.create_port("x", direction=direction_of_x, pins=2)
    u = top.create_child("u0", reference=buf)
    ca = top.create_cable("a", wires=1)
    cx = top.create_cable("x", wires=2)
    ca.wires[0].connect_pin(a.pins[0]); ca.wires[0].connect_pin(u.pins[pi.pins[0]])
    cx.wires[0].connect_pin(x.pins[0]); cx.wires[0].connect_pin(u.pins[po.pins[0]])
    cx.wires[1].connect_pin(x.pins[1])
    nl.top_instance = sdn.Instance(name="top")
    nl.top_instance.reference = top
    return nl


def raises(orig, copy):
    try:
        Comparer(orig, copy).run()
    except Exception:
        return True
    return False


problems = []
for before in DIRECTIONS:
    orig = build(before)
    if raises(orig, orig.clone()):
        problems.append("faithful clone rejected (port x %s)" % before)
    for after in DIRECTIONS:
        if after is before:
            continue
        copy = orig.clone()
        port = next(copy.get_ports("x"))
        port.direction = after                           # the single structural mutation
        if not raises(orig, copy):
            problems.append("port top.x changed from %s to %s in the copy: comparer accepted the copy" % (before, after))

if problems:
    print("VIOLATION of C20 (a copy that differs in a port's direction must always be rejected):")
    for p in problems:
        print("  -", p)
    sys.exit(1)
print("OK: clones accepted, all %d direction changes rejected" % (len(DIRECTIONS) * (len(DIRECTIONS) - 1)))
