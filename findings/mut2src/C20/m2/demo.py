"""C20 demo (m2): comparing a netlist with a clone never raises, and comparing it with a copy in which
ONE connection was moved to another bit of the same port (of the same instance, or of the top-level
port) always raises."""
import sys

import spydrnet as sdn
from spydrnet.compare.compare_netlists import Comparer

WIDTH = 3


def build():
    nl = sdn.Netlist(name="n")
    prims = nl.create_library("prims")
    reg = prims.create_definition("REG")
    d = reg.create_port("d", direction=sdn.IN, pins=WIDTH + 1)      # one spare, unconnected bit
    q = reg.create_port("q", direction=sdn.OUT, pins=WIDTH + 1)
    work = nl.create_library("work")
    top = work.create_definition("top")
    pin_ = top.create_port("din", direction=sdn.IN, pins=WIDTH + 1)
    pout = top.create_port("dout", direction=sdn.OUT, pins=WIDTH + 1)
    u0 = top.create_child("u0", reference=reg)
    u1 = top.create_child("u1", reference=reg)
    cin = top.create_cable("din", wires=WIDTH + 1)
    mid = top.create_cable("mid", wires=WIDTH + 1)
    cout = top.create_cable("dout", wires=WIDTH + 1)
    for k in range(WIDTH):
        cin.wires[k].connect_pin(pin_.pins[k]); cin.wires[k].connect_pin(u0.pins[d.pins[k]])
        mid.wires[k].connect_pin(u0.pins[q.pins[k]]); mid.wires[k].connect_pin(u1.pins[d.pins[k]])
        cout.wires[k].connect_pin(u1.pins[q.pins[k]]); cout.wires[k].connect_pin(pout.pins[k])
    nl.top_instance = sdn.Instance(name="top")
    nl.top_instance.reference = top
    return nl


def raises(orig, copy):
    try:
        Comparer(orig, copy).run()
    except Exception:
        return True
    return False


def connected_pins(netlist):
    """(label, pin, spare pin of the same port) for every connected pin of the top definition"""
    top = netlist.top_instance.reference
    out = []
    for port in top.ports:
        for k, pin in enumerate(port.pins):
            if pin.wire is not None:
                out.append(("top-level port %s[%d]" % (port.name, k), pin, port.pins))
    for inst in top.children:
        for port in inst.reference.ports:
            outer = [inst.pins[p] for p in port.pins]
            for k, pin in enumerate(outer):
                if pin.wire is not None:
                    out.append(("%s.%s[%d]" % (inst.name, port.name, k), pin, outer))
    return out


orig = build()
problems = []
if raises(orig, orig.clone()):
    problems.append("faithful clone rejected")

count = 0
for position in range(len(connected_pins(orig))):
    for target_bit in range(WIDTH + 1):
        copy = orig.clone()
        label, pin, siblings = connected_pins(copy)[position]
        target = siblings[target_bit]
        if target is pin:
            continue
        # move this one connection to another bit of the same port; if that bit is in use, the two swap
        wire = pin.wire
        other_wire = target.wire
        wire.disconnect_pin(pin)
        if other_wire is not None:
            other_wire.disconnect_pin(target)
            other_wire.connect_pin(pin)
        wire.connect_pin(target)
        count += 1
        if not raises(orig, copy):
            problems.append("connection of %s moved to bit %d of the same port: comparer accepted the copy"
                            % (label, target_bit))

if problems:
    print("VIOLATION of C20 (which bit a net touches is examined; %d of %d moved connections went unnoticed):"
          % (len([p for p in problems if "moved" in p]), count))
    for p in problems[:12]:
        print("  -", p)
    if len(problems) > 12:
        print("  - ... and %d more" % (len(problems) - 12))
    sys.exit(1)
print("OK: clone accepted, all %d single moved connections rejected" % count)
