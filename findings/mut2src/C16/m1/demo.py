"""C16 demo (m1): composing the same netlist again produces the same text, and the
output file is complete when the call returns -- also when the output path already
holds an older, longer file."""
import os
import sys
import tempfile
from pathlib import Path

import spydrnet as sdn

netlist = sdn.parse(Path(sdn.example_netlists_path, "eblif_netlists", "toggle.eblif.zip"))

with tempfile.TemporaryDirectory() as tmp:
    fresh = os.path.join(tmp, "fresh.eblif")
    reused = os.path.join(tmp, "reused.eblif")

    # reference text: the netlist composed (without black boxes) to a path that does not exist
    sdn.compose(netlist, fresh, write_blackbox=False)
    reference = open(fresh).read()

    # the second path already holds an earlier, longer export (with the black-box models)
    sdn.compose(netlist, reused, write_blackbox=True)
    assert len(open(reused).read()) > len(reference)

    # composing the same netlist again, same options, must give the same text
    sdn.compose(netlist, reused, write_blackbox=False)
    again = open(reused).read()

    if again != reference:
        extra = again[len(reference):] if again.startswith(reference) else again
        print("VIOLATION of C16: composing the same netlist again did not produce the same text;")
        print("the output file is not the complete, self-contained export: %d stale characters "
              "of the previous file follow the new text, e.g. %r" % (len(again) - len(reference), extra[:60]))
        sys.exit(1)

    # and the result must still be readable and equal in content
    reread = sdn.parse(reused)
    assert sorted(i.name for i in reread.get_instances()) == sorted(i.name for i in netlist.get_instances())
print("OK: repeated EBLIF export gives identical, complete text")
