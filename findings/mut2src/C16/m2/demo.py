"""C16 demo (m2): composing a netlist (here to EBLIF) leaves its user data as they were.
The netlist does not come from the EBLIF parser (it is a Verilog design, and a second one is built
with the API), so its instances carry no EBLIF.* metadata before the export."""
import copy
import os
import sys
import tempfile
from pathlib import Path

import spydrnet as sdn


def snapshot(netlist):
    """names + a deep copy of the data dictionary of every instance, keyed by position"""
    snap = {}
    for lib in netlist.libraries:
        for definition in lib.definitions:
            for k, inst in enumerate(definition.children):
                snap[(lib.name, definition.name, k)] = (inst.name, copy.deepcopy(dict(inst.data)))
    return snap


def api_netlist():
    nl = sdn.Netlist(name="api")
    prims = nl.create_library("hdi_primitives")
    buf = prims.create_definition("BUF")
    pi = buf.create_port("I", direction=sdn.IN, pins=1)
    po = buf.create_port("O", direction=sdn.OUT, pins=1)
    work = nl.create_library("work")
    top = work.create_definition("top")
    a = top.create_port("a", direction=sdn.IN, pins=1)
    y = top.create_port("y", direction=sdn.OUT, pins=1)
    u = top.create_child("u0", reference=buf)
    ca = top.create_cable("a", wires=1)
    cy = top.create_cable("y", wires=1)
    ca.wires[0].connect_pin(a.pins[0]); ca.wires[0].connect_pin(u.pins[pi.pins[0]])
    cy.wires[0].connect_pin(y.pins[0]); cy.wires[0].connect_pin(u.pins[po.pins[0]])
    nl.top_instance = sdn.Instance(name="top")
    nl.top_instance.reference = top
    return nl


failures = []
with tempfile.TemporaryDirectory() as tmp:
    designs = {
        "4bitadder (parsed from Verilog)": sdn.parse(
            Path(sdn.example_netlists_path, "verilog_netlists", "4bitadder.v.zip")),
        "api-built netlist": api_netlist(),
    }
    for label, nl in designs.items():
        before = snapshot(nl)
        out = os.path.join(tmp, "out.eblif")
        sdn.compose(nl, out)
        first = open(out).read()
        after = snapshot(nl)
        changed = [(k, before[k], after[k]) for k in before if before[k] != after[k]]
        if changed:
            k, b, a = changed[0]
            added = {key: a[1][key] for key in a[1] if key not in b[1]}
            failures.append("%s: composing to EBLIF changed the user data of %d instance(s); e.g. instance %r "
                            "in %s.%s gained %r" % (label, len(changed), b[0], k[0], k[1], added))
        sdn.compose(nl, out)
        assert open(out).read() == first, "second export differs"

if failures:
    print("VIOLATION of C16 (writing a netlist must leave its user data as they were):")
    for f in failures:
        print("  -", f)
    sys.exit(1)
print("OK: EBLIF export left all instance data untouched")
