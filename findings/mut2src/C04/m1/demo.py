"""C04 demo (m1): Verilog write-then-read of a module whose header port is an alias of the bits of a
wire that carries the SAME name as the port, in a different bit order.

Property clause: writing and parsing again gives "the same bit-level connections, including
part-selects, concatenations, ... aliased header ports".
"""
import os
import sys
import tempfile
import spydrnet as sdn

SRC = """
module swap(.d({d[0], d[1], d[2]}), .e({p, q}), y);
  input [2:0] d;
  input p;
  input q;
  output [4:0] y;
  assign y[2:0] = d;
  assign y[3] = q;
  assign y[4] = p;
endmodule

module top(a, b, o);
  input [2:0] a;
  input [1:0] b;
  output [4:0] o;
  swap u0 (.d(a), .e(b), .y(o));
endmodule
"""


def port_bits(netlist):
    """module -> port -> list (per pin index) of the wire bit the pin is joined to inside the module"""
    out = {}
    for lib in netlist.libraries:
        if lib.name == "SDN_VERILOG_ASSIGNMENT":
            continue
        for d in lib.definitions:
            for p in d.ports:
                bits = []
                for pin in p.pins:
                    w = pin.wire
                    bits.append(None if w is None else (w.cable.name, w.cable.lower_index + w.cable.wires.index(w)))
                out[(d.name, p.name)] = (p.direction.name, len(p.pins), p.lower_index, bits)
    return out


tmp = tempfile.mkdtemp()
f = os.path.join(tmp, "in.v")
g = os.path.join(tmp, "out.v")
with open(f, "w") as fh:
    fh.write(SRC)
first = sdn.parse(f)
expected = port_bits(first)
# the reader honours the alias: port bit 2 of d is wire d[0], port bit 0 is wire d[2]
assert expected[("swap", "d")][3] == [("d", 2), ("d", 1), ("d", 0)], expected[("swap", "d")]
assert expected[("swap", "e")][3] == [("q", 0), ("p", 0)], expected[("swap", "e")]

sdn.compose(first, g)
second = sdn.parse(g)
got = port_bits(second)
for key in sorted(expected):
    assert got.get(key) == expected[key], (
        "after Verilog write-then-read the aliased header port %s.%s is joined to different bits:\n"
        "  before: %r\n  after : %r" % (key[0], key[1], expected[key], got.get(key)))
print("OK: aliased header ports keep their bit-level connections through Verilog write-then-read")
sys.exit(0)
