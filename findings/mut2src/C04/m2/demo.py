"""C04 demo (m2): Verilog write-then-read must return the same wires, also the ones nothing is
connected to (declared-but-unused wires, and the emptied port nets that flatten leaves behind).

Property clause: "writing it as Verilog and parsing the result gives the same modules, port
directions/widths/base indices, wires, instances ..." for netlists obtained by parsing and "then
optionally transformed by uniquify/flatten/clone".
"""
import os
import sys
import tempfile
import spydrnet as sdn
from spydrnet.uniquify import uniquify
from spydrnet.flatten import flatten

SRC = """
module sub(i, o);
  input [1:0] i;
  output [1:0] o;
  wire [1:0] t;
  buf2 b0 (.A(i), .Y(t));
  buf2 b1 (.A(t), .Y(o));
endmodule

module top(a, y);
  input [1:0] a;
  output [1:0] y;
  wire spare;
  wire [7:4] spare_bus;
  wire [1:0] m;
  sub u0 (.i(a), .o(m));
  sub u1 (.i(m), .o(y));
endmodule
"""


def wires(netlist):
    out = {}
    for lib in netlist.libraries:
        for d in lib.definitions:
            if lib.name == "hdi_primitives":
                continue  # black boxes: only their interface matters
            out[d.name] = sorted((c.name.lstrip("\\").strip(), len(c.wires), c.lower_index) for c in d.cables)
    return out


def roundtrip(netlist, label, only=None):
    expected = wires(netlist)
    if only is not None:  # the hollowed-out sub-modules that flatten leaves behind are not of interest
        expected = {k: v for k, v in expected.items() if k in only}
    path = os.path.join(tempfile.mkdtemp(), "out.v")
    sdn.compose(netlist, path)
    back = sdn.parse(path)
    got = wires(back)
    for mod in sorted(expected):
        missing = [c for c in expected[mod] if c not in got.get(mod, [])]
        assert not missing, (
            "%s: module %s lost wires in Verilog write-then-read: %r" % (label, mod, missing))
        assert got[mod] == expected[mod], "%s: module %s has different wires: %r vs %r" % (
            label, mod, expected[mod], got[mod])


tmp = tempfile.mkdtemp()
f = os.path.join(tmp, "in.v")
with open(f, "w") as fh:
    fh.write(SRC)

n = sdn.parse(f)
assert ("spare", 1, 0) in wires(n)["top"] and ("spare_bus", 4, 4) in wires(n)["top"]
roundtrip(n, "as parsed")

n = sdn.parse(f)
uniquify(n)
flatten(n)
assert ("u0/t", 2, 0) in wires(n)["top"], wires(n)["top"]
roundtrip(n, "after uniquify+flatten", only={"top"})
print("OK: Verilog write-then-read returned the same wires (including unconnected ones)")
sys.exit(0)
