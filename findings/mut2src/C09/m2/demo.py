"""C09 demo (m2): flatten must also handle nets that stop at an unconnected port (a port bit that
is wired inside the cell but left open outside, or wired outside but unused inside): no trace of
the dissolved hierarchical instance may remain and the netlist stays well-formed."""
import os
import sys

sys.path.insert(0, os.getcwd())
import spydrnet as sdn
from spydrnet.uniquify import uniquify
from spydrnet.flatten import flatten

def is_leaf(definition):
    return len(definition.children) == 0 and len(definition.cables) == 0


def elaborate(netlist):
    """({leaf path: leaf definition name}, nets as sets of endpoints) seen from the top instance.
    Endpoints are (instance path, port name, bit) of leaf pins and of top-level port bits."""
    parent = {}

    def find(x):
        parent.setdefault(x, x)
        while parent[x] != x:
            parent[x] = parent[parent[x]]
            x = parent[x]
        return x

    def union(a, b):
        parent[find(a)] = find(b)

    leaves = {}
    endpoints = set()

    def walk(instance, path):
        definition = instance.reference
        leaf = is_leaf(definition) and path != ()
        if leaf or path == ():
            for port in definition.ports:
                for k in range(len(port.pins)):
                    endpoints.add(("/".join(path), port.name, k))
        if leaf:
            leaves["/".join(path)] = definition.name
            return
        for cable in definition.cables:
            for k, wire in enumerate(cable.wires):
                node = ("wire", path, cable.name, k)
                for pin in wire.pins:
                    if isinstance(pin, sdn.OuterPin):
                        inner = pin.inner_pin
                        union(node, ("/".join(path + (pin.instance.name,)), inner.port.name,
                                     inner.port.pins.index(inner)))
                    else:
                        union(node, ("/".join(path), pin.port.name, pin.port.pins.index(pin)))
        for child in definition.children:
            walk(child, path + (child.name,))

    walk(netlist.top_instance, ())
    groups = {}
    for e in endpoints:
        groups.setdefault(find(e), set()).add(e)
    return leaves, frozenset(frozenset(g) for g in groups.values())


def check_wellformed_flat(netlist):
    """the top definition contains only leaf instances and every link stays inside it"""
    top = netlist.top_instance.reference
    children = set(top.children)
    for child in top.children:
        assert child.parent is top
        assert is_leaf(child.reference), "C09 violated: hierarchical instance %r remains" % child.name
        for outer in child.pins.values():
            if outer.wire is not None:
                assert outer in outer.wire.pins
                assert outer.wire.cable.definition is top, (
                    "C09 violated (well-formedness): pin %s.%s of the flattened design is connected to wire of "
                    "cable %r that does not belong to the top definition (it belongs to %r)"
                    % (child.name, outer.inner_pin.port.name, outer.wire.cable.name,
                       getattr(outer.wire.cable.definition, "name", None))
                )
    for cable in top.cables:
        assert cable.definition is top
        for wire in cable.wires:
            for pin in wire.pins:
                assert pin.wire is wire
                if isinstance(pin, sdn.OuterPin):
                    assert pin.instance in children, (
                        "C09 violated (well-formedness): wire of top-level cable %r still holds a pin of "
                        "instance %r, which is not a child of the top definition" % (cable.name, pin.instance.name)
                    )
                else:
                    assert pin.port.definition is top, (
                        "C09 violated (well-formedness): wire of top-level cable %r still holds an inner pin of "
                        "port %r of definition %r, which is not the top definition"
                        % (cable.name, pin.port.name, pin.port.definition.name)
                    )


def build():
    netlist = sdn.Netlist(name="design")
    lib = netlist.create_library(name="work")
    buf = lib.create_definition(name="BUF")
    buf.create_port(name="I", direction=sdn.IN).create_pin()
    buf.create_port(name="O", direction=sdn.OUT).create_pin()
    i_pin, o_pin = buf.ports[0].pins[0], buf.ports[1].pins[0]

    # cell: a -> b0 -> y ; 'dbg' is driven inside (tap of y) but left open by the parent;
    #       'spare' is connected by the parent but not used inside
    cell = lib.create_definition(name="cell")
    p_a = cell.create_port(name="a", direction=sdn.IN).create_pin()
    p_y = cell.create_port(name="y", direction=sdn.OUT).create_pin()
    p_dbg = cell.create_port(name="dbg", direction=sdn.OUT).create_pin()
    p_spare = cell.create_port(name="spare", direction=sdn.IN).create_pin()
    b0 = cell.create_child(name="b0", reference=buf)
    w_a = cell.create_cable(name="a").create_wire()
    w_y = cell.create_cable(name="y").create_wire()
    w_a.connect_pin(p_a); w_a.connect_pin(b0.pins[i_pin])
    w_y.connect_pin(b0.pins[o_pin]); w_y.connect_pin(p_y); w_y.connect_pin(p_dbg)

    top = lib.create_definition(name="top")
    t_in = top.create_port(name="in", direction=sdn.IN).create_pin()
    t_out = top.create_port(name="out", direction=sdn.OUT).create_pin()
    c0 = top.create_child(name="c0", reference=cell)
    sink = top.create_child(name="sink", reference=buf)
    n_in = top.create_cable(name="in").create_wire()
    n_out = top.create_cable(name="out").create_wire()
    n_in.connect_pin(t_in); n_in.connect_pin(c0.pins[p_a]); n_in.connect_pin(c0.pins[p_spare])
    n_out.connect_pin(c0.pins[p_y]); n_out.connect_pin(sink.pins[i_pin]); n_out.connect_pin(t_out)
    # c0.dbg is left unconnected
    netlist.set_top_instance(top, instance_name="top")
    return netlist


def main():
    netlist = build()
    uniquify(netlist)
    leaves_before, nets_before = elaborate(netlist)

    flatten(netlist)

    top = netlist.top_instance.reference
    assert sorted(c.name for c in top.children) == sorted(leaves_before) == ["c0/b0", "sink"]
    leaves_after, nets_after = elaborate(netlist)
    assert leaves_after == leaves_before, "C09 violated: leaf occurrences differ"
    assert nets_after == nets_before, "C09 violated: connectivity changed"
    check_wellformed_flat(netlist)
    print("OK: flatten preserved leaf instances, connectivity and well-formedness")


if __name__ == "__main__":
    main()
