"""C06 demo (m2): attributes written as several (* ... *) groups in front of a module
must all be represented on the definition (VERILOG.InlineConstraints)."""
import os
import sys
import tempfile

sys.path.insert(0, os.getcwd())
import spydrnet as sdn

SRC = """\
// two attribute groups in front of the same module (the way Vivado writes them)
(* STRUCTURAL_NETLIST = "yes" *)
(* ECO_CHECKSUM = "abcd1234", keep_hierarchy *)
module top (input a, output y);
  (* DONT_TOUCH *) (* BEL = "A6LUT" *) BUF b0 (.I(a), .O(y));
endmodule

(* ORIG_REF_NAME = "helper" *)
module helper (input p);
endmodule
"""

EXPECTED_TOP = {"STRUCTURAL_NETLIST": '"yes"', "ECO_CHECKSUM": '"abcd1234"', "keep_hierarchy": None}
EXPECTED_HELPER = {"ORIG_REF_NAME": '"helper"'}
EXPECTED_B0 = {"DONT_TOUCH": None, "BEL": '"A6LUT"'}


def main():
    with tempfile.TemporaryDirectory() as d:
        path = os.path.join(d, "attrs.v")
        with open(path, "w") as f:
            f.write(SRC)
        netlist = sdn.parse(path)

    top = next(netlist.get_definitions("top"))
    helper = next(netlist.get_definitions("helper"))
    b0 = next(netlist.get_instances("b0"))

    got_top = dict(top.data.get("VERILOG.InlineConstraints", {}))
    got_helper = dict(helper.data.get("VERILOG.InlineConstraints", {}))
    got_b0 = dict(b0.data.get("VERILOG.InlineConstraints", {}))

    assert got_b0 == EXPECTED_B0, "instance attributes wrong: %r" % (got_b0,)
    assert got_helper == EXPECTED_HELPER, (
        "attributes of module 'helper' are not represented as documented: %r" % (got_helper,)
    )
    assert got_top == EXPECTED_TOP, (
        "C06 violated: the source gives module 'top' the attributes %r but the reader "
        "represents only %r" % (EXPECTED_TOP, got_top)
    )
    print("OK: all module attributes are represented")


if __name__ == "__main__":
    main()
