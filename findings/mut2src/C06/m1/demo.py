"""C06 demo (m1): a connection expression joins bit k of the expression, counted from its
least significant end, to bit k of the instance port - for named and positional port maps
alike, also when the expression is narrower than the port."""
import os
import sys
import tempfile

sys.path.insert(0, os.getcwd())
import spydrnet as sdn

SRC = """\
module top (input [3:0] a, input b, output [3:0] y, output [3:0] z);
  wire [5:2] w;
  // the same connections once by name and once by position
  cell named_full  (.p(a), .q(y));
  cell pos_full    (a, z);
  cell named_part  (.p(a[1:0]), .q({b, w[3:2]}));
  cell pos_part    (a[1:0], {b, w[3:2]});
  cell pos_single  (b, w[5]);
endmodule

module cell (input [3:0] p, output [3:0] q);
endmodule
"""


def connections(instance):
    """{(port name, bit k): (cable name, index)} for the connected pins of an instance"""
    result = {}
    for inner, outer in instance.pins.items():
        port = inner.port
        wire = outer.wire
        if wire is not None:
            cable = wire.cable
            result[(port.name, port.pins.index(inner) + port.lower_index)] = (
                cable.name,
                cable.wires.index(wire) + cable.lower_index,
            )
    return result


def main():
    with tempfile.TemporaryDirectory() as d:
        path = os.path.join(d, "positional.v")
        with open(path, "w") as f:
            f.write(SRC)
        netlist = sdn.parse(path)

    inst = {i.name: i for i in netlist.top_instance.reference.children}
    full_p = {("p", k): ("a", k) for k in range(4)}
    part = {
        ("p", 0): ("a", 0),
        ("p", 1): ("a", 1),
        ("q", 0): ("w", 2),
        ("q", 1): ("w", 3),
        ("q", 2): ("b", 0),
    }
    expected = {
        "named_full": {**full_p, **{("q", k): ("y", k) for k in range(4)}},
        "pos_full": {**full_p, **{("q", k): ("z", k) for k in range(4)}},
        "named_part": part,
        "pos_part": part,
        "pos_single": {("p", 0): ("b", 0), ("q", 0): ("w", 5)},
    }
    for name, want in expected.items():
        got = connections(inst[name])
        assert got == want, (
            "C06 violated: instance %s: bit k of each expression (from its least significant "
            "end) must join bit k of the port.\n  expected %r\n  got      %r" % (name, want, got)
        )
    print("OK: named and positional port maps connect bit k to bit k")


if __name__ == "__main__":
    main()
