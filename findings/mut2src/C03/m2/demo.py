"""C03 demo (m2): EDIF write-then-read of an API-built netlist whose names start with '_'.

Property clauses: "the file written is always accepted by the reader" and write-then-read yields
"the same libraries, cells, ports ..., instances ..., nets ... and the same original names", for
all netlists built through the API in which every element is named.
"""
import os
import sys
import tempfile
import spydrnet as sdn

netlist = sdn.Netlist("design")
prims = netlist.create_library("prims")
buf = prims.create_definition("_BUF")            # leading underscore: legal name, not a legal EDIF identifier
bi = buf.create_port("_i", direction=sdn.IN, pins=1)
bo = buf.create_port("o", direction=sdn.OUT, pins=1)
work = netlist.create_library("work")
top = work.create_definition("top")
din = top.create_port("din", direction=sdn.IN, pins=1)
dout = top.create_port("dout", direction=sdn.OUT, pins=1)
u = top.create_child("_u0", reference=buf)
n1 = top.create_cable("_n_in", wires=1)
n1.wires[0].connect_pin(din.pins[0])
n1.wires[0].connect_pin(u.pins[bi.pins[0]])
n2 = top.create_cable("n_out", wires=1)
n2.wires[0].connect_pin(u.pins[bo.pins[0]])
n2.wires[0].connect_pin(dout.pins[0])
netlist.top_instance = sdn.Instance("top_i")
netlist.top_instance.reference = top


def summary(nl):
    out = [("top", nl.top_instance.reference.name)]
    for lib in nl.libraries:
        for d in lib.definitions:
            out.append(("cell", lib.name, d.name, [(p.name, p.direction, len(p.pins)) for p in d.ports]))
            for c in d.children:
                out.append(("instance", d.name, c.name, c.reference.name, c.reference.library.name))
            for cab in d.cables:
                out.append(("net", d.name, cab.name, tuple(
                    (p.instance.name, p.inner_pin.port.name) if isinstance(p, sdn.OuterPin)
                    else ("", p.port.name) for w in cab.wires for p in w.pins)))
    return out


expected = summary(netlist)
path = os.path.join(tempfile.mkdtemp(), "out.edf")
sdn.compose(netlist, path)
try:
    back = sdn.parse(path)
except Exception as e:  # noqa
    raise AssertionError(
        "the EDIF file written by the composer is NOT accepted by the reader: %s: %s" % (type(e).__name__, e))
got = summary(back)
assert got == expected, "netlist read back differs from the one written:\n%r\n%r" % (expected, got)
for d in (back.libraries[0].definitions[0],):
    assert d["EDIF.identifier"][0].isalpha() or d["EDIF.identifier"][0] == "&"
print("OK: EDIF write-then-read returned the same netlist (names with a leading underscore)")
sys.exit(0)
