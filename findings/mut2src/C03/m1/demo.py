"""C03 demo (m1): EDIF write-then-read with cells declared in "use before definition" order.

Property clauses: "the file written is always accepted by the reader" and write-then-read "yields a
netlist with the same libraries, cells, ... instances (name, referenced cell and library)" for
"any hierarchy depth ... any library/cell declaration order".
"""
import os
import sys
import tempfile
import spydrnet as sdn


def build(k, n_mid=6):
    netlist = sdn.Netlist("design%d" % k)
    work = netlist.create_library("work")
    # declaration order: top first, then the middle cells, the shared leaf last
    top = work.create_definition("top")
    mids = [work.create_definition("mid%d" % i) for i in range(n_mid)]
    leaf = work.create_definition("leaf")
    lp = leaf.create_port("a", direction=sdn.IN, pins=1)
    for m in mids:
        mp = m.create_port("a", direction=sdn.IN, pins=1)
        u = m.create_child("u_leaf", reference=leaf)
        w = m.create_cable("n", wires=1).wires[0]
        w.connect_pin(mp.pins[0])
        w.connect_pin(u.pins[lp.pins[0]])
    tp = top.create_port("a", direction=sdn.IN, pins=1)
    w = top.create_cable("n", wires=1).wires[0]
    w.connect_pin(tp.pins[0])
    u = top.create_child("u_leaf", reference=leaf)
    w.connect_pin(u.pins[lp.pins[0]])
    for i, m in enumerate(mids):
        u = top.create_child("u_mid%d" % i, reference=m)
        w.connect_pin(u.pins[m.ports[0].pins[0]])
    netlist.top_instance = sdn.Instance("top_i")
    netlist.top_instance.reference = top
    return netlist


def summary(netlist):
    out = {}
    for lib in netlist.libraries:
        for d in lib.definitions:
            out[(lib.name, d.name)] = (
                [(p.name, len(p.pins), p.direction) for p in d.ports],
                sorted((c.name, c.reference.name, c.reference.library.name) for c in d.children),
                sorted(
                    (cab.name, tuple(
                        tuple((p.instance.name, p.inner_pin.port.name) if isinstance(p, sdn.OuterPin)
                              else ("", p.port.name) for p in wire.pins) for wire in cab.wires))
                    for cab in d.cables),
            )
    return out, netlist.top_instance.reference.name


tmp = tempfile.mkdtemp()
for k in range(8):
    netlist = build(k)
    expected = summary(netlist)
    path = os.path.join(tmp, "t%d.edf" % k)
    sdn.compose(netlist, path)
    try:
        back = sdn.parse(path)
    except Exception as e:  # noqa
        raise AssertionError(
            "trial %d: the EDIF file written by the composer is NOT accepted by the reader: %s: %s"
            % (k, type(e).__name__, e))
    assert summary(back) == expected, "trial %d: netlist read back differs from the one written" % k
    # every cell must be declared after the cells it instantiates
    seen = set()
    for d in back.libraries[0].definitions:
        for c in d.children:
            assert c.reference in seen, "cell %s declared before %s" % (d.name, c.reference.name)
        seen.add(d)
print("OK: EDIF write-then-read returned the same netlist for out-of-order cell declarations")
sys.exit(0)
