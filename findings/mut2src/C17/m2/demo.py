"""C17 demo (m2): the EDIF writer assigns every cell, port, net and instance an identifier that
differs, IGNORING CASE, from the identifiers and names of all its siblings -- also when the sibling
names are perfectly legal identifiers that differ only in letter case -- and the exported file is
readable again with the original names."""
import os
import sys
import tempfile

import spydrnet as sdn


def build():
    nl = sdn.Netlist(name="demo")
    prims = nl.create_library("prims")
    cells = []
    for cname in ("Buf", "BUF"):                      # two cells, names differ only in case
        c = prims.create_definition(cname)
        c.create_port("I", direction=sdn.IN, pins=1)
        c.create_port("O", direction=sdn.OUT, pins=1)
        cells.append(c)
    work = nl.create_library("work")
    top = work.create_definition("top")
    pa = top.create_port("Data", direction=sdn.IN, pins=1)     # ports differ only in case
    pb = top.create_port("data", direction=sdn.IN, pins=1)
    py = top.create_port("y", direction=sdn.OUT, pins=1)
    pz = top.create_port("z", direction=sdn.OUT, pins=1)
    u0 = top.create_child("U0", reference=cells[0])            # instances differ only in case
    u1 = top.create_child("u0", reference=cells[1])
    nets = {}
    for n in ("Net", "NET", "y", "z"):                         # nets differ only in case
        nets[n] = top.create_cable(n, wires=1).wires[0]
    nets["Net"].connect_pin(pa.pins[0]); nets["Net"].connect_pin(u0.pins[cells[0].ports[0].pins[0]])
    nets["NET"].connect_pin(pb.pins[0]); nets["NET"].connect_pin(u1.pins[cells[1].ports[0].pins[0]])
    nets["y"].connect_pin(py.pins[0]); nets["y"].connect_pin(u0.pins[cells[0].ports[1].pins[0]])
    nets["z"].connect_pin(pz.pins[0]); nets["z"].connect_pin(u1.pins[cells[1].ports[1].pins[0]])
    nl.top_instance = sdn.Instance(name="top")
    nl.top_instance.reference = top
    return nl


def scopes(nl):
    yield "libraries", list(nl.libraries)
    for lib in nl.libraries:
        yield "cells of library " + lib.name, list(lib.definitions)
        for d in lib.definitions:
            yield "ports of cell " + d.name, list(d.ports)
            yield "nets of cell " + d.name, list(d.cables)
            yield "instances of cell " + d.name, list(d.children)


problems = []
with tempfile.TemporaryDirectory() as tmp:
    nl = build()
    path = os.path.join(tmp, "case.edf")
    sdn.compose(nl, path)
    for scope, siblings in scopes(nl):
        seen = {}
        for obj in siblings:
            ident = obj["EDIF.identifier"]
            if ident.lower() in seen:
                problems.append("%s: %r and %r were both given the identifier %r/%r (equal ignoring case)"
                                % (scope, seen[ident.lower()].name, obj.name,
                                   seen[ident.lower()]["EDIF.identifier"], ident))
            seen[ident.lower()] = obj
    try:
        back = sdn.parse(path)
        want = sorted((s, sorted(o.name for o in objs)) for s, objs in scopes(nl))
        got = sorted((s, sorted(o.name for o in objs)) for s, objs in scopes(back))
        if want != got:
            problems.append("re-read netlist does not show the original names: %r" %
                            [(w, g) for w, g in zip(want, got) if w != g][:2])
    except Exception as e:
        problems.append("exported file is not readable again: %s: %s" % (type(e).__name__, e))

if problems:
    print("VIOLATION of C17 (identifiers must be unique ignoring case among siblings):")
    for p in problems:
        print("  -", p)
    sys.exit(1)
print("OK: case-only name differences got distinct identifiers and the file reads back with the original names")
