"""C17 demo (m1): whatever names the elements carry, the EDIF writer gives each one a legal
identifier and records the original name as a rename, so the re-read netlist shows the original
names -- checked here for every named object of a small design (netlist, design, libraries,
cells, ports, nets, instances), with several spellings of a library name."""
import os
import sys
import tempfile

import spydrnet as sdn


def build(library_name):
    nl = sdn.Netlist(name="demo netlist")           # a name that is not a legal EDIF identifier
    prims = nl.create_library(library_name)
    buf = prims.create_definition("BUF$1")
    pi = buf.create_port("I[0]", direction=sdn.IN, pins=1)
    po = buf.create_port("O/out", direction=sdn.OUT, pins=1)
    work = nl.create_library("work")
    top = work.create_definition("top cell")
    a = top.create_port("a in", direction=sdn.IN, pins=1)
    y = top.create_port("y", direction=sdn.OUT, pins=1)
    u = top.create_child("u0/buf", reference=buf)
    ca = top.create_cable("net a", wires=1)
    cy = top.create_cable("y", wires=1)
    ca.wires[0].connect_pin(a.pins[0]); ca.wires[0].connect_pin(u.pins[pi.pins[0]])
    cy.wires[0].connect_pin(y.pins[0]); cy.wires[0].connect_pin(u.pins[po.pins[0]])
    nl.top_instance = sdn.Instance(name="top[design] 1")
    nl.top_instance.reference = top
    return nl


def names(nl):
    """original name of every named object, keyed by its structural position"""
    out = {"netlist": nl.name, "top instance (design)": nl.top_instance.name}
    for li, lib in enumerate(nl.libraries):
        out["library #%d" % li] = lib.name
        for di, d in enumerate(lib.definitions):
            where = "library #%d cell #%d" % (li, di)
            out[where] = d.name
            for k, p in enumerate(d.ports):
                out["%s port #%d" % (where, k)] = p.name
            for k, c in enumerate(d.cables):
                out["%s net #%d" % (where, k)] = c.name
            for k, i in enumerate(d.children):
                out["%s instance #%d" % (where, k)] = i.name
    return out


problems = []
with tempfile.TemporaryDirectory() as tmp:
    for lib_name in ["prims", "prim lib", "hdi-primitives", "2nd_lib", "WORK"]:
        nl = build(lib_name)
        expected = names(nl)
        path = os.path.join(tmp, "out.edf")
        sdn.compose(nl, path)
        try:
            back = sdn.parse(path)
        except Exception as e:  # exported file must always be readable again
            problems.append("library named %r: exported file is not readable: %r" % (lib_name, e))
            continue
        got = names(back)
        for key, original in expected.items():
            if got.get(key) != original:
                problems.append("primitive library named %r: %s is called %r after write+read, original name %r"
                                % (lib_name, key, got.get(key), original))

if problems:
    print("VIOLATION of C17 (original names must be recorded as renames and survive a re-read):")
    for p in problems:
        print("  -", p)
    sys.exit(1)
print("OK: all original names (libraries included) survive EDIF write+read")
