"""C13 demo (m1): the result for an exact pattern equals the unfiltered result restricted to
the elements whose value under the chosen key matches it (EDIF identifiers compare
case-insensitively), and must not depend on the accelerated name lookup."""
import spydrnet as sdn

netlist = sdn.Netlist()
netlist[".NS"] = "EDIF"
lib = netlist.create_library()
lib["EDIF.identifier"] = "work"
top = lib.create_definition()
top["EDIF.identifier"] = "Top"
alu = lib.create_definition()
alu["EDIF.identifier"] = "Adder"
inst = top.create_child()
inst["EDIF.identifier"] = "U_Alu"
inst.reference = alu
port = alu.create_port()
port["EDIF.identifier"] = "DataIn"
cable = top.create_cable()
cable["EDIF.identifier"] = "Net_A"

# later the design is renamed (identifiers with upper-case letters are perfectly legal EDIF)
alu["EDIF.identifier"] = "Mult"
inst["EDIF.identifier"] = "U_Mul"
port["EDIF.identifier"] = "OpA"
cable["EDIF.identifier"] = "Net_B"
lib["EDIF.identifier"] = "Cells"

KEY = "EDIF.identifier"
queries = [
    ("get_libraries(netlist)", sdn.get_libraries, netlist, netlist.libraries,
     ["work", "Work", "cells", "Cells", "CELLS"]),
    ("get_definitions(lib)", sdn.get_definitions, lib, lib.definitions,
     ["adder", "Adder", "ADDER", "mult", "Mult", "MULT", "top", "Top"]),
    ("get_instances(top)", sdn.get_instances, top, top.children,
     ["u_alu", "U_Alu", "u_mul", "U_Mul", "U_MUL"]),
    ("get_ports(alu)", sdn.get_ports, alu, alu.ports,
     ["datain", "DataIn", "opa", "OpA", "OPA"]),
    ("get_cables(top)", sdn.get_cables, top, top.cables,
     ["net_a", "Net_A", "net_b", "Net_B", "NET_B"]),
]
for label, func, root, everything, patterns in queries:
    unfiltered = list(everything)     # the unfiltered result: every element below the root
    for pattern in patterns:
        expected = [x for x in unfiltered if x.get(KEY, "").lower() == pattern.lower()]
        got = list(func(root, pattern, key=KEY))
        assert got == expected, (
            "%s with exact pattern %r under key %s returned %r, but the elements whose "
            "identifier matches are %r" % (
                label, pattern, KEY,
                [x.get(KEY) for x in got], [x.get(KEY) for x in expected])
        )
        # same answer when the pattern is given as a one-character-class-free regex / no-case
        got_nc = list(func(root, pattern, key=KEY, is_case=False))
        assert got_nc == expected, "%s %r is_case=False gave %r" % (
            label, pattern, [x.get(KEY) for x in got_nc])
    # union of several patterns, no element twice
    got = list(func(root, patterns, key=KEY))
    expected = [x for x in unfiltered
                if any(x.get(KEY, "").lower() == p.lower() for p in patterns)]
    assert len(got) == len(set(got)) and set(got) == set(expected), (
        "%s with patterns %r returned %r, expected %r" % (
            label, patterns, [x.get(KEY) for x in got], [x.get(KEY) for x in expected])
    )
print("OK")
