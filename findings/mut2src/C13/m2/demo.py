"""C13 demo (m2): several patterns give the union, no element is returned twice and the
result does not depend on the order of the patterns - for every kind of root object."""
import itertools
import spydrnet as sdn

netlist = sdn.Netlist(name="n")
lib = netlist.create_library(name="work")
leaf = lib.create_definition(name="leaf")
leaf_i = leaf.create_port("I", pins=1)
mid = lib.create_definition(name="mid")
for name in ("clk", "clk_en", "data", "Data2", "rst"):
    mid.create_cable(name=name).create_wire()
u0 = mid.create_child(name="u0", reference=leaf)
mid.cables[0].wires[0].connect_pin(u0.pins[leaf_i.pins[0]])
top = lib.create_definition(name="top")
m0 = top.create_child(name="m0", reference=mid)
netlist.set_top_instance(top, instance_name="top")

everything = list(mid.cables)          # unfiltered result for all the roots below
roots = [
    ("definition mid", mid),
    ("instance m0", m0),
    ("list of cables", list(mid.cables)),
    ("list of wires", [c.wires[0] for c in mid.cables]),
]
import fnmatch


def matches(name, pattern, is_case=True):
    if not is_case:
        name, pattern = name.lower(), pattern.lower()
    return fnmatch.fnmatchcase(name, pattern)


pattern_sets = [
    ["clk"], ["clk", "clk"], ["clk", "c*"], ["c*", "clk"], ["data", "?ata", "d*"],
    ["rst", "clk_en", "*"], ["nothing", "clk", "clk*", "*k"],
]
for label, root in roots:
    assert sorted(c.name for c in sdn.get_cables(root)) == sorted(c.name for c in everything)
    for patterns in pattern_sets:
        for order in set(itertools.permutations(patterns)):
            expected = {c for c in everything if any(matches(c.name, p) for p in order)}
            root_arg = list(root) if isinstance(root, list) else root
            got = list(sdn.get_cables(root_arg, list(order)))
            assert len(got) == len(set(got)), (
                "get_cables(%s, patterns=%r) returned an element twice: %r"
                % (label, list(order), [c.name for c in got])
            )
            assert set(got) == expected, (
                "get_cables(%s, patterns=%r) returned %r, the union of the matches is %r"
                % (label, list(order), sorted(c.name for c in got),
                   sorted(c.name for c in expected))
            )
print("OK")
