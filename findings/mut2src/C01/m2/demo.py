"""C01 demo (m2): Wire.disconnect_pins_from called with PROXY outer pins
(OuterPin.from_instance_and_inner_pin) must keep pin<->wire links mutually consistent.

Property clause: "every pin reports exactly the one wire whose pin list contains it (once),
while a wire lists only pins that report it" -- for proxy outer pins built from
(instance, inner pin).
"""
import sys
import spydrnet as sdn

netlist = sdn.Netlist("n")
lib = netlist.create_library("work")
leaf = lib.create_definition("leaf")
port = leaf.create_port("p", pins=2)
top = lib.create_definition("top")
inst = top.create_child("u0", reference=leaf)
cable = top.create_cable("c", wires=1)
wire = cable.wires[0]
tport = top.create_port("tp", pins=1)

ip0, ip1 = port.pins
wire.connect_pin(inst.pins[ip0])
wire.connect_pin(inst.pins[ip1])
wire.connect_pin(tport.pins[0])


def check():
    for p in wire.pins:
        assert p.wire is wire, "wire lists a pin that reports wire %r" % (p.wire,)
    for p in list(inst.pins) + list(tport.pins):
        n = sum(1 for q in wire.pins if q is p)
        if p.wire is wire:
            assert n == 1, (
                "pin %r reports the wire but the wire's pin list contains it %d times" % (p, n)
            )
        else:
            assert p.wire is None and n == 0


check()
# disconnect using a freshly built proxy for (inst, ip0) and a real inner pin
proxy = sdn.OuterPin.from_instance_and_inner_pin(inst, ip0)
wire.disconnect_pins_from([proxy, tport.pins[0]])
assert len(wire.pins) == 1 and wire.pins[0] is inst.pins[ip1], "wrong pins left on the wire"
assert tport.pins[0].wire is None
assert inst.pins[ip0].wire is None, (
    "outer pin (u0, p[0]) still reports wire %r although that wire's pin list no longer "
    "contains it (pin/wire links inconsistent after disconnect_pins_from with a proxy pin)"
    % (inst.pins[ip0].wire,)
)
check()
# and the pin must be connectable again
wire.connect_pin(sdn.OuterPin(inst, ip0))
check()
print("OK: pin/wire links consistent after disconnect_pins_from with proxy outer pins")
sys.exit(0)
