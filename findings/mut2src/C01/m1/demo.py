"""C01 demo (m1): a REFUSED Cable.remove_wires_from must leave ownership consistent.

Property clause: "after any sequence of public editing calls ..., whether each call is
accepted or refused, every container lists exactly the elements that name it as their
parent".
"""
import sys
import spydrnet as sdn


def check_cable(cable, label):
    # every listed wire names the cable as parent, once each
    assert len(set(map(id, cable.wires))) == len(cable.wires), label + ": wire listed twice"
    for w in cable.wires:
        assert w.cable is cable, (
            "%s: cable lists a wire whose parent is %r (container lists an element that "
            "does not name it as its parent)" % (label, w.cable)
        )


def trial(k):
    netlist = sdn.Netlist("n%d" % k)
    lib = netlist.create_library("work")
    d = lib.create_definition("d")
    own = d.create_cable("own", wires=6)
    other = d.create_cable("other", wires=1)
    own_wires = list(own.wires)
    foreign = other.wires[0]

    refused = False
    try:
        # illegal: one of the wires belongs to another cable -> whole call must be refused
        own.remove_wires_from(set(own_wires[:4]) | {foreign})
    except AssertionError:
        refused = True
    assert refused, "remove_wires_from accepted a wire of a different cable"

    # refused call: nothing may have changed
    check_cable(own, "trial %d, cable 'own' after refused remove_wires_from" % k)
    check_cable(other, "trial %d, cable 'other' after refused remove_wires_from" % k)
    for w in own_wires:
        assert w.cable is own and w in own.wires, (
            "trial %d: wire lost its parent although the call was refused" % k
        )
    assert foreign.cable is other


for k in range(25):
    trial(k)
print("OK: refused remove_wires_from left every cable/wire ownership link intact")
sys.exit(0)
