"""C05 demo (m2): comments that hold several strings (or none) are legal EDIF 2 0 0
(comment ::= "(" "comment" { stringToken } ")") and must not disturb what the reader builds.

Property clause: "For any EDIF 2 0 0 netlist-view text in the supported subset, the parsed netlist
has exactly the libraries, cells, ports ..., instances ... and nets the text declares", for designs
rendered with "... string/integer/boolean properties, comments".
"""
import os
import sys
import tempfile
import spydrnet as sdn

EDIF = """(edif demo
  (edifVersion 2 0 0)
  (edifLevel 0)
  (keywordMap (keywordLevel 0))
  (status (written (timeStamp 2024 1 1 0 0 0) (comment "written by" "an independent writer")))
  (comment "line 1" "line 2" "line 3")
  (library prims
    (edifLevel 0)
    (technology (numberDefinition))
    (cell INV (cellType GENERIC)
      (comment)
      (view netlist (viewType NETLIST)
        (interface (port I (direction INPUT)) (port O (direction OUTPUT))))))
  (library work
    (edifLevel 0)
    (technology (numberDefinition))
    (cell top (cellType GENERIC)
      (view netlist (viewType NETLIST)
        (interface (port x (direction INPUT)) (port y (direction OUTPUT)))
        (contents
          (comment "two inverters" "in series")
          (instance u0 (viewRef netlist (cellRef INV (libraryRef prims)))
            (comment "first" "stage")
            (property INIT (string "2'h1")))
          (instance u1 (viewRef netlist (cellRef INV (libraryRef prims))))
          (net xn (joined (portRef x) (portRef I (instanceRef u0))) (comment "input" "net"))
          (net mid (joined (portRef O (instanceRef u0)) (portRef I (instanceRef u1))))
          (net yn (joined (portRef y) (portRef O (instanceRef u1))))))))
  (design top (cellRef top (libraryRef work))))
"""

path = os.path.join(tempfile.mkdtemp(), "comments.edf")
with open(path, "w") as fh:
    fh.write(EDIF)
try:
    netlist = sdn.parse(path)
except Exception as e:  # noqa
    raise AssertionError(
        "the reader rejected a valid EDIF file that contains multi-string / empty comments: %s: %s"
        % (type(e).__name__, e))

assert [l.name for l in netlist.libraries] == ["prims", "work"]
top = netlist.top_instance.reference
assert top.name == "top" and [p.name for p in top.ports] == ["x", "y"]
assert [(c.name, c.reference.name) for c in top.children] == [("u0", "INV"), ("u1", "INV")]
u0 = top.children[0]
assert u0["EDIF.properties"] == [{"identifier": "INIT", "value": "2'h1"}], u0["EDIF.properties"]
nets = {c.name: sorted((p.instance.name if isinstance(p, sdn.OuterPin) else "", (p.inner_pin if isinstance(p, sdn.OuterPin) else p).port.name)
                       for p in c.wires[0].pins) for c in top.cables}
assert nets == {"xn": [("", "x"), ("u0", "I")], "mid": [("u0", "O"), ("u1", "I")], "yn": [("", "y"), ("u1", "O")]}, nets
assert netlist["EDIF.comments"] == [("line 1", "line 2", "line 3")], netlist["EDIF.comments"]
assert u0["EDIF.comments"] == [("first", "stage")]
print("OK: design with multi-string and empty comments parsed exactly as declared")
sys.exit(0)
