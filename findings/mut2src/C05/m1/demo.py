"""C05 demo (m1): the EDIF reader must resolve cellRef/libraryRef whatever the letter case of the
identifiers (EDIF identifiers are case-insensitive), also when the libraryRef names the library that
is currently being read.

Property clauses: the parsed netlist has exactly the "instances (cellRef/libraryRef target, ...)"
the text declares, for designs rendered with "identifier case variations".
"""
import os
import sys
import tempfile
import spydrnet as sdn

EDIF = """(edif demo
  (edifVersion 2 0 0)
  (edifLevel 0)
  (keywordMap (keywordLevel 0))
  (status (written (timeStamp 2024 1 1 0 0 0)))
  (library Prims
    (edifLevel 0)
    (technology (numberDefinition))
    (cell INV (cellType GENERIC)
      (view netlist (viewType NETLIST)
        (interface (port I (direction INPUT)) (port O (direction OUTPUT))))))
  (library work
    (edifLevel 0)
    (technology (numberDefinition))
    (cell mid (cellType GENERIC)
      (view netlist (viewType NETLIST)
        (interface (port d (direction INPUT)) (port q (direction OUTPUT)))
        (contents
          (instance u0 (viewRef netlist (cellRef inv (libraryRef PRIMS))))
          (net n1 (joined (portRef d) (portRef i (instanceRef u0))))
          (net n2 (joined (portRef q) (portRef o (instanceRef u0)))))))
    (cell top (cellType GENERIC)
      (view netlist (viewType NETLIST)
        (interface (port x (direction INPUT)) (port y (direction OUTPUT)))
        (contents
          (instance m0 (viewRef netlist (cellRef mid (libraryRef work))))
          (instance m1 (viewRef netlist (cellRef MID (libraryRef WORK))))
          (instance m2 (viewRef netlist (cellRef Mid)))
          (net xn (joined (portRef x) (portRef d (instanceRef m0)) (portRef D (instanceRef M1)) (portRef d (instanceRef m2))))
          (net yn (joined (portRef y) (portRef q (instanceRef m0))))))))
  (design top (cellRef top (libraryRef work))))
"""

path = os.path.join(tempfile.mkdtemp(), "case.edf")
with open(path, "w") as fh:
    fh.write(EDIF)
try:
    netlist = sdn.parse(path)
except Exception as e:  # noqa
    raise AssertionError(
        "the reader rejected a valid EDIF file in which a libraryRef spells the current library in another case: "
        "%s: %s" % (type(e).__name__, e))

work = next(netlist.get_libraries("work"))
prims = next(netlist.get_libraries("Prims"))
top = next(work.get_definitions("top"))
mid = next(work.get_definitions("mid"))
inv = next(prims.get_definitions("INV"))
targets = {c.name: (c.reference, c.reference.library) for c in top.children}
assert targets == {"m0": (mid, work), "m1": (mid, work), "m2": (mid, work)}, targets
assert [(c.name, c.reference, c.reference.library) for c in mid.children] == [("u0", inv, prims)]
xn = next(top.get_cables("xn"))
joined = sorted(p.instance.name for p in xn.wires[0].pins if isinstance(p, sdn.OuterPin))
assert joined == ["m0", "m1", "m2"], joined
assert netlist.top_instance.reference is top
print("OK: cellRef/libraryRef targets resolved independent of identifier case")
sys.exit(0)
