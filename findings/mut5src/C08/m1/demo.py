"""C08 demo: "after uniquify, every non-leaf instance reachable from the top instance is the only
instance of its definition" - for any sharing pattern, "also by instances outside the top hierarchy"."""
import sys
import spydrnet as sdn
from spydrnet.uniquify import uniquify


def build():
    netlist = sdn.Netlist(name="n")
    lib = netlist.create_library(name="work")
    leaf = lib.create_definition(name="LEAF")
    leaf.create_port(name="a", direction=sdn.IN).create_pin()

    def with_child(name, ref):
        d = lib.create_definition(name=name)
        p = d.create_port(name="a", direction=sdn.IN)
        p.create_pin()
        c = d.create_child(name="c", reference=ref)
        w = d.create_cable(name="a").create_wire()
        w.connect_pin(p.pins[0])
        w.connect_pin(c.pins[ref.ports[0].pins[0]])
        return d

    mid = with_child("mid", leaf)        # non-leaf, used below the top AND outside of it
    top = lib.create_definition(name="top")
    tp = top.create_port(name="a", direction=sdn.IN)
    tp.create_pin()
    tw = top.create_cable(name="a").create_wire()
    tw.connect_pin(tp.pins[0])
    for name in ("u1",):
        u = top.create_child(name=name, reference=mid)
        tw.connect_pin(u.pins[mid.ports[0].pins[0]])
    # a definition that is NOT part of the top hierarchy also instantiates 'mid'
    spare = lib.create_definition(name="spare")
    spare.create_child(name="s1", reference=mid)
    netlist.top_instance = sdn.Instance(name="top_i")
    netlist.top_instance.reference = top
    return netlist


def reachable(netlist):
    todo = list(netlist.top_instance.reference.children)
    while todo:
        inst = todo.pop()
        yield inst
        todo.extend(inst.reference.children)


netlist = build()
names_before = sorted(h.name for h in netlist.get_hinstances(recursive=True))
uniquify(netlist)
names_after = sorted(h.name for h in netlist.get_hinstances(recursive=True))
assert names_before == names_after == ["u1", "u1/c"], (names_before, names_after)

for inst in reachable(netlist):
    ref = inst.reference
    if ref.is_leaf():
        continue
    others = sorted(("%s/%s" % (r.parent.name if r.parent else None, r.name))
                    for r in ref.references if r is not inst)
    if others:
        print("FAIL: after uniquify the non-leaf instance %r (reachable from the top) is not the "
              "only instance of its definition %r: also instanced by %r"
              % (inst.name, ref.name, others))
        sys.exit(1)

all_names = [d.name for d in netlist.get_definitions()]
assert len(all_names) == len(set(all_names)), all_names
snapshot = [(d.name, [c.name for c in d.children]) for d in netlist.get_definitions()]
uniquify(netlist)
assert snapshot == [(d.name, [c.name for c in d.children]) for d in netlist.get_definitions()], \
    "a second uniquify changed the netlist"
print("OK:", all_names)
