"""C08 demo: "newly created definitions have fresh unique names IN THE ORIGINAL'S LIBRARY" - sharing
"across libraries": a non-leaf definition of library 'cells' is instanced twice from library 'work'."""
import sys
import spydrnet as sdn
from spydrnet.uniquify import uniquify

netlist = sdn.Netlist(name="n")
prims = netlist.create_library(name="prims")
cells = netlist.create_library(name="cells")
work = netlist.create_library(name="work")

inv = prims.create_definition(name="INV")
inv.create_port(name="I", direction=sdn.IN).create_pin()
inv.create_port(name="O", direction=sdn.OUT).create_pin()

pair = cells.create_definition(name="pair")          # non-leaf: two inverters in a row
pi = pair.create_port(name="i", direction=sdn.IN); pi.create_pin()
po = pair.create_port(name="o", direction=sdn.OUT); po.create_pin()
a = pair.create_child(name="a", reference=inv)
b = pair.create_child(name="b", reference=inv)
w_i = pair.create_cable(name="i").create_wire()
w_m = pair.create_cable(name="m").create_wire()
w_o = pair.create_cable(name="o").create_wire()
w_i.connect_pin(pi.pins[0]); w_i.connect_pin(a.pins[inv.ports[0].pins[0]])
w_m.connect_pin(a.pins[inv.ports[1].pins[0]]); w_m.connect_pin(b.pins[inv.ports[0].pins[0]])
w_o.connect_pin(b.pins[inv.ports[1].pins[0]]); w_o.connect_pin(po.pins[0])

top = work.create_definition(name="top")
ti = top.create_port(name="i", direction=sdn.IN); ti.create_pin()
to = top.create_port(name="o", direction=sdn.OUT); to.create_pin()
u1 = top.create_child(name="u1", reference=pair)
u2 = top.create_child(name="u2", reference=pair)
n_i = top.create_cable(name="i").create_wire()
n_m = top.create_cable(name="m").create_wire()
n_o = top.create_cable(name="o").create_wire()
n_i.connect_pin(ti.pins[0]); n_i.connect_pin(u1.pins[pi.pins[0]])
n_m.connect_pin(u1.pins[po.pins[0]]); n_m.connect_pin(u2.pins[pi.pins[0]])
n_o.connect_pin(u2.pins[po.pins[0]]); n_o.connect_pin(to.pins[0])
netlist.top_instance = sdn.Instance(name="top_i")
netlist.top_instance.reference = top

before = {lib.name: [d.name for d in lib.definitions] for lib in netlist.libraries}
original_defs = set(netlist.get_definitions())
uniquify(netlist)
after = {lib.name: [d.name for d in lib.definitions] for lib in netlist.libraries}

assert u1.reference is not u2.reference, "u1 and u2 still share a definition"
new_defs = [d for d in netlist.get_definitions() if d not in original_defs]
assert len(new_defs) == 1, [d.name for d in new_defs]
new = new_defs[0]
assert new.name not in sum(before.values(), []), "name of the new definition is not fresh"
if new.library is not cells:
    print("FAIL: uniquify put the new definition %r (copy of cells/pair) into library %r "
          "instead of the original's library 'cells'\n  before: %r\n  after:  %r"
          % (new.name, new.library.name, before, after))
    sys.exit(1)
assert after["work"] == before["work"] and after["prims"] == before["prims"], after
print("OK:", after)
