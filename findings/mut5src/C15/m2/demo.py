"""C15 demo: after a rejected input, process-wide state is what it was before, so any
later parse in the same process behaves exactly as in a fresh process. Here: a valid
EDIF file is parsed, then a corrupted copy is rejected, then the valid file again."""
import os
import tempfile

import spydrnet as sdn

VALID = """(edif top (edifVersion 2 0 0) (edifLevel 0) (keywordMap (keywordLevel 0))
 (library prims (edifLevel 0) (technology (numberDefinition))
  (cell INV (cellType GENERIC)
   (view netlist (viewType NETLIST)
    (interface (port I (direction INPUT)) (port O (direction OUTPUT))))))
 (library work (edifLevel 0) (technology (numberDefinition))
  (cell top (cellType GENERIC)
   (view netlist (viewType NETLIST)
    (interface (port a (direction INPUT)) (port y (direction OUTPUT)))
    (contents
     (instance u1 (viewRef netlist (cellRef INV (libraryRef prims))))
     (net a (joined (portRef a) (portRef I (instanceRef u1))))
     (net y (joined (portRef y) (portRef O (instanceRef u1))))))))
 (design top (cellRef top (libraryRef work))))
"""
# single corruptions of the valid text, all of which must be rejected
CORRUPTIONS = {
    "dangling instanceRef": VALID.replace("(portRef O (instanceRef u1))", "(portRef O (instanceRef u9))"),
    "dangling cellRef": VALID.replace("(cellRef INV (libraryRef prims))", "(cellRef NAND (libraryRef prims))"),
    "token deleted": VALID.replace("(direction OUTPUT)))\n    (contents", "(direction )))\n    (contents"),
    "truncated": VALID[: VALID.index("(net y")],
}

tmpdir = tempfile.mkdtemp()


def parse_text(text, name):
    path = os.path.join(tmpdir, name + ".edf")
    with open(path, "w") as f:
        f.write(text)
    return sdn.parse(path)


def summary(netlist):
    top = netlist.top_instance
    return {
        "policy afterwards": sdn.namespace_manager.default,
        "libraries": [l.name for l in netlist.libraries],
        "definitions": [d.name for l in netlist.libraries for d in l.definitions],
        "top instance": None if top is None else top.name,
        "top reference": None if top is None or top.reference is None else top.reference.name,
        "top reference in this netlist": top is not None and top.reference is not None
        and top.reference.library is not None and top.reference.library.netlist is netlist,
        "hierarchical instances": sorted(h.name for h in sdn.get_hinstances(netlist, recursive=True)),
        "hierarchical wires": sorted(h.name for h in sdn.get_hwires(netlist, recursive=True)),
    }


fresh = summary(parse_text(VALID, "valid"))     # what a fresh process gives
assert fresh["top reference"] == "top" and fresh["hierarchical instances"] == ["u1"], fresh

for label, text in CORRUPTIONS.items():
    try:
        bad = parse_text(text, "corrupt")
    except Exception:
        pass
    else:
        raise SystemExit("corruption %r should have been rejected" % label)
    assert sdn.namespace_manager.default == fresh["policy afterwards"], "naming policy not restored"
    try:
        again = summary(parse_text(VALID, "valid_again"))
    except Exception as exc:
        raise AssertionError(
            "after the rejected input (%s) the VALID file is no longer accepted in this process: %s: %s"
            % (label, type(exc).__name__, exc)
        )
    diff = {k: (fresh[k], again[k]) for k in fresh if fresh[k] != again[k]}
    assert not diff, (
        "after the rejected input (%s) parsing the valid file gives a different (half-built) netlist "
        "than in a fresh process: %s" % (label, diff)
    )
print("ok")
