"""C15 demo: EDIF references to cells, ports, instances or libraries that were never
declared are always rejected. Here an instance names its cell through a libraryRef to a
library that does not exist anywhere in the file."""
import os
import tempfile

import spydrnet as sdn

VALID = """(edif top (edifVersion 2 0 0) (edifLevel 0) (keywordMap (keywordLevel 0))
 (library prims (edifLevel 0) (technology (numberDefinition))
  (cell INV (cellType GENERIC)
   (view netlist (viewType NETLIST)
    (interface (port I (direction INPUT)) (port O (direction OUTPUT))))))
 (library work (edifLevel 0) (technology (numberDefinition))
  (cell sub (cellType GENERIC)
   (view netlist (viewType NETLIST)
    (interface (port I (direction INPUT)) (port O (direction OUTPUT)))
    (contents
     (instance g (viewRef netlist (cellRef INV (libraryRef prims))))
     (net I (joined (portRef I) (portRef I (instanceRef g))))
     (net O (joined (portRef O) (portRef O (instanceRef g)))))))
  (cell top (cellType GENERIC)
   (view netlist (viewType NETLIST)
    (interface (port a (direction INPUT)) (port y (direction OUTPUT)))
    (contents
     (instance u1 (viewRef netlist (cellRef sub (libraryRef work))))
     (net a (joined (portRef a) (portRef I (instanceRef u1))))
     (net y (joined (portRef y) (portRef O (instanceRef u1))))))))
 (design top (cellRef top (libraryRef work))))
"""
tmpdir = tempfile.mkdtemp()


def parse_text(text, name):
    path = os.path.join(tmpdir, name + ".edf")
    with open(path, "w") as f:
        f.write(text)
    return sdn.parse(path)


def must_reject(label, text):
    assert text != VALID, label
    policy = sdn.namespace_manager.default
    try:
        netlist = parse_text(text, "dangling")
    except Exception:
        assert sdn.namespace_manager.default == policy
        return
    u = next(netlist.get_instances("u*"), None)
    raise AssertionError(
        "%s was accepted although no such library is declared; instance %s now references cell %r of library %r"
        % (label, u.name if u else None, u.reference.name if u else None,
           u.reference.library.name if u else None)
    )


netlist = parse_text(VALID, "valid")
assert [l.name for l in netlist.libraries] == ["prims", "work"]
assert sorted(h.name for h in sdn.get_hinstances(netlist, recursive=True)) == ["u1", "u1/g"]

# the replaced token is a library name that is declared nowhere in the file
must_reject("libraryRef nolib (cell INV does not exist in the current library either)",
            VALID.replace("(cellRef INV (libraryRef prims))", "(cellRef INV (libraryRef nolib))"))
must_reject("design libraryRef nolib",
            VALID.replace("(cellRef top (libraryRef work))", "(cellRef top (libraryRef nolib))"))
must_reject("libraryRef nolib on instance u1 (a cell of that name exists in the library being read)",
            VALID.replace("(cellRef sub (libraryRef work))", "(cellRef sub (libraryRef nolib))"))
must_reject("libraryRef wrk (one character of the library name deleted)",
            VALID.replace("(cellRef sub (libraryRef work))", "(cellRef sub (libraryRef wrk))"))
print("ok")
