"""C04 demo: Verilog write-then-read keeps the instances (module, parameters, attributes).

The instance carries two (* *) attributes, the first one without a value.
"""
import os
import tempfile

import spydrnet as sdn

SRC = """
`celldefine
module FDRE (C, D, Q);
  input C;
  input D;
  output Q;
endmodule
`endcelldefine

module top (clk, d, q);
  input clk;
  input [1:0] d;
  output [1:0] q;
  (* DONT_TOUCH, mark_debug = "true" *)
  FDRE #(.INIT(1'b0)) r0 (.C(clk), .D(d[0]), .Q(q[0]));
  (* mark_debug = "true", DONT_TOUCH *)
  FDRE #(.INIT(1'b1)) r1 (.C(clk), .D(d[1]), .Q(q[1]));
endmodule
"""


def instances(netlist):
    out = {}
    for inst in netlist.top_instance.reference.children:
        out[inst.name] = (
            inst.reference.name,
            dict(inst.data.get("VERILOG.Parameters") or {}),
            dict(inst.data.get("VERILOG.InlineConstraints") or {}),
        )
    return out


tmp = tempfile.mkdtemp()
src = os.path.join(tmp, "in.v")
out = os.path.join(tmp, "out.v")
with open(src, "w") as f:
    f.write(SRC)
first = sdn.parse(src)
assert instances(first)["r0"][2] == {"DONT_TOUCH": None, "mark_debug": '"true"'}
sdn.compose(first, out, write_blackbox=True)
try:
    second = sdn.parse(out)
except Exception as e:
    raise AssertionError("the reader rejects the Verilog that was written: %r" % (e,))
a, b = instances(first), instances(second)
for name in sorted(a):
    assert a[name] == b.get(name), (
        "instance %s changed across write-then-read:\n  parsed : %r\n  re-read: %r"
        % (name, a[name], b.get(name))
    )
assert a == b
print("OK")
