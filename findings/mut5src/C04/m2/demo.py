"""C04 demo: the Verilog text written is always accepted by the reader and gives back
the same instances (module, parameters, attributes) and connections -- also when the
parameters are written as defparam statements (compose(..., defparam=True)) and the
instances carry escaped identifiers, as in Vivado/Quartus netlists.
"""
import os
import tempfile

import spydrnet as sdn

SRC = r"""
`celldefine
module FDRE (C, D, Q);
  input C;
  input D;
  output Q;
endmodule
`endcelldefine

module top (clk, d, q);
  input clk;
  input [1:0] d;
  output [1:0] q;
  FDRE #(.INIT(1'b0), .IS_C_INVERTED(1'b1)) \q_reg[0] (.C(clk), .D(d[0]), .Q(q[0]));
  FDRE #(.INIT(1'b1)) \q_reg[1] (.C(clk), .D(d[1]), .Q(q[1]));
  FDRE #(.INIT(1'b1)) plain (.C(clk), .D(d[1]), .Q());
endmodule
"""


def instances(netlist):
    out = {}
    for inst in netlist.top_instance.reference.children:
        conn = {}
        for pin in inst.pins:
            w = pin.wire
            conn[pin.inner_pin.port.name] = None if w is None else (w.cable.name, w.index())
        out[inst.name] = (inst.reference.name, dict(inst.data.get("VERILOG.Parameters") or {}), conn)
    return out


tmp = tempfile.mkdtemp()
src = os.path.join(tmp, "in.v")
with open(src, "w") as f:
    f.write(SRC)
first = sdn.parse(src)
expected = instances(first)
assert expected["\\q_reg[0]"][1] == {"INIT": "1'b0", "IS_C_INVERTED": "1'b1"}

for defparam in (False, True):
    out = os.path.join(tmp, "out_%s.v" % defparam)
    sdn.compose(first, out, defparam=defparam)
    try:
        second = sdn.parse(out)
    except Exception as e:
        raise AssertionError(
            "defparam=%s: the reader rejects the Verilog that was written: %s: %s"
            % (defparam, type(e).__name__, e)
        )
    got = instances(second)
    assert got == expected, (
        "defparam=%s: instances changed across write-then-read:\n  %r\n  %r"
        % (defparam, expected, got)
    )
print("OK")
