"""C13 demo: the result for an exact pattern equals the unfiltered result restricted to
the elements whose value under the key matches (EDIF identifiers compare
case-insensitively), and does not depend on whether the accelerated name lookup is
available - here after an element with a mixed-case EDIF identifier was renamed."""
import spydrnet as sdn

netlist = sdn.Netlist(name="n")
netlist[".NS"] = "EDIF"            # EDIF naming policy for everything added below
lib = netlist.create_library(name="work")
lib["EDIF.identifier"] = "work"
top_def = lib.create_definition(name="TOP")
top_def["EDIF.identifier"] = "TOP"
cells = {}
for ident in ("Alpha", "beta", "Gamma"):
    d = lib.create_definition(name=ident + "_name")
    d["EDIF.identifier"] = ident
    cells[ident] = d
assert lib[".NS"] == "EDIF" and cells["Alpha"][".NS"] == "EDIF"

KEY = "EDIF.identifier"


def restricted(pattern):
    """unfiltered result restricted to elements whose identifier equals pattern (EDIF: caseless)"""
    return [d for d in sdn.get_definitions(lib) if d.get(KEY, "").lower() == pattern.lower()]


def check(stage):
    for pattern in ("Alpha", "alpha", "ALPHA", "beta", "Delta", "delta", "Gamma", "TOP"):
        got = list(sdn.get_definitions(lib, pattern, key=KEY))
        want = restricted(pattern)
        assert got == want, (
            "%s: get_definitions(lib, %r, key=%r) returned %s but the definitions whose identifier "
            "matches are %s" % (stage, pattern, KEY, [d[KEY] for d in got], [d[KEY] for d in want])
        )


check("before rename")
cells["Alpha"][KEY] = "Delta"      # rename: 'Alpha' is gone, 'Delta' exists
check("after rename")
cells["Alpha"][KEY] = "alpha"      # rename again to the old name in lower case
cells["Gamma"][KEY] = "GAMMA"      # a pure change of case
check("after second rename")
# a name that is free again must be usable by another element, and found
cells["beta"][KEY] = "Delta"
check("after re-using the freed identifier")
print("ok")
