"""C13 demo: several patterns give the union, no element is returned twice and the
result does not depend on the order of the patterns - here for get_instances asked
below an INSTANCE (the children of its reference) with an exact name plus a wildcard."""
import spydrnet as sdn

netlist = sdn.Netlist(name="n")
lib = netlist.create_library(name="work")
leaf = lib.create_definition(name="LEAF")
top_def = lib.create_definition(name="TOP")
for nm in ("u1", "u2", "v1"):
    top_def.create_child(name=nm, reference=leaf)
netlist.top_instance = sdn.Instance(name="top")
netlist.top_instance.reference = top_def
top = netlist.top_instance


def names(result):
    return sorted(x.name for x in result)


unfiltered = list(sdn.get_instances(top))
assert names(unfiltered) == ["u1", "u2", "v1"]

for root in (top_def, top, [top, top_def]):
    for patterns in (["u*", "u1"], ["u1", "u*"], ["u1", "u1"], ["v1", "?1", "u1"]):
        got = list(sdn.get_instances(root, patterns))
        # union of the single-pattern answers, restricted from the unfiltered result
        union = [x for x in unfiltered
                 if any(x in list(sdn.get_instances(root, p)) for p in patterns)]
        assert len(got) == len(set(got)), (
            "get_instances(%s, %r) returned an element twice: %s"
            % (type(root).__name__, patterns, [x.name for x in got])
        )
        assert names(got) == names(union), (
            "get_instances(%s, %r) = %s is not the union of the single-pattern results %s"
            % (type(root).__name__, patterns, names(got), names(union))
        )
print("ok")
