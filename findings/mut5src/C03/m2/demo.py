"""C03 demo: write-then-read returns the same netlist for any cell declaration order.

The netlist is built top-down through the API: the top cell is created before the
black-box cell it instantiates, both in the same library.  The file written must be
accepted by the reader and give back the same cells, instances and nets.
"""
import os
import tempfile

import spydrnet as sdn

nl = sdn.Netlist("design")
work = nl.create_library("work")
top = work.create_definition("top")          # declared first ...
mid = work.create_definition("mid")
buf = work.create_definition("BUF")          # ... the black box it uses is declared last
buf.create_port("I", direction=sdn.IN, pins=1)
buf.create_port("O", direction=sdn.OUT, pins=1)

for d in (top, mid):
    d.create_port("a", direction=sdn.IN, pins=1)
    d.create_port("y", direction=sdn.OUT, pins=1)

def wire_up(d, child):
    n_in = d.create_cable("n_in", wires=1).wires[0]
    n_out = d.create_cable("n_out", wires=1).wires[0]
    n_in.connect_pin(d.ports[0].pins[0])
    n_in.connect_pin(child.pins[child.reference.ports[0].pins[0]])
    n_out.connect_pin(child.pins[child.reference.ports[1].pins[0]])
    n_out.connect_pin(d.ports[1].pins[0])

wire_up(mid, mid.create_child("b0", reference=buf))
wire_up(top, top.create_child("m0", reference=mid))
nl.top_instance = sdn.Instance("top")
nl.top_instance.reference = top


def describe(netlist):
    out = {}
    for lib in netlist.libraries:
        for d in lib.definitions:
            out[(lib.name, d.name)] = (
                [(p.name, p.direction, len(p.pins)) for p in d.ports],
                sorted((i.name, i.reference.name, i.reference.library.name) for i in d.children),
                sorted(
                    (c.name, tuple(
                        tuple(
                            (p.instance.name, p.inner_pin.port.name)
                            if isinstance(p, sdn.OuterPin) else ("", p.port.name)
                            for p in w.pins)
                        for w in c.wires))
                    for c in d.cables),
            )
    return out, netlist.top_instance.reference.name


expected = describe(nl)
path = os.path.join(tempfile.mkdtemp(), "out.edf")
sdn.compose(nl, path)
try:
    back = sdn.parse(path)
except Exception as e:
    raise AssertionError(
        "the reader rejects the file the composer wrote: %s: %s" % (type(e).__name__, e)
    )
got = describe(back)
assert got == expected, "write-then-read changed the netlist:\n%r\n%r" % (expected, got)
print("OK")
