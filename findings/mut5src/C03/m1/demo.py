"""C03 demo: the EDIF file written for an API-built netlist is always accepted by the
reader and gives back the same instances and nets (names, references, connections).

The netlist has sibling names that differ only by punctuation and letter case
("U.x" / "u-X", "N.a" / "n-A"): legal, distinct names in spydrnet.
"""
import os
import tempfile

import spydrnet as sdn

nl = sdn.Netlist("n")
lib = nl.create_library("work")
leaf = lib.create_definition("leaf")
leaf.create_port("I", direction=sdn.IN, pins=1)
top = lib.create_definition("top")
u0 = top.create_child("U.x", reference=leaf)
u1 = top.create_child("u-X", reference=leaf)
c0 = top.create_cable("N.a", wires=1)
c1 = top.create_cable("n-A", wires=1)
c0.wires[0].connect_pin(u0.pins[leaf.ports[0].pins[0]])
c1.wires[0].connect_pin(u1.pins[leaf.ports[0].pins[0]])
nl.top_instance = sdn.Instance("top")
nl.top_instance.reference = top


def describe(netlist):
    t = netlist.top_instance.reference
    insts = sorted((i.name, i.reference.name, i.reference.library.name) for i in t.children)
    nets = sorted(
        (c.name, len(c.wires), c.lower_index,
         tuple(tuple((p.instance.name, p.inner_pin.port.name) for p in w.pins) for w in c.wires))
        for c in t.cables
    )
    return insts, nets


expected = describe(nl)
path = os.path.join(tempfile.mkdtemp(), "out.edf")
sdn.compose(nl, path)

try:
    back = sdn.parse(path)
except Exception as e:  # the file written must always be accepted by the reader
    raise AssertionError(
        "the reader rejects the file the composer wrote (instance identifiers %r): %r"
        % ([i["EDIF.identifier"] for i in top.children], e)
    )
got = describe(back)
assert got == expected, "write-then-read changed the netlist:\n%r\n%r" % (expected, got)
print("OK")
