"""C01 demo: a refused bulk removal must leave ownership untouched.

Property clause: after any public editing call, accepted or refused, every container
lists exactly the elements that name it as their parent.
"""
import spydrnet as sdn

netlist = sdn.Netlist("n")
lib = netlist.create_library("work")
leaf = lib.create_definition("leaf")
top = lib.create_definition("top")
other = lib.create_definition("other")

kids = [top.create_child("u%d" % i, reference=leaf) for i in range(3)]
stranger = other.create_child("x0", reference=leaf)


def check(definition):
    for child in definition.children:
        assert child.parent is definition, (
            "definition %r lists instance %r whose parent is %r"
            % (definition.name, child.name, child.parent)
        )
    assert len(set(definition.children)) == len(definition.children)


# the request mixes two children of `top` with an instance of another definition: refused
refused = False
try:
    top.remove_children_from([kids[0], kids[2], stranger])
except AssertionError:
    refused = True
assert refused, "removing an instance that is not a child must be refused"

check(top)
check(other)
assert list(top.children) == kids, "a refused call changed the children list"
assert stranger.parent is other

# a later legal call still works
top.remove_children_from([kids[0]])
check(top)
assert kids[0].parent is None and list(top.children) == kids[1:]
print("OK")
