"""C01 demo: bulk disconnect through proxy outer pins built from (instance, inner pin).

Property clause: every pin reports exactly the one wire whose pin list contains it,
and a pin that was taken off a wire reports no wire.
"""
import spydrnet as sdn

leaf = sdn.Definition("leaf")
port = leaf.create_port("P", pins=3)
top = sdn.Definition("top")
inst = top.create_child("u0", reference=leaf)
cable = top.create_cable("n", wires=2)
w0, w1 = cable.wires

for ip in port.pins:
    w0.connect_pin(inst.pins[ip])

# disconnect two of the three pins in one call, naming them by (instance, inner pin)
proxies = [sdn.OuterPin.from_instance_and_inner_pin(inst, ip) for ip in port.pins[:2]]
w0.disconnect_pins_from(proxies)


def check():
    for wire in (w0, w1):
        for pin in wire.pins:
            assert pin.wire is wire, "wire lists a pin that does not report it"
    for ip in port.pins:
        op = inst.pins[ip]
        if op.wire is not None:
            n = sum(1 for p in op.wire.pins if p is op)
            assert n == 1, (
                "outer pin of inner pin #%d reports wire %r but that wire's pin list "
                "contains it %d times" % (port.pins.index(ip), op.wire, n)
            )


check()
assert [p.inner_pin for p in w0.pins] == [port.pins[2]]
# the freed pins are free: they can be connected again elsewhere
for ip in port.pins[:2]:
    w1.connect_pin(inst.pins[ip])
check()
print("OK")
