"""C12 demo: a net that runs through a pass-through cell (one inner wire tied to two
ports of the same instance) is one electrical net: selection ALL from any member must
return the wires on both sides of the cell and the wire inside it."""
import spydrnet as sdn
from spydrnet.util.selection import Selection

netlist = sdn.Netlist(name="n")
lib = netlist.create_library(name="work")

leaf = lib.create_definition(name="LEAF")
leaf_i = leaf.create_port(name="I", pins=1, direction=sdn.IN)

feed = lib.create_definition(name="FEED")  # wire-only pass-through cell
f_in = feed.create_port(name="a", pins=1, direction=sdn.IN)
f_out = feed.create_port(name="y", pins=1, direction=sdn.OUT)
thru = feed.create_cable(name="thru", wires=1).wires[0]
thru.connect_pin(f_in.pins[0])
thru.connect_pin(f_out.pins[0])

top_def = lib.create_definition(name="TOP")
top_in = top_def.create_port(name="in", pins=1, direction=sdn.IN)
before = top_def.create_cable(name="before", wires=1).wires[0]
after = top_def.create_cable(name="after", wires=1).wires[0]
p = top_def.create_child(name="p", reference=feed)
u = top_def.create_child(name="u", reference=leaf)
before.connect_pin(top_in.pins[0])
before.connect_pin(p.pins[f_in.pins[0]])
after.connect_pin(p.pins[f_out.pins[0]])
after.connect_pin(u.pins[leaf_i.pins[0]])
netlist.top_instance = sdn.Instance(name="top")
netlist.top_instance.reference = top_def

expected = ["after", "before", "p/thru"]
members = list(sdn.get_hwires(netlist, recursive=True))
assert sorted(h.name for h in members) == expected

starts = list(members)
starts += list(sdn.get_hpins(members))          # top/in, p/a, p/y, u/I
starts += [h.parent for h in members]           # the hierarchical cables
for start in starts:
    got = sorted(h.name for h in sdn.get_hwires(start, selection=Selection.ALL))
    assert got == expected, (
        "net traced (ALL) from hierarchical %s %r is %s, expected the whole net %s"
        % (type(start.item).__name__, start.name, got, expected)
    )
print("ok")
