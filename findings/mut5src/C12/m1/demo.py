"""C12 demo: selection ALL returns exactly the electrically connected net, so every
member of a net yields the same answer - here a net that fans out from one top-level
wire into two instances of the SAME definition through the SAME port."""
import spydrnet as sdn
from spydrnet.util.selection import Selection

netlist = sdn.Netlist(name="n")
lib = netlist.create_library(name="work")

leaf = lib.create_definition(name="LEAF")
leaf_i = leaf.create_port(name="I", pins=1, direction=sdn.IN)

mid = lib.create_definition(name="MID")
mid_i = mid.create_port(name="i", pins=1, direction=sdn.IN)
iw = mid.create_cable(name="iw", wires=1).wires[0]
u = mid.create_child(name="u", reference=leaf)
iw.connect_pin(mid_i.pins[0])
iw.connect_pin(u.pins[leaf_i.pins[0]])

top_def = lib.create_definition(name="TOP")
top_in = top_def.create_port(name="in", pins=1, direction=sdn.IN)
w = top_def.create_cable(name="w", wires=1).wires[0]
a1 = top_def.create_child(name="a1", reference=mid)
a2 = top_def.create_child(name="a2", reference=mid)
w.connect_pin(top_in.pins[0])
w.connect_pin(a1.pins[mid_i.pins[0]])
w.connect_pin(a2.pins[mid_i.pins[0]])
netlist.top_instance = sdn.Instance(name="top")
netlist.top_instance.reference = top_def

expected = ["a1/iw", "a2/iw", "w"]
members = list(sdn.get_hwires(netlist, recursive=True))
assert sorted(h.name for h in members) == expected

# every member of the net, as a starting point, gives the whole net
for start in members:
    got = sorted(h.name for h in sdn.get_hwires(start, selection=Selection.ALL))
    assert got == expected, "net traced from hierarchical wire %r is %s, expected %s" % (
        start.name, got, expected)

# ... and so does every hierarchical pin / port / cable on it
starts = list(sdn.get_hpins(members)) + list(sdn.get_hports(netlist, recursive=True))
starts += [h.parent for h in members]
assert len(starts) == 5 + 5 + 3, len(starts)
for start in starts:
    got = sorted(h.name for h in sdn.get_hwires(start, selection=Selection.ALL))
    assert got == expected, "net traced from %s %r is %s, expected %s" % (
        type(start.item).__name__, start.name, got, expected)
print("ok")
