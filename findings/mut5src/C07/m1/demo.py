"""C07 demo: "the top instance and its definition resolve inside the copy ... the copy answers every
query like the original", for a top instance that is standalone or ALSO A CHILD of a definition."""
import sys
import spydrnet as sdn


def build(top_is_child):
    netlist = sdn.Netlist(name="n")
    lib = netlist.create_library(name="work")
    leaf = lib.create_definition(name="leaf")
    leaf.create_port(name="a").create_pin()
    core = lib.create_definition(name="core")
    core.create_port(name="x").create_pin()
    u = core.create_child(name="u", reference=leaf)
    core.create_cable(name="x").create_wire().connect_pin(core.ports[0].pins[0])
    core.cables[0].wires[0].connect_pin(u.pins[leaf.ports[0].pins[0]])
    if top_is_child:
        bench = lib.create_definition(name="bench")
        dut = bench.create_child(name="dut", reference=core)
        netlist.top_instance = dut          # the top instance is also a child of 'bench'
    else:
        netlist.top_instance = sdn.Instance(name="dut")
        netlist.top_instance.reference = core
    return netlist


def queries(netlist):
    top = netlist.top_instance
    flagged = sorted(i.name for i in netlist.get_instances() if i.is_top_instance)
    if top.is_top_instance and top.name not in flagged:
        flagged.append(top.name)       # standalone top is not returned by get_instances
    return {
        "top name": top.name,
        "top.is_top_instance": top.is_top_instance,
        "top parent": None if top.parent is None else top.parent.name,
        "top reference": top.reference.name,
        "instances flagged as top": flagged,
    }


for top_is_child in (False, True):
    original = build(top_is_child)
    expected = queries(original)
    assert expected["top.is_top_instance"] is True
    copy = original.clone()
    got = queries(copy)
    kind = "a child of 'bench'" if top_is_child else "standalone"
    if got != expected:
        print("FAIL: top instance %s: the clone does not answer like the original\n"
              "  original: %r\n  clone:    %r" % (kind, expected, got))
        sys.exit(1)
    assert queries(original) == expected, "cloning modified the source"
    assert copy.top_instance is not original.top_instance
    assert copy.top_instance.reference.library.netlist is copy
print("OK: the clone's top instance answers like the original (standalone and child)")
