"""C07 demo: in a cloned netlist "every link - instance references, REFERENCE SETS, ..., the top
instance and its definition - resolves inside the copy", the copy "shares no element with the
original", and later edits of the copy behave like edits of the original."""
import sys
import spydrnet as sdn


def fail(msg):
    print("FAIL:", msg)
    sys.exit(1)


netlist = sdn.Netlist(name="n")
prim = netlist.create_library(name="prim")
work = netlist.create_library(name="work")
buf = prim.create_definition(name="BUF")
buf.create_port(name="I", direction=sdn.IN).create_pin()
top_def = work.create_definition(name="top")
port = top_def.create_port(name="d", direction=sdn.IN)
port.create_pin()
u0 = top_def.create_child(name="u0", reference=buf)
# a definition that is taken out of its library again keeps its children, which still
# reference BUF: instances "outside" of the netlist
scratch = work.create_definition(name="scratch")
stray = scratch.create_child(name="stray", reference=buf)
work.remove_definition(scratch)
# stand-alone top instance (what the EDIF / Verilog readers build)
netlist.top_instance = sdn.Instance(name="top_i")
netlist.top_instance.reference = top_def
assert netlist.top_instance in top_def.references

copy = netlist.clone()
ctop = copy.top_instance
cdef = ctop.reference
cbuf = next(copy.get_definitions("BUF"))
assert cdef is not top_def and cdef.library.netlist is copy

# 1. reference sets resolve inside the copy
if ctop not in cdef.references:
    fail("the copy's top instance is missing from the reference set of its own definition "
         "(references of copy 'top': %r)" % [i.name for i in cdef.references])
cloned_instances = set(copy.get_instances()) | {ctop}
for d in copy.get_definitions():
    for ref in d.references:
        if ref not in cloned_instances:
            fail("definition %r of the copy lists instance %r of the ORIGINAL in its reference "
                 "set: the copy shares an element with the original" % (d.name, ref.name))
        if ref.reference is not d:
            fail("reference set of %r holds %r whose reference is another definition"
                 % (d.name, ref.name))
assert stray in buf.references and stray not in cbuf.references

# 2. a later edit of the copy behaves like the same edit on the original
port.create_pin()
next(cdef.get_ports("d")).create_pin()
n_orig = len(netlist.top_instance.pins)
n_copy = len(ctop.pins)
if n_orig != n_copy:
    fail("after adding a pin to port 'd' the original top instance has %d pins, "
         "the copy's top instance %d" % (n_orig, n_copy))
print("OK: reference sets of the copy are self-contained and complete")
