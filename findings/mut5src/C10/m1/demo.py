"""C10 demo: "an edit is refused exactly when it would create a duplicate or an illegal identifier,
never because of an element that was removed, renamed or un-named earlier" and "asking a parent for
a child by exact name or identifier returns precisely the children a linear scan finds" - EDIF policy,
after an `add` that was (rightly) refused."""
import sys
import spydrnet as sdn


def fail(msg):
    print("FAIL:", msg)
    sys.exit(1)


def check_lookup(definition, what):
    """exact lookup by name / identifier must agree with a linear scan of the children"""
    for key, values in ((".NAME", ["n1", "n2", "N1"]), ("EDIF.identifier", ["id1", "id2", "id3"])):
        for value in values:
            show = lambda c: (c.name, c["EDIF.identifier"], "child" if c.parent is definition else "NOT A CHILD")
            scan = [show(c) for c in definition.children if key in c and c[key] == value]
            fast = [show(c) for c in definition.get_instances(value, key=key)]
            if scan != fast:
                fail("%s: lookup of instances by %s == %r returns %r, a scan of the children finds %r"
                     % (what, key, value, fast, scan))


old_default = sdn.namespace_manager.default
sdn.namespace_manager.default = "EDIF"
try:
    netlist = sdn.Netlist(name="n")
    lib = netlist.create_library(name="work")
    top = lib.create_definition(name="top")
    first = top.create_child(name="n1", properties={"EDIF.identifier": "id1"})

    # 1. a free identifier but a duplicate NAME: adding it must be refused
    clash = sdn.Instance(name="n1", properties={"EDIF.identifier": "id2"})
    try:
        top.add_child(clash)
    except ValueError:
        pass
    else:
        fail("adding a second instance named 'n1' was not refused")
    assert clash.parent is None and list(top.children) == [first]
    check_lookup(top, "after the refused add")

    # 2. the refused element is no child: its identifier 'id2' is still free
    other = sdn.Instance(name="n2", properties={"EDIF.identifier": "id2"})
    try:
        top.add_child(other)
    except ValueError as e:
        fail("adding instance n2/id2 is refused (%s) although no child of 'top' uses that "
             "identifier: children are %r"
             % (e, [(c.name, c["EDIF.identifier"]) for c in top.children]))
    check_lookup(top, "after adding n2")

    # 3. same on an existing child: it may take the identifier as well
    third = top.create_child(name="n3", properties={"EDIF.identifier": "id3"})
    other["EDIF.identifier"] = "id4"
    third["EDIF.identifier"] = "ID2"       # identifiers are compared case-insensitively: free again
    third["EDIF.identifier"] = "id2"
    check_lookup(top, "after the renames")
    print("OK")
finally:
    sdn.namespace_manager.default = old_default
