"""C10 demo: under the EDIF policy "identifiers ... remain unique after any history" and "asking a
parent for a child by exact name or identifier returns precisely the children a linear scan finds,
for netlists built by hand, by the readers, or BY CLONING" - here for a child whose NAME WAS DELETED
(it keeps its EDIF identifier) before the netlist is cloned."""
import sys
import spydrnet as sdn


def fail(msg):
    print("FAIL:", msg)
    sys.exit(1)


def check(definition, what):
    for key, values in ((".NAME", ["a", "b", "c"]), ("EDIF.identifier", ["pa", "pb", "pc"])):
        for value in values:
            scan = [id(p) for p in definition.ports if key in p and p[key] == value]
            fast = [id(p) for p in definition.get_ports(value, key=key)]
            if scan != fast:
                fail("%s: asking definition %r for the port with %s == %r finds %d port(s), "
                     "a linear scan of its ports finds %d"
                     % (what, definition.name, key, value, len(fast), len(scan)))
    ids = [p["EDIF.identifier"].lower() for p in definition.ports if "EDIF.identifier" in p]
    if len(ids) != len(set(ids)):
        fail("%s: duplicate EDIF identifiers among the ports of %r: %r" % (what, definition.name, ids))


old_default = sdn.namespace_manager.default
sdn.namespace_manager.default = "EDIF"
try:
    netlist = sdn.Netlist(name="n")
    lib = netlist.create_library(name="work")
    top = lib.create_definition(name="top")
    pa = top.create_port(name="a", properties={"EDIF.identifier": "pa"})
    pb = top.create_port(name="b", properties={"EDIF.identifier": "pb"})
    del pb.name                      # name deletion: the port keeps its identifier 'pb'
    check(top, "original")

    copy = netlist.clone()
    ctop = next(copy.get_definitions("top"))
    assert ctop is not top and [p.name for p in ctop.ports] == ["a", None]
    check(ctop, "clone of the netlist")

    # a duplicate identifier (case variant) must be refused in the clone exactly as in the original
    for d, what in ((top, "original"), (ctop, "clone of the netlist")):
        try:
            d.create_port(name="c", properties={"EDIF.identifier": "PB"})
        except ValueError:
            pass
        else:
            check(d, what + " after create_port(identifier 'PB')")
            fail("%s: a second port with identifier 'PB' was accepted" % what)
        for p in list(d.ports):      # create_port adds the port first and names it afterwards
            if p.name is None and "EDIF.identifier" not in p:
                d.remove_port(p)
        check(d, what + " after the refused edit")

    # the detached clone of a definition is indexed as well
    dclone = top.clone()
    check(dclone, "clone of the definition")
    print("OK")
finally:
    sdn.namespace_manager.default = old_default
