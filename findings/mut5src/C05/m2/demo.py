"""C05 demo: the EDIF reader gives every instance exactly the properties the file
declares (identifier, original name when a rename construct is used, typed value).

Instance u0 has one renamed property followed by plain integer / boolean / string ones.
"""
import io

import spydrnet as sdn
from spydrnet.parsers.edif.parser import EdifParser

EDIF = """
(edif demo (edifVersion 2 0 0) (edifLevel 0) (keywordMap (keywordLevel 0))
  (library prims (edifLevel 0) (technology (numberDefinition))
    (cell LUT1 (cellType GENERIC)
      (view netlist (viewType NETLIST)
        (interface (port I0 (direction INPUT)) (port O (direction OUTPUT))))))
  (library work (edifLevel 0) (technology (numberDefinition))
    (cell top (cellType GENERIC)
      (view netlist (viewType NETLIST)
        (interface (port a (direction INPUT)) (port y (direction OUTPUT)))
        (contents
          (instance u0 (viewRef netlist (cellRef LUT1 (libraryRef prims)))
            (property (rename INIT_A "INIT.A") (string "2'h1"))
            (property WIDTH (integer 4))
            (property KEEP (boolean (true)))
            (property LOC (string "SLICE_X0Y0")))
          (instance u1 (viewRef netlist (cellRef LUT1 (libraryRef prims)))
            (property WIDTH (integer 7)))
          (net a (joined (portRef a) (portRef I0 (instanceRef u0))))
          (net n (joined (portRef O (instanceRef u0)) (portRef I0 (instanceRef u1))))
          (net y (joined (portRef O (instanceRef u1)) (portRef y)))))))
  (design top (cellRef top (libraryRef work))))
"""

parser = EdifParser.from_file_handle(io.StringIO(EDIF))
parser.parse()
netlist = parser.netlist
top = netlist.top_instance.reference
u0 = next(top.get_instances("u0"))
u1 = next(top.get_instances("u1"))

expected_u0 = [
    {"identifier": "INIT_A", "original_identifier": "INIT.A", "value": "2'h1"},
    {"identifier": "WIDTH", "value": 4},
    {"identifier": "KEEP", "value": True},
    {"identifier": "LOC", "value": "SLICE_X0Y0"},
]
got_u0 = [dict(p) for p in u0["EDIF.properties"]]
assert got_u0 == expected_u0, (
    "instance u0 does not carry exactly the properties the text declares:\n"
    "  declared: %r\n  parsed  : %r" % (expected_u0, got_u0)
)
assert [type(p["value"]) for p in got_u0] == [str, int, bool, str]
assert [dict(p) for p in u1["EDIF.properties"]] == [{"identifier": "WIDTH", "value": 7}]
stray = [k for k in u0.data if k.startswith("EDIF.properties.")]
assert not stray, "parser scratch keys left on the instance: %r" % stray
print("OK")
