"""C05 demo: bit nets written as name[i] / id_i_ are merged into one cable with bit i at
position i - base, whatever order they appear in and whichever bits are missing.

The nets of bus d appear in the order d[6], d[2], d[4], d[0]  (descending with gaps,
odd bits never declared); bus e appears in plain descending order e[2], e[1], e[0].
"""
import io

import spydrnet as sdn
from spydrnet.parsers.edif.parser import EdifParser

D_ORDER = [6, 2, 4, 0]
E_ORDER = [2, 1, 0]


def bit_net(bus, i):
    # bit i of bus d drives instance d<i>; bit i of e drives instance e<i>
    return (
        '          (net (rename %s_%d_ "%s[%d]") (joined (portRef I0 (instanceRef %s%d))))\n'
        % (bus, i, bus, i, bus, i)
    )


insts = "".join(
    "          (instance %s%d (viewRef netlist (cellRef BUF (libraryRef prims))))\n" % (b, i)
    for b, order in (("d", D_ORDER), ("e", E_ORDER))
    for i in order
)
nets = "".join(bit_net("d", i) for i in D_ORDER) + "".join(bit_net("e", i) for i in E_ORDER)

EDIF = """
(edif demo (edifVersion 2 0 0) (edifLevel 0) (keywordMap (keywordLevel 0))
  (library prims (edifLevel 0) (technology (numberDefinition))
    (cell BUF (cellType GENERIC)
      (view netlist (viewType NETLIST)
        (interface (port I0 (direction INPUT)) (port O (direction OUTPUT))))))
  (library work (edifLevel 0) (technology (numberDefinition))
    (cell top (cellType GENERIC)
      (view netlist (viewType NETLIST)
        (interface)
        (contents
%s%s))))
  (design top (cellRef top (libraryRef work))))
""" % (insts, nets)

parser = EdifParser.from_file_handle(io.StringIO(EDIF))
parser.parse()
top = parser.netlist.top_instance.reference

for bus, order in (("d", D_ORDER), ("e", E_ORDER)):
    cables = list(top.get_cables(bus))
    assert len(cables) == 1, "bus %s was not merged into one cable: %r" % (bus, cables)
    cable = cables[0]
    base = min(order)
    assert cable.lower_index == base, "bus %s: base index %r" % (bus, cable.lower_index)
    assert len(cable.wires) == max(order) - base + 1, "bus %s: width %d" % (bus, len(cable.wires))
    for pos, wire in enumerate(cable.wires):
        assert wire.cable is cable
        i = pos + base
        found = sorted(p.instance.name for p in wire.pins)
        want = ["%s%d" % (bus, i)] if i in order else []
        assert found == want, (
            "bus %s: position %d (bit %s[%d]) is joined to %r, the text joins it to %r"
            % (bus, pos, bus, i, found, want)
        )
print("OK")
