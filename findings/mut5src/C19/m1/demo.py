"""C19 demo: every change to element data made through the public API (here: the `properties=` keyword of the
constructors / create_* calls) is announced to registered listeners before it takes effect, so a listener that
merely replays the announcements holds an exact mirror of every element's data."""
import spydrnet as sdn
from spydrnet.callback.callback_listener import CallbackListener


class DataMirror(CallbackListener):
    """Replays dictionary announcements into its own per-element dictionaries."""

    def __init__(self):
        self.data = {}
        self.elements = {}
        self.early = []  # announcements that arrived after the change had already taken effect
        super().__init__()

    def _d(self, element):
        self.elements[id(element)] = element
        return self.data.setdefault(id(element), {})

    def dictionary_set(self, element, key, value):
        if key in element and element[key] == value and self._d(element).get(key, object()) != value:
            self.early.append((element, key))
        self._d(element)[key] = value

    def dictionary_delete(self, element, key):
        self._d(element).pop(key, None)

    def dictionary_pop(self, element, key):
        self._d(element).pop(key, None)

    def check(self, element, what):
        mirrored = {k: v for k, v in self._d(element).items()}
        actual = dict(element.data)
        assert mirrored == actual, (
            "C19 violated: a listener that replays the announcements does not mirror the data of %s: "
            "mirror has %r, the element has %r (missing announcements for %r)"
            % (what, mirrored, actual, sorted(set(actual) - set(mirrored)))
        )


mirror = DataMirror()
try:
    netlist = sdn.Netlist(name="n", properties={"origin": "demo"})
    lib = netlist.create_library(name="work", properties={"vendor": "x"})
    top = lib.create_definition(name="top", properties={"keep": True})
    port = top.create_port(name="p", properties={"io": "pad"}, pins=2)
    inst = top.create_child(name="u0", properties={"LOC": "X0Y0"}, reference=lib.create_definition(name="leaf"))
    cable = top.create_cable(name="bus", properties={"width_hint": 2, "keep": "true"}, wires=2)
    loose = sdn.Cable(name="loose", properties={"a": 1})
    cable["later"] = 5
    del cable["later"]

    for element, what in (
        (netlist, "the netlist"), (lib, "library work"), (top, "definition top"), (port, "port p"),
        (inst, "instance u0"), (cable, "cable bus (create_cable(properties=...))"),
        (loose, "cable loose (Cable(properties=...))"),
    ):
        mirror.check(element, what)
    assert not mirror.early
finally:
    mirror.deregister_all_listeners()

print("OK: all element data set through constructors was announced and mirrored")
