"""C19 demo: every change of a netlist's top instance made through the public editing API (the `top_instance`
property and `Netlist.set_top_instance`) is announced to registered listeners before it takes effect, so a
listener that merely replays the announcements always knows the top instance of every netlist."""
import spydrnet as sdn
from spydrnet.callback.callback_listener import CallbackListener


class TopMirror(CallbackListener):
    def __init__(self):
        self.top = {}       # id(netlist) -> announced top instance
        self.log = []
        super().__init__()

    def netlist_top_instance(self, netlist, instance):
        # announced before it takes effect
        assert instance is None or netlist.top_instance is not instance, "announced after the fact"
        self.log.append((netlist.name, getattr(instance, "name", None)))
        self.top[id(netlist)] = instance

    def mirrored_top(self, netlist):
        top = self.top.get(id(netlist))
        if isinstance(top, sdn.Definition):   # a definition was announced: an instance of it follows
            return None
        return top


first, second = TopMirror(), TopMirror()   # several listeners
try:
    netlist = sdn.Netlist(name="n")
    lib = netlist.create_library(name="work")
    a = lib.create_definition(name="a")
    b = lib.create_definition(name="b")
    inst_a = sdn.Instance(name="top_a")
    inst_a.reference = a
    inst_b = sdn.Instance(name="top_b")
    inst_b.reference = b

    steps = [
        ("netlist.top_instance = inst_a", lambda: setattr(netlist, "top_instance", inst_a)),
        ("netlist.set_top_instance(inst_b)", lambda: netlist.set_top_instance(inst_b)),
        ("netlist.set_top_instance(a, 'a_top')", lambda: netlist.set_top_instance(a, "a_top")),
        ("netlist.set_top_instance(inst_a)", lambda: netlist.set_top_instance(inst_a)),
        ("netlist.top_instance = None", lambda: setattr(netlist, "top_instance", None)),
        ("netlist.set_top_instance(inst_b)", lambda: netlist.set_top_instance(inst_b)),
    ]
    for text, step in steps:
        step()
        for which, mirror in (("first", first), ("second", second)):
            assert mirror.mirrored_top(netlist) is netlist.top_instance, (
                "C19 violated: after `%s` the top instance is %s but the %s listener, replaying the announcements, "
                "still has %s - the change was not announced"
                % (text, netlist.top_instance, which, mirror.mirrored_top(netlist))
            )
finally:
    first.deregister_all_listeners()
    second.deregister_all_listeners()

print("OK: every top-instance change was announced")
