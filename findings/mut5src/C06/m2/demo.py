"""C06 demo: escaped identifiers.  An escaped identifier ends at the first white space character
(space, tab or newline alike); the reader must build exactly the cables / ports / connections the
source describes whichever white space the writer used after the name."""
import io
import sys
from spydrnet.parsers.verilog.parser import VerilogParser


def read(src):
    return VerilogParser.from_file_handle(io.StringIO(src)).parse()


def describe(netlist):
    """definitions -> ports, cables and the pins joined by every wire (by name)"""
    out = {}
    for lib in netlist.libraries:
        for d in lib.definitions:
            ports = sorted((p.name, p.direction.name, len(p.pins)) for p in d.ports)
            nets = {}
            for c in d.cables:
                for i, w in enumerate(c.wires):
                    ends = []
                    for pin in w.pins:
                        if hasattr(pin, "instance") and pin.instance is not None:
                            ends.append((pin.instance.name, pin.inner_pin.port.name,
                                         pin.inner_pin.port.pins.index(pin.inner_pin)))
                        else:
                            ends.append(("", pin.port.name, pin.port.pins.index(pin)))
                    nets[(c.name, i)] = sorted(ends)
            out[(lib.name, d.name)] = (ports, nets, sorted(c.name for c in d.children))
    return out


TEMPLATE = """
module top(input a, output \\y$out{ws});
  wire \\n[1]{ws};
  INV \\u.1{ws}(.I(a), .O(\\n[1]{ws}));
  INV \\u.2{ws}(.I(\\n[1]{ws}), .O(\\y$out{ws}));
endmodule
"""

try:
    with_space = describe(read(TEMPLATE.format(ws=" ")))
except Exception as e:  # pragma: no cover
    print("FAIL: reference text (escaped identifiers ended by a space) not read:", e)
    sys.exit(1)

top = with_space[("work", "top")]
assert ("\\y$out", "OUT", 1) in top[0], top[0]
assert top[2] == ["\\u.1", "\\u.2"], top[2]
assert top[1][("\\n[1]", 0)] == [("\\u.1", "O", 0), ("\\u.2", "I", 0)], top[1]

for label, ws in (("newline", "\n"), ("tab", "\t"), ("tab+newline", "\t\n")):
    try:
        other = describe(read(TEMPLATE.format(ws=ws)))
    except BaseException as e:
        print("FAIL: escaped identifiers ended by a %s: the reader rejects the source: %s"
              % (label, str(e)[:200]))
        sys.exit(1)
    if other != with_space:
        print("FAIL: escaped identifiers ended by a %s give a different design than the same "
              "source with spaces:\n  %r\n  %r" % (label, other[("work", "top")], top))
        sys.exit(1)
print("OK: same design whichever white space ends the escaped identifiers")
