"""C06 demo: "the single root module of the design becomes the top", for any module order.

The leaf is declared first, then the root, then two intermediate levels, each one used before
its declaration.  The design has exactly one root module (`root`)."""
import io
import sys
import spydrnet as sdn
from spydrnet.parsers.verilog.parser import VerilogParser

SRC = """
module leaf(input a, output y);
endmodule

module root(input a, output y);
  mid1 u1(.a(a), .y(y));
endmodule

module mid1(input a, output y);
  mid2 u2(.a(a), .y(y));
endmodule

module mid2(input a, output y);
  leaf u3(.a(a), .y(y));
endmodule
"""

parser = VerilogParser.from_file_handle(io.StringIO(SRC))
netlist = parser.parse()

work = next(netlist.get_libraries("work"))
# the root modules of the design: definitions that nobody instantiates
roots = [d.name for d in work.definitions
         if not [r for r in d.references if r.parent is not None]]
assert roots == ["root"], "test design should have the single root 'root', got %r" % roots

top = netlist.top_instance
assert top is not None, "no top instance"
if top.reference.name != "root":
    print("FAIL: the single root module is 'root' but the top instance references %r"
          % top.reference.name)
    sys.exit(1)
assert top.name == "root_top", top.name
# the whole hierarchy is reachable from the top
paths = sorted(h.name for h in netlist.get_hinstances(recursive=True))
assert paths == ["u1", "u1/u2", "u1/u2/u3"], paths
print("OK: top is", top.reference.name, paths)
