"""C09 demo: "two endpoints (leaf pin bits, top-level port bits) are electrically connected after
flattening if and only if they were before", with a BUS PORT whose bit 0 is unconnected inside and
outside while its other bit carries a net across the cell boundary; "the netlist stays well-formed"."""
import sys
import spydrnet as sdn
from spydrnet.uniquify import uniquify
from spydrnet.flatten import flatten

netlist = sdn.Netlist(name="n")
lib = netlist.create_library(name="work")
buf = lib.create_definition(name="BUF")
buf.create_port(name="I", direction=sdn.IN).create_pin()
buf.create_port(name="O", direction=sdn.OUT).create_pin()
I, O = buf.ports[0].pins[0], buf.ports[1].pins[0]

# cell: bus input d[1:0], only d[1] is used inside; output q
cell = lib.create_definition(name="cell")
d = cell.create_port(name="d", direction=sdn.IN); d.create_pins(2)
q = cell.create_port(name="q", direction=sdn.OUT); q.create_pin()
x = cell.create_child(name="x", reference=buf)
n = cell.create_cable(name="n").create_wire()
n.connect_pin(d.pins[1]); n.connect_pin(x.pins[I])
o = cell.create_cable(name="o").create_wire()
o.connect_pin(x.pins[O]); o.connect_pin(q.pins[0])

top = lib.create_definition(name="top")
pa = top.create_port(name="a", direction=sdn.IN); pa.create_pin()
pq = top.create_port(name="q", direction=sdn.OUT); pq.create_pin()
u = top.create_child(name="u", reference=cell)
wa = top.create_cable(name="a").create_wire()
wq = top.create_cable(name="q").create_wire()
wa.connect_pin(pa.pins[0]); wa.connect_pin(u.pins[d.pins[1]])      # u.d[0] is left open
wq.connect_pin(u.pins[q.pins[0]]); wq.connect_pin(pq.pins[0])
netlist.top_instance = sdn.Instance(name="top_i")
netlist.top_instance.reference = top

expected = sorted([sorted(["top.a[0]", "u/x.I[0]"]), sorted(["top.q[0]", "u/x.O[0]"])])

uniquify(netlist)
flatten(netlist)

assert [c.name for c in top.children] == ["u/x"], [c.name for c in top.children]
groups, problems = [], []
for cable in top.cables:
    for wire in cable.wires:
        ends = []
        for pin in wire.pins:
            if isinstance(pin, sdn.OuterPin):
                if pin.instance is None or pin.instance.parent is not top:
                    problems.append("wire of cable %r holds a pin of an instance that is not a "
                                    "child of the top definition" % cable.name)
                    continue
                ends.append("%s.%s[%d]" % (pin.instance.name, pin.inner_pin.port.name,
                                           pin.inner_pin.port.pins.index(pin.inner_pin)))
            elif pin.port.definition is not top:
                problems.append("wire of cable %r of the top definition is tied to port pin %s[%d] "
                                "of definition %r" % (cable.name, pin.port.name,
                                                      pin.port.pins.index(pin),
                                                      pin.port.definition.name))
            else:
                ends.append("top.%s[%d]" % (pin.port.name, pin.port.pins.index(pin)))
        if ends:
            groups.append(sorted(ends))
groups.sort()
if groups != expected or problems:
    print("FAIL: flatten changed the connectivity / left an ill-formed netlist\n"
          "  before (hierarchical): %r\n  after  (flat):         %r\n  %s"
          % (expected, groups, "\n  ".join(problems)))
    sys.exit(1)
print("OK:", groups)
