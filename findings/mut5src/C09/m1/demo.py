"""C09 demo: "two endpoints (leaf pin bits, top-level port bits) are electrically connected after
flattening if and only if they were before, including nets that ... feed through a cell" - here an
inner net of the cell is tied to two bits of the same BUS PORT, so the cell shorts the two outer
nets that drive the bus."""
import sys
import spydrnet as sdn
from spydrnet.uniquify import uniquify
from spydrnet.flatten import flatten

netlist = sdn.Netlist(name="n")
lib = netlist.create_library(name="work")
buf = lib.create_definition(name="BUF")
buf.create_port(name="I", direction=sdn.IN).create_pin()
buf.create_port(name="O", direction=sdn.OUT).create_pin()

# cell 'tie': bus port d[1:0]; the inner net 'n' joins d[0], d[1] and the buffer input
tie = lib.create_definition(name="tie")
d = tie.create_port(name="d", direction=sdn.IN); d.create_pins(2)
q = tie.create_port(name="q", direction=sdn.OUT); q.create_pin()
x = tie.create_child(name="x", reference=buf)
n = tie.create_cable(name="n").create_wire()
n.connect_pin(d.pins[0]); n.connect_pin(d.pins[1]); n.connect_pin(x.pins[buf.ports[0].pins[0]])
o = tie.create_cable(name="o").create_wire()
o.connect_pin(x.pins[buf.ports[1].pins[0]]); o.connect_pin(q.pins[0])

top = lib.create_definition(name="top")
pa = top.create_port(name="a", direction=sdn.IN); pa.create_pin()
pb = top.create_port(name="b", direction=sdn.IN); pb.create_pin()
pq = top.create_port(name="q", direction=sdn.OUT); pq.create_pin()
u = top.create_child(name="u", reference=tie)
l1 = top.create_child(name="l1", reference=buf)      # listens on net a
l2 = top.create_child(name="l2", reference=buf)      # listens on net b
wa = top.create_cable(name="a").create_wire()
wb = top.create_cable(name="b").create_wire()
wq = top.create_cable(name="q").create_wire()
wa.connect_pin(pa.pins[0]); wa.connect_pin(u.pins[d.pins[0]]); wa.connect_pin(l1.pins[buf.ports[0].pins[0]])
wb.connect_pin(pb.pins[0]); wb.connect_pin(u.pins[d.pins[1]]); wb.connect_pin(l2.pins[buf.ports[0].pins[0]])
wq.connect_pin(u.pins[q.pins[0]]); wq.connect_pin(pq.pins[0])
netlist.top_instance = sdn.Instance(name="top_i")
netlist.top_instance.reference = top

# electrical nets of the hierarchical design (worked out by hand):
expected = sorted([
    sorted(["top.a[0]", "top.b[0]", "l1.I[0]", "l2.I[0]", "u/x.I[0]"]),   # a and b are shorted inside u
    sorted(["top.q[0]", "u/x.O[0]"]),
])

uniquify(netlist)
try:
    flatten(netlist)
except BaseException as e:
    print("FAIL: flatten raised %s: %s" % (type(e).__name__, str(e)[:200]))
    sys.exit(1)

assert sorted(c.name for c in top.children) == ["l1", "l2", "u/x"], [c.name for c in top.children]
groups = []
for cable in top.cables:
    for wire in cable.wires:
        ends = []
        for pin in wire.pins:
            if isinstance(pin, sdn.OuterPin):
                ends.append("%s.%s[%d]" % (pin.instance.name, pin.inner_pin.port.name,
                                           pin.inner_pin.port.pins.index(pin.inner_pin)))
            else:
                assert pin.port.definition is top, "wire of the top tied to a foreign pin"
                ends.append("top.%s[%d]" % (pin.port.name, pin.port.pins.index(pin)))
        if ends:
            groups.append(sorted(ends))
groups.sort()
if groups != expected:
    print("FAIL: connectivity changed by flatten\n  before (hierarchical): %r\n  after  (flat):         %r"
          % (expected, groups))
    sys.exit(1)
print("OK:", groups)
