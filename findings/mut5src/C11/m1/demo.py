"""C11 demo: hierarchical queries must return exactly one reference per occurrence
(no omissions) when the query root is a collection whose members are nested in
one another (an instance together with instances below it, or a whole library)."""
import spydrnet as sdn

netlist = sdn.Netlist(name="n")
lib = netlist.create_library(name="work")
leaf = lib.create_definition(name="LEAF")
leaf.create_port(name="i", pins=1)
mid = lib.create_definition(name="MID")
mid_cable = mid.create_cable(name="c", wires=1)
b = mid.create_child(name="b", reference=leaf)
top_def = lib.create_definition(name="TOP")
a1 = top_def.create_child(name="a1", reference=mid)
a2 = top_def.create_child(name="a2", reference=mid)
netlist.top_instance = sdn.Instance(name="top")
netlist.top_instance.reference = top_def


def names(hrefs):
    return sorted(h.name for h in hrefs)


# every occurrence of an instance in the elaborated design
expected_all = ["", "a1", "a1/b", "a2", "a2/b"]

# 1. occurrences of the instances a1 and b (b lives below a1 and below a2)
got = list(sdn.get_hinstances([a1, b]))
assert len(got) == len(set(got)), "duplicate hierarchical references: %s" % names(got)
assert names(got) == ["a1", "a1/b", "a2/b"], (
    "occurrences of {a1, b} should be a1, a1/b, a2/b but the query returned %s" % names(got)
)

# 2. a library as root: one reference per occurrence of every instance of its definitions
got = list(sdn.get_hinstances(lib))
assert names(got) == expected_all, (
    "get_hinstances(library) omitted occurrences: %s (expected %s)" % (names(got), expected_all)
)

# 3. the same enumeration feeds the occurrences of the ports of LEAF when asked with MID
got = list(sdn.get_hports([mid, leaf]))
assert names(got) == ["a1/b/i", "a2/b/i"], (
    "get_hports([MID, LEAF]) should give a1/b/i and a2/b/i, got %s" % names(got)
)
print("ok")
