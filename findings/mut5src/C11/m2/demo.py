"""C11 demo: a hierarchical reference reports invalid in agreement with the current
netlist after any edit (here: the library of the top definition is taken out of the
netlist, or another instance is made the top through Netlist.set_top_instance)."""
import spydrnet as sdn


def build():
    netlist = sdn.Netlist(name="n")
    lib = netlist.create_library(name="work")
    leaf = lib.create_definition(name="LEAF")
    leaf.create_port(name="i", pins=1)
    top_def = lib.create_definition(name="TOP")
    top_def.create_cable(name="c", wires=2)
    top_def.create_child(name="u", reference=leaf)
    netlist.top_instance = sdn.Instance(name="top")
    netlist.top_instance.reference = top_def
    return netlist, lib, top_def


# --- edit 1: the library that holds the top definition leaves the netlist
netlist, lib, top_def = build()
hrefs = list(sdn.get_hinstances(netlist, recursive=True)) + list(sdn.get_hwires(netlist))
assert len(hrefs) == 3 and all(h.is_valid for h in hrefs), "all references valid before the edit"
netlist.remove_library(lib)
assert netlist.libraries == [] and lib.netlist is None
stale = [h.name for h in hrefs if h.is_valid]
assert not stale, (
    "netlist has no library any more, yet these references still report valid: %s" % stale
)
assert list(sdn.get_hwires(hrefs[0])) == [], "an invalid reference must enumerate nothing"

# --- edit 2: another instance becomes the top (lesser-used entry point set_top_instance)
netlist, lib, top_def = build()
old_top = netlist.top_instance
href_u = next(sdn.get_hinstances(netlist))
assert href_u.name == "u" and href_u.is_valid and href_u.is_unique
new_top = sdn.Instance(name="top2")
new_top.reference = top_def
netlist.set_top_instance(new_top)
assert netlist.top_instance is new_top
assert href_u.parent.item is old_top
assert href_u.is_valid is False, (
    "path top/u starts at an instance that is no longer the top instance, but is_valid says True"
)
assert href_u.is_unique is False, "an invalid reference may not be reported unique"
# the occurrences of u are now exactly the one path below the new top
occ = list(sdn.get_hinstances(top_def.children[0]))
assert len(occ) == 1 and occ[0].parent.item is new_top and occ[0].is_valid
print("ok")
