"""C02 demo: at all times an instance that references a definition is a member of
that definition's reference set -- also after the instance is "re-pointed" to the
definition it already references (a legal, shape-compatible re-pointing).
"""
import spydrnet as sdn

lib = sdn.Netlist("n").create_library("work")
leaf = lib.create_definition("leaf")
p = leaf.create_port("P", pins=2)
top = lib.create_definition("top")
u0 = top.create_child("u0", reference=leaf)
u1 = top.create_child("u1", reference=leaf)
w = top.create_cable("w", wires=1).wires[0]
w.connect_pin(u0.pins[p.pins[0]])


def check():
    for inst in (u0, u1):
        ref = inst.reference
        assert ref is leaf
        assert inst in ref.references, (
            "instance %s references definition %s but is not in its reference set"
            % (inst.name, ref.name)
        )
        inner = [pin for port in ref.ports for pin in port.pins]
        assert len(inst.pins) == len(inner), (
            "instance %s carries %d outer pins for the %d inner pins of %s"
            % (inst.name, len(inst.pins), len(inner), ref.name)
        )
        for pin in inner:
            assert inst.pins[pin].instance is inst and inst.pins[pin].inner_pin is pin


check()
# e.g. a script that normalises references: instance.reference = lookup(instance.reference.name)
u0.reference = next(lib.get_definitions("leaf"))
check()
assert u0.pins[p.pins[0]].wire is w

# later edits of the definition must still reach u0
q = leaf.create_port("Q", pins=1)
check()
leaf.remove_port(p)
check()
assert len(w.pins) == 0, "outer pin of a removed port is still on its wire"
print("OK")
