"""C02 demo: re-pointing an instance to a shape-compatible definition keeps every
connection on the corresponding pin, whatever the order in which the ports were
added to a definition that already had instances.
"""
import spydrnet as sdn

lib = sdn.Netlist("n").create_library("work")

d1 = lib.create_definition("d1")
a = d1.create_port("A", pins=2)

top = lib.create_definition("top")
u = top.create_child("u", reference=d1)
wires = top.create_cable("w", wires=3).wires
wires[0].connect_pin(u.pins[a.pins[0]])
wires[1].connect_pin(u.pins[a.pins[1]])

# a port is added IN FRONT of the existing one while d1 already has an instance
b = sdn.Port("B")
b.create_pin()
d1.add_port(b, position=0)
wires[2].connect_pin(u.pins[b.pins[0]])
assert [p.name for p in d1.ports] == ["B", "A"]

# d2 has the same shape as d1: (1 pin, 2 pins)
d2 = lib.create_definition("d2")
x = d2.create_port("X", pins=1)
y = d2.create_port("Y", pins=2)

before = {}
for pi, port in enumerate(d1.ports):
    for bi, pin in enumerate(port.pins):
        before[(pi, bi)] = u.pins[pin].wire

u.reference = d2

assert u in d2.references and u not in d1.references
inner = [pin for port in d2.ports for pin in port.pins]
assert len(u.pins) == len(inner)
for pi, port in enumerate(d2.ports):
    for bi, pin in enumerate(port.pins):
        op = u.pins[pin]
        assert op.instance is u and op.inner_pin is pin
        assert op.wire is before[(pi, bi)], (
            "after re-pointing, pin %d of port #%d (%s) is on wire %s but the "
            "corresponding pin of the old definition was on wire %s"
            % (bi, pi, port.name,
               "w[%d]" % wires.index(op.wire) if op.wire else None,
               "w[%d]" % wires.index(before[(pi, bi)]))
        )
        assert op in op.wire.pins
print("OK")
