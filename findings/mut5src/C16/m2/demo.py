"""C16 demo: composing a netlist to EDIF must leave its bundle attributes as they were
(only library/cell ordering, EDIF identifiers and a defaulted netlist name may be recorded)."""
import os
import tempfile

import spydrnet as sdn


def build():
    netlist = sdn.Netlist(name="n")
    lib = netlist.create_library(name="work")
    top = lib.create_definition(name="top")
    port = top.create_port(name="d", direction=sdn.IN)
    port.create_pins(2)                      # two-bit port, never declared as an array
    cable = top.create_cable(name="d")
    cable.create_wires(2)
    for w, p in zip(cable.wires, port.pins):
        w.connect_pin(p)
    netlist.top_instance = sdn.Instance(name="top")
    netlist.top_instance.reference = top
    return netlist, port


def attrs(port):
    return (port.is_scalar, port.is_array, port.is_downto, port.lower_index, len(port.pins))


with tempfile.TemporaryDirectory() as d:
    # reference: same netlist, never composed
    ref_netlist, ref_port = build()
    netlist, port = build()

    sdn.compose(netlist, os.path.join(d, "a.edf"))
    assert attrs(port) == attrs(ref_port), "C16 violated: bundle attributes changed by compose"

    # the same edit on both netlists: narrow the port to one bit
    for n_, p_ in ((ref_netlist, ref_port), (netlist, port)):
        pin = p_.pins[1]
        pin.wire.disconnect_pin(pin)
        p_.remove_pin(pin)

    assert attrs(port) == attrs(ref_port), (
        "C16 violated: composing to EDIF changed a bundle attribute of port 'd': after the same edit the composed "
        "netlist has (is_scalar, is_array, is_downto, lower_index, width) = %r, the never-composed one %r"
        % (attrs(port), attrs(ref_port))
    )

    sdn.compose(netlist, os.path.join(d, "b.edf"))
    sdn.compose(ref_netlist, os.path.join(d, "c.edf"))
    strip = lambda t: "\n".join(l for l in t.splitlines() if "timeStamp" not in l)
    tb = strip(open(os.path.join(d, "b.edf")).read())
    tc = strip(open(os.path.join(d, "c.edf")).read())
    assert tb == tc, "C16 violated: EDIF text differs between composed-before and never-composed netlist"

print("OK: EDIF compose left the bundle attributes unchanged")
