"""C17 demo: whatever names siblings carry (here: eleven 300-character instance names that differ only
after the 255th character), the EDIF writer gives each one an identifier that the EDIF naming rules
accept and that is unique ignoring case, and the exported file can be read again with the original names."""
import os
import re
import tempfile

import spydrnet as sdn

N = 11
names = ["u" + "a" * 259 + "_tail_%02d" % k + "z" * 32 for k in range(N)]
assert all(len(n) == 300 for n in names) and len(set(names)) == N

netlist = sdn.Netlist(name="n")
lib = netlist.create_library(name="work")
leaf = lib.create_definition(name="leaf")
top = lib.create_definition(name="top")
for nm in names:
    top.create_child(name=nm, reference=leaf)
netlist.top_instance = sdn.Instance(name="top")
netlist.top_instance.reference = top


def legal(identifier):
    if identifier.startswith("&"):
        return re.match(r"^&[0-9A-Za-z_]{1,255}$", identifier) is not None
    return re.match(r"^[A-Za-z][0-9A-Za-z_]{0,254}$", identifier) is not None


with tempfile.TemporaryDirectory() as d:
    out = os.path.join(d, "long.edf")
    sdn.compose(netlist, out)

    idents = [inst["EDIF.identifier"] for inst in top.children]
    bad = [(len(i), i[-12:]) for i in idents if not legal(i)]
    assert not bad, (
        "C17 violated: the EDIF writer assigned identifiers that the EDIF naming rules do not accept "
        "(longer than 255 characters): (length, tail) = %r" % bad
    )
    assert len(set(i.lower() for i in idents)) == N, "C17 violated: identifiers not unique ignoring case"

    try:
        reread = sdn.parse(out)
    except Exception as e:  # noqa
        raise AssertionError("C17 violated: the exported file is not readable again: %r" % (e,))
    got = sorted(i.name for i in reread.top_instance.reference.children)
    assert got == sorted(names), "C17 violated: the re-read netlist does not show the original names"

print("OK: all identifiers legal and unique, file re-read with the original names")
