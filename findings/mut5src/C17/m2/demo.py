"""C17 demo (library scope): libraries whose names are not legal EDIF identifiers, or differ only in letter
case, get legal unique identifiers AND their original names are recorded as renames, so the exported file
read again shows the original library names."""
import os
import re
import tempfile

import spydrnet as sdn

lib_names = ["work", "WORK", "my lib/v1.0", "3rd-party[0]"]

netlist = sdn.Netlist(name="n")
libs = [netlist.create_library(name=nm) for nm in lib_names]
leafs = [lib.create_definition(name="leaf%d" % k) for k, lib in enumerate(libs)]
top = libs[0].create_definition(name="top")
for k, leaf in enumerate(leafs):
    top.create_child(name="u%d" % k, reference=leaf)
netlist.top_instance = sdn.Instance(name="top")
netlist.top_instance.reference = top

with tempfile.TemporaryDirectory() as d:
    out = os.path.join(d, "libs.edf")
    sdn.compose(netlist, out)
    text = open(out).read()

    idents = [lib["EDIF.identifier"] for lib in netlist.libraries]
    for i in idents:
        assert re.match(r"^(&[0-9A-Za-z_]+|[A-Za-z][0-9A-Za-z_]*)$", i) and len(i) <= 255, i
    assert len(set(i.lower() for i in idents)) == len(idents), "C17 violated: library identifiers not unique"

    for lib in netlist.libraries:
        if lib.name != lib["EDIF.identifier"]:
            assert '(rename %s "%s")' % (lib["EDIF.identifier"], lib.name) in text, (
                "C17 violated: the EDIF writer did not record the original name %r of library %s as a rename"
                % (lib.name, lib["EDIF.identifier"])
            )

    reread = sdn.parse(out)
    got = sorted(l.name for l in reread.libraries)
    assert got == sorted(lib_names), (
        "C17 violated: the re-read netlist shows library names %r, the original names are %r"
        % (got, sorted(lib_names))
    )
    # references still resolve to the right library
    for inst in reread.top_instance.reference.children:
        k = int(inst.name[1:])
        assert inst.reference.library.name == lib_names[k], (inst.name, inst.reference.library.name)

print("OK: library names survive the EDIF round trip")
