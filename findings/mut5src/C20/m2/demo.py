"""C20 demo: the comparer accepts a faithful copy (clone) and raises for a copy that differs in which instance /
which port a net touches or in an instance's reference - here the two candidates have names that differ only in
letter case (legal in Verilog and in spydrnet's default namespace)."""
import spydrnet as sdn
from spydrnet.compare.compare_netlists import Comparer


def build():
    netlist = sdn.Netlist(name="n")
    work = netlist.create_library(name="work")
    for name in ("cell", "CELL"):                      # two different cells, same interface
        d = work.create_definition(name=name)
        d.create_port(name="d", direction=sdn.IN, pins=1)
        d.create_port(name="D", direction=sdn.IN, pins=1)   # ports d and D are different ports
        d.create_port(name="q", direction=sdn.OUT, pins=1)
    lower = next(work.get_definitions("cell"))
    top = work.create_definition(name="top")
    a = top.create_port(name="a", direction=sdn.IN, pins=1)
    y = top.create_port(name="y", direction=sdn.OUT, pins=1)
    u0 = top.create_child(name="u0", reference=lower)
    top.create_child(name="spare", reference=lower)   # unconnected instance
    ca = top.create_cable(name="a", wires=1)
    cy = top.create_cable(name="y", wires=1)
    ca.wires[0].connect_pin(a.pins[0])
    ca.wires[0].connect_pin(u0.pins[lower.ports[0].pins[0]])      # u0.d
    cy.wires[0].connect_pin(u0.pins[lower.ports[2].pins[0]])      # u0.q
    cy.wires[0].connect_pin(y.pins[0])
    netlist.top_instance = sdn.Instance(name="top")
    netlist.top_instance.reference = top
    return netlist


def raises(orig, copy):
    try:
        Comparer(orig, copy).run()
    except Exception:
        return True
    return False


def repoint_spare(copy):
    """re-point the unconnected instance `spare` from cell to CELL"""
    spare = next(copy.get_instances("spare"))
    spare.reference = next(copy.get_definitions("CELL"))


def repoint_u0(copy):
    """re-point the connected instance u0 from cell to CELL"""
    u0 = next(copy.get_instances("u0"))
    u0.reference = next(copy.get_definitions("CELL"))


def move_connection(copy):
    """move the connection of net a from port d to port D of u0"""
    u0 = next(copy.get_instances("u0"))
    ports = {p.name: p for p in u0.reference.ports}
    wire = next(copy.get_cables("a")).wires[0]
    wire.disconnect_pin(u0.pins[ports["d"].pins[0]])
    wire.connect_pin(u0.pins[ports["D"].pins[0]])


orig = build()
assert not raises(orig, orig.clone()), "C20 violated: a faithful copy (clone) was rejected"

missed = []
for mutate in (repoint_spare, repoint_u0, move_connection):
    copy = orig.clone()
    mutate(copy)
    if not raises(orig, copy):
        missed.append(mutate.__doc__)
assert not missed, (
    "C20 violated: the comparer did not raise for copies with one structural difference: " + "; ".join(missed)
)
print("OK: clone accepted; re-pointed instances and a moved connection rejected")
