"""C20 demo: the comparer accepts a faithful copy (clone) and raises for a copy in which one port's direction
was changed - here to/from 'undefined', one of the four legal directions."""
import spydrnet as sdn
from spydrnet.compare.compare_netlists import Comparer


def build():
    netlist = sdn.Netlist(name="n")
    prims = netlist.create_library(name="hdi_primitives")
    work = netlist.create_library(name="work")
    buf = prims.create_definition(name="BUF")
    buf.create_port(name="I", direction=sdn.IN, pins=1)
    buf.create_port(name="O", direction=sdn.OUT, pins=1)
    box = prims.create_definition(name="BOX")          # black box, directions not known
    box.create_port(name="P", pins=1)
    top = work.create_definition(name="top")
    a = top.create_port(name="a", direction=sdn.IN, pins=1)
    y = top.create_port(name="y", direction=sdn.OUT, pins=1)
    u0 = top.create_child(name="u0", reference=buf)
    u1 = top.create_child(name="u1", reference=box)
    ca = top.create_cable(name="a", wires=1)
    cy = top.create_cable(name="y", wires=1)
    ca.wires[0].connect_pin(a.pins[0])
    ca.wires[0].connect_pin(u0.pins[buf.ports[0].pins[0]])
    cy.wires[0].connect_pin(u0.pins[buf.ports[1].pins[0]])
    cy.wires[0].connect_pin(y.pins[0])
    cy.wires[0].connect_pin(u1.pins[box.ports[0].pins[0]])
    netlist.top_instance = sdn.Instance(name="top")
    netlist.top_instance.reference = top
    return netlist


def raises(orig, copy):
    try:
        Comparer(orig, copy).run()
    except Exception:
        return True
    return False


orig = build()
assert not raises(orig, orig.clone()), "C20 violated: a faithful copy (clone) was rejected"

mutations = [
    ("BUF.I: IN -> UNDEFINED", "BUF", "I", sdn.UNDEFINED),
    ("BUF.O: OUT -> UNDEFINED", "BUF", "O", sdn.UNDEFINED),
    ("BOX.P: UNDEFINED -> OUT", "BOX", "P", sdn.OUT),
    ("top.y: OUT -> UNDEFINED", "top", "y", sdn.UNDEFINED),
    ("BUF.I: IN -> OUT", "BUF", "I", sdn.OUT),
    ("top.a: IN -> INOUT", "top", "a", sdn.INOUT),
]
missed = []
for text, def_name, port_name, new_direction in mutations:
    copy = orig.clone()
    port = next(next(copy.get_definitions(def_name)).get_ports(port_name))
    assert port.direction != new_direction
    port.direction = new_direction
    if not raises(orig, copy):
        missed.append(text)
    if not raises(copy, orig):
        missed.append(text + " (arguments swapped)")

assert not missed, (
    "C20 violated: the comparer did not raise for copies that differ from the original in one port's direction: %s"
    % "; ".join(missed)
)
print("OK: clone accepted, every single direction change rejected")
