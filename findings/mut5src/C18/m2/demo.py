"""C18 demo: a flat EBLIF design (here with `unconn` actuals on scalar and bus-indexed formals of black boxes that
are declared and not declared) is written as EBLIF and read back; the result has the same instances, types,
data and nets (as sets of pins)."""
import os
import tempfile

import spydrnet as sdn

SRC = """.model top
.inputs a b[0] b[1]
.outputs y
.subckt AND2 A=a B=unconn Y=n1
.cname u_and
.param INIT 4'h8
.subckt WIDE D[0]=b[0] D[1]=unconn D[2]=b[1] Q=n2
.cname u_wide
.attr keep true
.subckt OR2 A=n1 B=n2 Y=y
.cname u_or
.end

.model AND2
.inputs A B
.outputs Y
.blackbox
.end
"""


def pin_id(pin):
    if isinstance(pin, sdn.OuterPin):
        port = pin.inner_pin.port
        return (pin.instance.name, port.name, port.pins.index(pin.inner_pin))
    return ("<top>", pin.port.name, pin.port.pins.index(pin))


def summary(netlist):
    top = netlist.top_instance.reference
    instances = {}
    for inst in top.children:
        data = {k: v for k, v in inst.data.items() if k.startswith("EBLIF.") or k == "unconn"}
        data.pop("EBLIF.cname", None)
        ports = sorted((p.name, len(p.pins)) for p in inst.reference.ports)
        instances[inst.name] = (inst.reference.name, ports, sorted(data.items(), key=str))
    nets = set()
    for cable in top.cables:
        for wire in cable.wires:
            if wire.pins:
                nets.add(frozenset(pin_id(p) for p in wire.pins))
    return instances, nets


with tempfile.TemporaryDirectory() as d:
    src = os.path.join(d, "in.eblif")
    with open(src, "w") as f:
        f.write(SRC)
    first = sdn.parse(src)
    out = os.path.join(d, "out.eblif")
    sdn.compose(first, out)
    second = sdn.parse(out)

inst1, nets1 = summary(first)
inst2, nets2 = summary(second)
assert inst1["u_and"][2] and ("unconn", ["B[0]"]) in inst1["u_and"][2], inst1["u_and"]
for name in sorted(inst1):
    assert name in inst2, "C18 violated: instance %s lost by write-then-read" % name
    assert inst1[name] == inst2[name], (
        "C18 violated: write-then-read changed instance %s (type, ports, data):\n  before: %r\n  after : %r"
        % (name, inst1[name], inst2[name])
    )
assert set(inst1) == set(inst2)
assert nets1 == nets2, "C18 violated: nets (as sets of pins) differ after write-then-read"
print("OK: EBLIF write-then-read kept instances, types, data and nets")
