"""C18 demo: in a flat EBLIF model every formal=actual pair is joined to the named net, with `.conn a b`
merging the two nets a and b into one; the parsed netlist is well-formed (every connected pin sits on a wire
that belongs to a cable of the model)."""
import os
import tempfile

import spydrnet as sdn

SRC = """.model top
.inputs a
.outputs y z
.subckt BUF I=a O=n1
.cname u_drv
.subckt BUF I=n2 O=y
.cname u_ld0
.subckt BUF I=n2 O=z
.cname u_ld1
.subckt BUF I=n2 O=unconn
.cname u_ld2
.conn n1 n2
.end

.model BUF
.inputs I
.outputs O
.blackbox
.end
"""


def pin_id(pin):
    if isinstance(pin, sdn.OuterPin):
        return (pin.instance.name, pin.inner_pin.port.name)
    return ("<top>", pin.port.name)


with tempfile.TemporaryDirectory() as d:
    path = os.path.join(d, "conn.eblif")
    with open(path, "w") as f:
        f.write(SRC)
    netlist = sdn.parse(path)

top = netlist.top_instance.reference
# well-formedness: every pin that has a wire is on a wire that lives in a cable of the model
for inst in top.children:
    for pin in inst.pins:
        if pin.wire is not None:
            assert pin.wire.cable is not None and pin.wire.cable.definition is top, (
                "C18 violated: result not well-formed - pin %r is connected to a wire that belongs to no cable"
                % (pin_id(pin),)
            )
            assert any(p is pin for p in pin.wire.pins)

nets = set()
for cable in top.cables:
    for wire in cable.wires:
        if wire.pins:
            nets.add(frozenset(pin_id(p) for p in wire.pins))

merged = frozenset({("u_drv", "O"), ("u_ld0", "I"), ("u_ld1", "I"), ("u_ld2", "I")})
assert merged in nets, (
    "C18 violated: `.conn n1 n2` did not merge the two nets; expected one net with pins %r, got nets %r"
    % (sorted(merged), sorted(sorted(n) for n in nets))
)
print("OK: .conn merged n1 and n2 into a single well-formed net")
