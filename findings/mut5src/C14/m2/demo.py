"""C14 demo: a refused edit changes nothing - re-pointing an instance to a definition whose
ports do not have the same shape (mismatching reference) is refused and must leave the
instance's pins, the connections and the reference sets of every definition untouched."""
import spydrnet as sdn

netlist = sdn.Netlist(name="n")
lib = netlist.create_library(name="work")


def cell(name, widths):
    d = lib.create_definition(name=name)
    for pname, width in zip("abc", widths):
        d.create_port(name=pname, pins=width)
    return d


A = cell("A", (2, 1, 2))
same = cell("A_same", (2, 1, 2))
first_differs = cell("B_first", (3, 1, 2))
last_differs = cell("B_last", (2, 1, 3))
middle_differs = cell("B_middle", (2, 2, 2))
fewer_ports = cell("B_fewer", (2, 1))
top_def = lib.create_definition(name="TOP")
u = top_def.create_child(name="u", reference=A)
cable = top_def.create_cable(name="w", wires=5)
a_pins = [pin for port in A.ports for pin in port.pins]
for wire, pin in zip(cable.wires, a_pins):
    wire.connect_pin(u.pins[pin])
netlist.top_instance = sdn.Instance(name="top")
netlist.top_instance.reference = top_def
all_defs = list(lib.definitions)


def snapshot():
    return {
        "reference": u.reference.name,
        "references": {d.name: sorted(i.name for i in d.references) for d in all_defs},
        "pin keys": [id(k) for k in u._pins.keys()],
        "outer pins": [(id(op), id(op.inner_pin), id(op.instance), id(op.wire)) for op in u.pins],
        "lookup by inner pin": [id(u.pins[p]) if p in u.pins else None for p in a_pins],
        "wires": [[id(p) for p in w.pins] for w in cable.wires],
        "get_pins": sorted(id(p) for p in sdn.get_pins(u)),
        "hpins": sorted(h.name for h in sdn.get_hpins(netlist, recursive=True)),
    }


for target in (fewer_ports, first_differs, middle_differs, last_differs):
    before = snapshot()
    try:
        u.reference = target
    except AssertionError:
        pass
    else:
        raise SystemExit("re-pointing u to %s should have been refused" % target.name)
    after = snapshot()
    changed = [k for k in before if before[k] != after[k]]
    assert not changed, (
        "u.reference = %s was refused (mismatching ports) but it changed: %s" % (target.name, changed)
    )

# a legal re-point still works afterwards and moves every connection
u.reference = same
assert u.reference is same and list(A.references) == [] and list(same.references) == [u]
assert [w.pins[0].inner_pin for w in cable.wires] == [p for port in same.ports for p in port.pins]
print("ok")
