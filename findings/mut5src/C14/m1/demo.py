"""C14 demo: a refused edit changes nothing - an add (or create-and-add) refused by the
naming rules must leave the same answers to name lookups, and nothing of the half-built
element may remain registered anywhere. Here: EDIF naming policy, the new element has
a fresh EDIF identifier but a .NAME that collides."""
import spydrnet as sdn

KEY = "EDIF.identifier"
netlist = sdn.Netlist(name="n")
netlist[".NS"] = "EDIF"
lib = netlist.create_library(name="work")
first = lib.create_definition(name="cell_a", properties={KEY: "id_a"})
top = lib.create_definition(name="top", properties={KEY: "top"})
first.create_port(name="p", properties={KEY: "id_p"})
first.create_cable(name="c", properties={KEY: "id_c"})
first.create_child(name="u", properties={KEY: "id_u"}, reference=top)

PROBES = ["id_a", "top", "fresh", "fresh2", "id_p", "id_c", "id_u", "cell_a", "p", "c", "u"]


def snapshot():
    snap = {"defs": [(d.name, d[KEY]) for d in lib.definitions],
            "ports": [p.name for p in first.ports],
            "cables": [c.name for c in first.cables],
            "children": [c.name for c in first.children],
            "top_refs": sorted(i.name for i in top.references)}
    for probe in PROBES:
        for key in (KEY, ".NAME"):
            snap["def", probe, key] = [id(x) for x in sdn.get_definitions(lib, probe, key=key)]
            snap["port", probe, key] = [id(x) for x in sdn.get_ports(first, probe, key=key)]
            snap["cable", probe, key] = [id(x) for x in sdn.get_cables(first, probe, key=key)]
            snap["inst", probe, key] = [id(x) for x in sdn.get_instances(first, probe, key=key)]
    return snap


def refused(label, call):
    before = snapshot()
    try:
        call()
    except (ValueError, AssertionError):
        pass
    else:
        raise SystemExit("%s was expected to be refused" % label)
    after = snapshot()
    changed = [k for k in before if before[k] != after[k]]
    assert not changed, "%s was refused but changed the answers of: %s" % (label, changed)


# 1. add an existing, unparented definition: identifier is new, name collides
ghost = sdn.Definition(name="cell_a", properties={KEY: "fresh"})
refused("add_definition(name collides)", lambda: lib.add_definition(ghost))
assert ghost.library is None

# 2. compound constructors: create-and-add with a colliding name
refused("create_definition", lambda: lib.create_definition(name="cell_a", properties={KEY: "fresh2"}))
refused("create_port", lambda: first.create_port(name="p", properties={KEY: "fresh"}, pins=2))
refused("create_cable", lambda: first.create_cable(name="c", properties={KEY: "fresh"}, wires=2))
refused("create_child", lambda: first.create_child(name="u", properties={KEY: "fresh"}, reference=top))

# 3. the identifiers that were only ever offered by refused elements are still free
ok = lib.create_definition(name="cell_b", properties={KEY: "fresh"})
assert list(sdn.get_definitions(lib, "fresh", key=KEY)) == [ok]
assert first.create_port(name="q", properties={KEY: "fresh"}) in first.ports
print("ok")
