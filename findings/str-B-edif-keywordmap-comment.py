"""C05 (found by the widened EDIF generator, style keywordmap_comment): a comment inside keywordMap makes the reader abort.

EDIF 2 0 0:  keywordMap ::= (keywordMap keywordLevel {comment})
EdifParser.parse_keywordMap() has a loop for these comments, but it calls begin_construct() (which consumes the opening
parenthesis) and then parse_construct(self.parse_comment) (which expects another opening parenthesis), so every file with a
comment there is rejected with "Expecting ( ... recieved comment".  The same comment one line further down (edif body) is fine.

Property C05: "for any EDIF 2 0 0 netlist-view text in the supported subset ... comments" the parsed netlist has exactly what the
text declares; here the reader does not return a netlist at all.
run: PYTHONPATH=/repo /venv/bin/python /verif/findings/str-B-edif-keywordmap-comment.py     (exit 1 = defect present)
"""
import os, sys, tempfile
import spydrnet as sdn

TEXT = """(edif demo (edifVersion 2 0 0) (edifLevel 0) (keywordMap (keywordLevel 0)%s)%s
  (library work (edifLevel 0) (technology (numberDefinition))
    (cell top (cellType GENERIC) (view netlist (viewType NETLIST) (interface (port a (direction INPUT))))))
  (design top (cellRef top (libraryRef work))))
"""


def parse(text):
    d = tempfile.mkdtemp()
    p = os.path.join(d, 'x.edf')
    open(p, 'w').write(text)
    try:
        return sdn.parse(p)
    finally:
        os.remove(p); os.rmdir(d)


n = parse(TEXT % ('', ' (comment "no abbreviations")'))
print('comment in the edif body : ok, EDIF.comments =', n.data.get('EDIF.comments'))
try:
    n = parse(TEXT % (' (comment "no abbreviations")', ''))
    print('comment in keywordMap    : ok,', {k: v for k, v in n.data.items() if 'comment' in k})
    sys.exit(0)
except Exception as e:
    print('DEFECT: comment in keywordMap    : reader aborts: %s: %s' % (type(e).__name__, e))
    sys.exit(1)
