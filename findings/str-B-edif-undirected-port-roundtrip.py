"""C03 (found through the widened EDIF generator, style nodir, in C03's reader -> compose -> parse cases): a port without a
direction cannot survive write-then-read.

EDIF 2 0 0:  port ::= (port portNameDef {direction | ... | property | comment})  -- the direction is optional; the reader accepts
such a port and gives it Port.Direction.UNDEFINED (so does Definition.create_port() without a direction argument).
The EDIF composer writes it as (direction UNDEFINED), which is not EDIF (direction ::= INPUT | OUTPUT | INOUT) and which the
reader rejects: "Expecting inout|input|output ... recieved UNDEFINED".

Property C03: "the file written is always accepted by the reader.  In particular parse(compose(parse(f))) equals parse(f) for
every file f the reader accepts."
run: PYTHONPATH=/repo /venv/bin/python /verif/findings/str-B-edif-undirected-port-roundtrip.py     (exit 1 = defect present)
"""
import os, sys, tempfile
import spydrnet as sdn

TEXT = """(edif demo (edifVersion 2 0 0) (edifLevel 0) (keywordMap (keywordLevel 0))
  (library work (edifLevel 0) (technology (numberDefinition))
    (cell top (cellType GENERIC) (view netlist (viewType NETLIST)
      (interface (port a (direction INPUT)) (port b) (port (array c 2))))))
  (design top (cellRef top (libraryRef work))))
"""
d = tempfile.mkdtemp()
src, out = os.path.join(d, 'src.edf'), os.path.join(d, 'out.edf')
open(src, 'w').write(TEXT)
problems = []
try:
    n = sdn.parse(src)
    print('reader accepts the file; directions:', [(p.name, p.direction.name) for p in n.libraries[0].definitions[0].ports])
    sdn.compose(n, out)
    print('written:', [l.strip() for l in open(out) if 'port' in l])
    try:
        m = sdn.parse(out)
        got = [(p.name, p.direction.name, len(p.pins)) for p in m.libraries[0].definitions[0].ports]
        if got != [('a', 'IN', 1), ('b', 'UNDEFINED', 1), ('c', 'UNDEFINED', 2)]:
            problems.append('ports changed: %r' % got)
    except Exception as e:
        problems.append('the reader rejects the file the composer wrote: %s: %s' % (type(e).__name__, e))
    # the same through the API
    n2 = sdn.Netlist(name='api'); lib = n2.create_library(name='work'); top = lib.create_definition(name='top')
    top.create_port(name='p', pins=1)
    n2.top_instance = sdn.Instance(name='t'); n2.top_instance.reference = top
    sdn.compose(n2, out)
    try:
        sdn.parse(out)
    except Exception as e:
        problems.append('API-built netlist with a port of undefined direction: written file rejected: %s: %s' % (type(e).__name__, e))
finally:
    for f in (src, out):
        if os.path.exists(f):
            os.remove(f)
    os.rmdir(d)
for p in problems:
    print('DEFECT:', p)
sys.exit(1 if problems else 0)
