"""C04 (Verilog write-then-read), unchanged tree: the base index of an aliased header port changes in the round trip.

Run:  PYTHONPATH=/repo /venv/bin/python /verif/findings/str-A-verilog-alias-port-rebased.py      (exit 1 = defect present)

Input: a module whose header aliases a 4-bit port N onto bits of two vector nets, one of them based at 3:

    module Y(.N({x[4], x[5], x[3], N[0]}), y);
      output [6:3] x;
      output [3:0] N;
      input y;
    endmodule

The reader returns port N with 4 pins, lower_index 0, joined (pin 0..3) to N[0], x[3], x[5], x[4] - what the text says.
sdn.compose writes the same header and the body declarations in the order `output [3:0]N; output [6:3]x;`.  Reading that text back
gives the same joins but port N now has lower_index 3: VerilogParser.parse_port_declaration treats the direction declaration of a
net that carries pins of exactly one port as the declaration of that port (create_or_update_port(..., left, right, defining=True)),
so an aliased port takes the range start of whichever vector net of its alias is declared last.  The first text declares x before N
(N ends at [3:0]); the writer's order declares x after N (N ends at [6:3]).

Property text violated: "writing it as Verilog and parsing the result gives the same modules, port directions/widths/base indices ...
including ... aliased header ports".  The written text is a correct description of the netlist; the reader misreads it.
Caveat for the record: docs/source/reference/verilog_support.rst says of header aliases "Currently only single bit breakouts are
supported"; the alias here names bits of vector nets (the same class of input as the seeded change C04-r2m1 needs).
Found by native/b_c04.py with render_verilog.alias_shapes (kind 'own-mixed'), e.g. seed 286 / 30 / 91 with
{"alias_shapes": {"p": 1.0, "per_port": 0.6, "kinds": ["own-mixed"]}}; reported there as C04.alias-port-rebased.
"""
import os
import sys
import tempfile
import spydrnet as sdn

SRC = """
module Y(.N({x[4], x[5], x[3], N[0]}), y);
  output [6:3] x;
  output [3:0] N;
  input y;
endmodule
"""


def port_view(netlist, dname, pname):
    d = next(netlist.get_definitions(dname))
    p = next(d.get_ports(pname))
    joins = []
    for pin in p.pins:
        w = pin.wire
        joins.append(None if w is None else '%s[%d]' % (w.cable.name, w.cable.lower_index + w.cable.wires.index(w)))
    return {'width': len(p.pins), 'lower_index': p.lower_index, 'joins': joins}


with tempfile.TemporaryDirectory() as tmp:
    f, g = os.path.join(tmp, 'in.v'), os.path.join(tmp, 'out.v')
    open(f, 'w').write(SRC)
    first = sdn.parse(f)
    before = port_view(first, 'Y', 'N')
    assert before == {'width': 4, 'lower_index': 0, 'joins': ['N[0]', 'x[3]', 'x[5]', 'x[4]']}, before
    sdn.compose(first, g)
    after = port_view(sdn.parse(g), 'Y', 'N')
    print('before:', before)
    print('after :', after)
    print('written text:\n' + ''.join(l for l in open(g) if not l.startswith('//')))
if before != after:
    print('DEFECT: port Y.N [3:0] comes back as [%d:%d]' % (after['lower_index'] + after['width'] - 1, after['lower_index']))
    sys.exit(1)
print('OK')
