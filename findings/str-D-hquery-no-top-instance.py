"""C11 finding (str-D): h-queries from a library / definition / instance / port / pin / cable / wire root raise AttributeError when
the netlist has no top instance.

Property C11: "for any netlist, the hierarchical queries return exactly one reference per occurrence in the elaborated design ...";
quantifier: all query roots, after edits that break some paths.  A netlist without a top instance has no occurrences, so every
query has to return nothing (the netlist root does).  Every other root ends in HRef.get_all_hrefs_of_instances, which builds
HRef.from_parent_and_item(None, netlist.top_instance) without looking at the top and then reads None.reference
(spydrnet/util/hierarchical_reference.py, get_all_hrefs_of_instances).

run: PYTHONPATH=/repo /venv/bin/python /verif/findings/str-D-hquery-no-top-instance.py     (exit 1 = defect present)
"""
import sys
import spydrnet as sdn

n = sdn.Netlist(name='n')
lib = n.create_library(name='work')
leaf = lib.create_definition(name='leaf')
p = leaf.create_port(name='a', pins=1)
top = lib.create_definition(name='top')
u0 = top.create_child(name='u0', reference=leaf)
c = top.create_cable(name='c', wires=1)
n.set_top_instance(top, instance_name='top')
assert [h.name for h in sdn.get_hinstances(leaf)] == ['u0']

n.top_instance = None            # the same happens on a netlist whose top instance was never set
bad = 0
for label, fn in (('get_hinstances', sdn.get_hinstances), ('get_hports', sdn.get_hports), ('get_hpins', sdn.get_hpins),
                  ('get_hcables', sdn.get_hcables), ('get_hwires', sdn.get_hwires)):
    print('%s(netlist) -> %r' % (label, list(fn(n, recursive=True))))
    for rk, root in (('library', lib), ('definition', leaf), ('instance', u0), ('port', p), ('inner pin', p.pins[0]),
                     ('cable', c), ('wire', c.wires[0])):
        try:
            res = list(fn(root))
            if res:
                print('%s(%s) -> %r   (expected [])' % (label, rk, res)); bad += 1
        except AttributeError as e:
            print('%s(%s) raised AttributeError: %s' % (label, rk, e)); bad += 1
print('DEFECT: %d queries raised or returned something on a netlist without top instance' % bad if bad else 'OK')
sys.exit(1 if bad else 0)
