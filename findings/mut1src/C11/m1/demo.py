"""C11 demo 1: asking for the occurrences of given elements must return exactly
the paths (below the top instance) that end in them - no omissions, no duplicates.

Needs: a query whose targets sit at SEVERAL DEPTHS OF THE SAME PATH (a library,
or a collection of definitions / instances where one target lies underneath
another target).
"""
import sys
import spydrnet as sdn
from spydrnet.util.hierarchical_reference import HRef


def build():
    netlist = sdn.Netlist(name="n")
    lib = netlist.create_library(name="work")
    d_top = lib.create_definition(name="TOP")
    d_a = lib.create_definition(name="A")
    d_b = lib.create_definition(name="B")
    d_leaf = lib.create_definition(name="LEAF")
    top = sdn.Instance(name="top")
    top.reference = d_top
    netlist.top_instance = top
    a1 = d_top.create_child(name="a1", reference=d_a)
    a2 = d_top.create_child(name="a2", reference=d_a)
    b = d_a.create_child(name="b", reference=d_b)
    c = d_b.create_child(name="c", reference=d_leaf)
    x = d_top.create_child(name="x", reference=d_leaf)
    return netlist, lib, dict(TOP=d_top, A=d_a, B=d_b, LEAF=d_leaf), dict(
        top=top, a1=a1, a2=a2, b=b, c=c, x=x
    )


def elaborate(netlist):
    """Reference elaboration: every path of instances below the top instance."""
    out = []

    def walk(path):
        out.append(tuple(path))
        ref = path[-1].reference
        if ref:
            for child in ref.children:
                walk(path + [child])

    walk([netlist.top_instance])
    return out


def check(label, got, expected_paths):
    got = list(got)
    got_paths = []
    for href in got:
        seq = []
        h = href
        while h is not None:
            seq.append(h.item)
            h = h.parent
        got_paths.append(tuple(reversed(seq)))
    names = sorted(h.name for h in got)
    exp_names = sorted("/".join(i.name for i in p[1:]) for p in expected_paths)
    assert len(got_paths) == len(set(got_paths)), "%s: duplicate references %r" % (
        label,
        names,
    )
    assert set(got_paths) == set(expected_paths), (
        "%s: the occurrences returned are not exactly the paths ending in the "
        "requested elements:\n   got      %r\n   expected %r" % (label, names, exp_names)
    )
    for href in got:
        assert href.is_valid, "%s: %r reported invalid" % (label, href.name)


def main():
    netlist, lib, d, i = build()
    paths = elaborate(netlist)

    # one definition at a time (targets never nest): always worked
    for name, definition in d.items():
        exp = [p for p in paths if p[-1].reference is definition]
        check("get_hinstances(%s)" % name, sdn.get_hinstances(definition), exp)
        check(
            "HRef.get_all_hrefs_of_item(%s)" % name,
            HRef.get_all_hrefs_of_item(definition),
            exp,
        )

    # a library: every instance of every definition in it -> every path
    check("get_hinstances(library)", sdn.get_hinstances(lib), paths)

    # two definitions, one instantiated underneath the other
    exp = [p for p in paths if p[-1].reference in (d["A"], d["LEAF"])]
    check("get_hinstances([A, LEAF])", sdn.get_hinstances([d["A"], d["LEAF"]]), exp)

    # two instances on the same path
    exp = [p for p in paths if p[-1] in (i["b"], i["c"])]
    check("get_hinstances([b, c])", sdn.get_hinstances([i["b"], i["c"]]), exp)
    check(
        "HRef.get_all_hrefs_of_instances([b, c])",
        HRef.get_all_hrefs_of_instances([i["b"], i["c"]]),
        exp,
    )
    print("C11 demo 1: OK")


if __name__ == "__main__":
    try:
        main()
    except AssertionError as e:
        print("C11 VIOLATED:", e)
        sys.exit(1)
