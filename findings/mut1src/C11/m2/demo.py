"""C11 demo 2: a hierarchical reference must report invalid in agreement with the
current netlist after any edit.

Needs: a reference to a PIN (not to the port, cable, wire or instance) that was
obtained while the design was intact, followed by an edit that breaks the path
between the pin's port and the owning instance: the port is removed from its
definition, or the owning instance is re-pointed to another definition.
"""
import sys
import spydrnet as sdn


def build():
    netlist = sdn.Netlist(name="n")
    lib = netlist.create_library(name="work")
    d_top = lib.create_definition(name="TOP")
    d_cell = lib.create_definition(name="CELL")
    d_other = lib.create_definition(name="OTHER")
    for definition in (d_cell, d_other):
        port = definition.create_port(name="d", is_scalar=False)
        port.create_pins(2)
        cable = definition.create_cable(name="d", is_scalar=False)
        cable.create_wires(2)
        for pin, wire in zip(port.pins, cable.wires):
            wire.connect_pin(pin)
        definition.create_port(name="q").create_pin()
    top = sdn.Instance(name="top")
    top.reference = d_top
    netlist.top_instance = top
    u1 = d_top.create_child(name="u1", reference=d_cell)
    u2 = d_top.create_child(name="u2", reference=d_cell)
    bus = d_top.create_cable(name="bus", is_scalar=False)
    bus.create_wires(2)
    for inst in (u1, u2):
        for k, wire in enumerate(bus.wires):
            wire.connect_pin(inst.pins[inst.reference.ports[0].pins[k]])
    return netlist, d_top, d_cell, d_other, u1, u2


def snapshot(netlist):
    """Every hierarchical reference of the design, keyed by kind."""
    return {
        "instance": list(sdn.get_hinstances(netlist, recursive=True)),
        "port": list(sdn.get_hports(netlist, recursive=True)),
        "pin": list(sdn.get_hpins(netlist, recursive=True)),
        "cable": list(sdn.get_hcables(netlist, recursive=True)),
        "wire": list(sdn.get_hwires(netlist, recursive=True)),
    }


def check_agreement(label, netlist, before):
    """After an edit, exactly those old references that are still enumerated by a
    fresh query on the current netlist may report valid (and, being references to
    the same path, they must be the very same objects)."""
    after = snapshot(netlist)
    for kind, old_refs in before.items():
        current = set(after[kind])
        for href in after[kind]:
            assert href.is_valid, "%s: fresh %s reference %r reports invalid" % (
                label,
                kind,
                href.name,
            )
        for href in old_refs:
            exists = href in current
            assert href.is_valid == exists, (
                "%s: %s reference %r reports is_valid=%s but the occurrence %s in "
                "the current netlist"
                % (
                    label,
                    kind,
                    href.name,
                    href.is_valid,
                    "exists" if exists else "no longer exists",
                )
            )
            if exists:
                same = next(x for x in after[kind] if x == href)
                assert same is href and hash(same) == hash(href)
            if not href.is_valid:
                assert not href.is_unique, "%s: invalid %r reports unique" % (
                    label,
                    href.name,
                )


def main():
    # no edit at all
    netlist, d_top, d_cell, d_other, u1, u2 = build()
    before = snapshot(netlist)
    assert len(before["pin"]) == 6 and all(h.is_valid for h in before["pin"])
    check_agreement("no edit", netlist, before)

    # edit 1: remove a port from the shared definition CELL
    port = d_cell.ports[0]
    for inst in (u1, u2):
        for pin in port.pins:
            inst.pins[pin].wire.disconnect_pin(inst.pins[pin])
    d_cell.remove_port(port)
    check_agreement("after CELL.remove_port(d)", netlist, before)

    # edit 2: re-point one instance to another definition
    netlist, d_top, d_cell, d_other, u1, u2 = build()
    before = snapshot(netlist)
    for outer in list(u1.pins.values()):
        if outer.wire:
            outer.wire.disconnect_pin(outer)
    u1.reference = d_other
    check_agreement("after u1.reference = OTHER", netlist, before)

    # edit 3: remove the child instance altogether (was already handled)
    netlist, d_top, d_cell, d_other, u1, u2 = build()
    before = snapshot(netlist)
    for outer in list(u2.pins.values()):
        if outer.wire:
            outer.wire.disconnect_pin(outer)
    d_top.remove_child(u2)
    check_agreement("after TOP.remove_child(u2)", netlist, before)
    print("C11 demo 2: OK")


if __name__ == "__main__":
    try:
        main()
    except AssertionError as e:
        print("C11 VIOLATED:", e)
        sys.exit(1)
