"""C15 demo 2: EDIF references to cells that were never declared must be rejected.

Property clause: "EDIF references to cells, ports, instances or libraries that
were never declared, and unsupported constructs, are always rejected."

The (design ...) construct names its top cell as  (cellRef <cell> (libraryRef <lib>)).
Here the design names a cell that library `work` never declares (the identifier
only exists in ANOTHER library, `prims`), i.e. a dangling reference obtained by
replacing one token of a valid file.  The reader has to raise; it must not hand
back a netlist whose top instance silently points somewhere else.

Run as:  cd <checkout> && /venv/bin/python demo.py
"""
import os
import sys
import tempfile

import spydrnet as sdn

VALID = """(edif top
  (edifversion 2 0 0)
  (edifLevel 0)
  (keywordmap (keywordlevel 0))
  (Library prims
    (edifLevel 0)
    (technology (numberDefinition ))
    (cell INV (celltype GENERIC)
      (view netlist (viewtype NETLIST)
        (interface
          (port I (direction INPUT))
          (port O (direction OUTPUT))
        )
      )
    )
  )
  (Library work
    (edifLevel 0)
    (technology (numberDefinition ))
    (cell sub (celltype GENERIC)
      (view netlist (viewtype NETLIST)
        (interface
          (port p (direction INPUT))
        )
      )
    )
    (cell top (celltype GENERIC)
      (view netlist (viewtype NETLIST)
        (interface
          (port a (direction INPUT))
          (port y (direction OUTPUT))
        )
        (contents
          (instance u1 (viewref netlist (cellref INV (libraryref prims))))
          (instance u2 (viewref netlist (cellref sub)))
          (net a (joined (portref a) (portref I (instanceref u1)) (portref p (instanceref u2))))
          (net y (joined (portref y) (portref O (instanceref u1))))
        )
      )
    )
  )
  (design top (cellref top (libraryref work)))
)
"""

DESIGN = "(design top (cellref top (libraryref work)))"
assert VALID.count(DESIGN) == 1

# every entry: a single-token replacement in the design construct that makes the
# reference dangle
DANGLING = {
    "design names a cell that no library declares":
        "(design top (cellref nowhere (libraryref work)))",
    "design names a library that was never declared":
        "(design top (cellref top (libraryref nolib)))",
    "design names cell INV in library work; work never declares INV (only prims does)":
        "(design top (cellref INV (libraryref work)))",
    "design names cell sub in library prims; prims never declares sub (only work does)":
        "(design top (cellref sub (libraryref prims)))",
}


def parse_text(text, tmpdir, name):
    path = os.path.join(tmpdir, name + ".edf")
    with open(path, "w") as fh:
        fh.write(text)
    return sdn.parse(path)


def main():
    failures = []
    with tempfile.TemporaryDirectory() as tmpdir:
        netlist = parse_text(VALID, tmpdir, "valid")
        top = netlist.top_instance.reference
        assert (top.name, top.library.name) == ("top", "work"), "valid file mis-parsed"

        for ii, (what, design) in enumerate(DANGLING.items()):
            text = VALID.replace(DESIGN, design)
            try:
                netlist = parse_text(text, tmpdir, "dangling%d" % ii)
            except Exception as error:
                print("rejected (%s): %s" % (type(error).__name__, what))
                continue
            top = netlist.top_instance.reference
            failures.append(
                "%s -> ACCEPTED; the reader returned a netlist whose top instance "
                "references cell %r of library %r"
                % (what, top.name, top.library.name if top.library else None)
            )

    if failures:
        print("C15 VIOLATED - dangling EDIF reference accepted:")
        for failure in failures:
            print("  -", failure)
        assert not failures, "reference to an undeclared cell was not rejected: " + failures[0]
    print("OK: every dangling design reference was rejected")


if __name__ == "__main__":
    main()
    sys.exit(0)
