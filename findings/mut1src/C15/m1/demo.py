"""C15 demo 1: a rejected EDIF text must leave the active naming policy untouched.

Property clause: "After a rejection, process-wide settings - in particular the
active naming policy - are what they were before the call, so any later parse or
edit in the same process behaves exactly as in a fresh process."

The corruptions used here all hit the FIRST token of a valid EDIF file
(truncation at token boundary 0, deletion / replacement / duplication-free
variants of the opening parenthesis).

Run as:  cd <checkout> && /venv/bin/python demo.py
"""
import os
import sys
import tempfile

import spydrnet as sdn
from spydrnet.plugins import namespace_manager

VALID = """(edif top
  (edifversion 2 0 0)
  (edifLevel 0)
  (keywordmap (keywordlevel 0))
  (Library prims
    (edifLevel 0)
    (technology (numberDefinition ))
    (cell INV (celltype GENERIC)
      (view netlist (viewtype NETLIST)
        (interface
          (port I (direction INPUT))
          (port O (direction OUTPUT))
        )
      )
    )
  )
  (Library work
    (edifLevel 0)
    (technology (numberDefinition ))
    (cell top (celltype GENERIC)
      (view netlist (viewtype NETLIST)
        (interface
          (port a (direction INPUT))
          (port y (direction OUTPUT))
        )
        (contents
          (instance u1 (viewref netlist (cellref INV (libraryref prims))))
          (net a (joined (portref a) (portref I (instanceref u1))))
          (net y (joined (portref y) (portref O (instanceref u1))))
        )
      )
    )
  )
  (design top (cellref top (libraryref work)))
)
"""

assert VALID.startswith("(")

CORRUPTIONS = {
    "truncated at token boundary 0 (empty text)": "",
    "first token '(' deleted": VALID[1:],
    "first token '(' replaced by 'x'": "x" + VALID[1:],
    "first token '(' replaced by ')'": ")" + VALID[1:],
    # a few corruptions further inside the file, for good measure
    "truncated in the middle": VALID[: len(VALID) // 2],
    "dangling cellref": VALID.replace("cellref INV", "cellref NOPE"),
}


def parse_text(text, tmpdir, name):
    path = os.path.join(tmpdir, name + ".edf")
    with open(path, "w") as fh:
        fh.write(text)
    return sdn.parse(path)


def fresh_process_edit():
    """An API edit that is legal in a fresh process (naming policy DEFAULT):
    two sibling definitions whose EDIF identifiers differ only in case, and an
    identifier that is not a legal EDIF identifier."""
    netlist = sdn.Netlist(name="n")
    library = netlist.create_library(name="lib")
    d1 = library.create_definition(name="first")
    d1["EDIF.identifier"] = "Cell"
    d2 = library.create_definition(name="second")
    d2["EDIF.identifier"] = "cell"
    d3 = library.create_definition(name="third")
    d3["EDIF.identifier"] = "3rd-cell"
    return netlist[".NS"], sdn.Definition()[".NS"]


def main():
    failures = []
    with tempfile.TemporaryDirectory() as tmpdir:
        # sanity: the valid text parses, and restores the policy it switched
        before = namespace_manager.default
        netlist = parse_text(VALID, tmpdir, "valid")
        assert netlist.top_instance.reference.name == "top"
        assert namespace_manager.default == before == "DEFAULT"
        assert fresh_process_edit() == ("DEFAULT", "DEFAULT")

        for ii, (what, text) in enumerate(CORRUPTIONS.items()):
            before = namespace_manager.default
            try:
                parse_text(text, tmpdir, "corrupt%d" % ii)
            except Exception as error:  # rejected, as it must be
                rejected = type(error).__name__
            else:
                failures.append("%s: corrupted text was accepted" % what)
                continue
            after = namespace_manager.default
            if after != before:
                failures.append(
                    "%s: rejected with %s, but the active naming policy is now %r "
                    "(it was %r before the call)" % (what, rejected, after, before)
                )
            try:
                ns = fresh_process_edit()
                if ns != ("DEFAULT", "DEFAULT"):
                    failures.append(
                        "%s: elements created after the rejection get policy %r, a fresh "
                        "process gives ('DEFAULT', 'DEFAULT')" % (what, ns)
                    )
            except Exception as error:
                failures.append(
                    "%s: an API edit that works in a fresh process now fails after the "
                    "rejected parse: %s: %s" % (what, type(error).__name__, error)
                )
            # do not let one leak hide/cause the next one
            namespace_manager.default = before

    if failures:
        print("C15 VIOLATED - rejected input left process-wide residue:")
        for failure in failures:
            print("  -", failure)
        assert not failures, "naming policy not restored after a rejected parse: " + failures[0]
    print("OK: every rejected text left the naming policy as it was")


if __name__ == "__main__":
    main()
    sys.exit(0)
