"""C18 demo 1: EBLIF is read faithfully when a net of the main model has the same name as a port
of a declared black-box model (e.g. the usual `.subckt AND2 A=A B=B Y=Y`), whatever the order of
the models in the file.

Checks, in the words of the property:
  * one instance per .subckt with the named model as its definition,
  * every formal=actual pair is joined to the named net bit (nets compared as sets of pins),
  * black-box models end up as leaf primitives,
  * the result is well-formed and self-contained (every pin on a net of a model belongs to that
    model; every connected pin sits on a wire of a cable of its own model),
  * write as EBLIF and read back gives the same instances, types and nets.

Run:  cd <checkout> && /venv/bin/python demo.py      (exit status 0 = property holds)
"""
import os
import sys
import tempfile

sys.path.insert(0, os.getcwd())
import spydrnet as sdn  # noqa: E402

TOP = """.model top
.inputs A B S[0] S[1]
.outputs Y
.subckt AND2 A=A B=B Y=n1
.cname u_and
.subckt MUX2 I[0]=n1 I[1]=S[0] S=S[1] Y=I[1]
.cname u_mux
.subckt BUF A=I[1] Y=Y
.cname u_buf
.end
"""
BOXES = """.model AND2
.inputs A B
.outputs Y
.blackbox
.end

.model MUX2
.inputs I[0] I[1] S
.outputs Y
.blackbox
.end

.model BUF
.inputs A
.outputs Y
.blackbox
.end
"""

EXPECTED_INSTANCES = {"u_and": "AND2", "u_mux": "MUX2", "u_buf": "BUF"}
# net bit -> set of pins; ("<top>", port, bit) is a pin of the model itself
EXPECTED_NETS = {
    ("A", 0): {("<top>", "A", 0), ("u_and", "A", 0)},
    ("B", 0): {("<top>", "B", 0), ("u_and", "B", 0)},
    ("S", 0): {("<top>", "S", 0), ("u_mux", "I", 1)},
    ("S", 1): {("<top>", "S", 1), ("u_mux", "S", 0)},
    ("n1", 0): {("u_and", "Y", 0), ("u_mux", "I", 0)},
    ("I", 1): {("u_mux", "Y", 0), ("u_buf", "A", 0)},
    ("Y", 0): {("<top>", "Y", 0), ("u_buf", "Y", 0)},
}
EXPECTED_DIRECTIONS = {
    "AND2": {"A": sdn.IN, "B": sdn.IN, "Y": sdn.OUT},
    "MUX2": {"I": sdn.IN, "S": sdn.IN, "Y": sdn.OUT},
    "BUF": {"A": sdn.IN, "Y": sdn.OUT},
}

failures = []


def check(condition, message):
    if not condition:
        failures.append(message)


def parse_text(text):
    folder = tempfile.mkdtemp()
    path = os.path.join(folder, "design.eblif")
    with open(path, "w") as handle:
        handle.write(text)
    return sdn.parse(path)


def pin_key(pin, top):
    if isinstance(pin, sdn.OuterPin):
        inner = pin.inner_pin
        owner = pin.instance.name if pin.instance.parent is top else "<foreign instance>"
        return (owner, inner.port.name, inner.port.pins.index(inner))
    owner = "<top>" if pin.port.definition is top else "<model %s>" % pin.port.definition.name
    return (owner, pin.port.name, pin.port.pins.index(pin))


def nets_of(netlist):
    top = netlist.top_instance.reference
    nets = {}
    for cable in top.cables:
        for index, wire in enumerate(cable.wires):
            if wire.pins:
                nets[(cable.name, index)] = {pin_key(pin, top) for pin in wire.pins}
    return nets


def instances_of(netlist):
    top = netlist.top_instance.reference
    return {i.name: (i.reference.name, i["EBLIF.type"]) for i in top.children}


def check_read(netlist, label):
    top = netlist.top_instance.reference
    check(top.name == "top", "%s: top model is %r, expected 'top'" % (label, top.name))

    found = {i.name: i.reference.name for i in top.children}
    check(found == EXPECTED_INSTANCES,
          "%s: instances/definitions are %r, expected %r" % (label, found, EXPECTED_INSTANCES))

    nets = nets_of(netlist)
    for key in sorted(set(nets) | set(EXPECTED_NETS)):
        check(nets.get(key) == EXPECTED_NETS.get(key),
              "%s: net %s[%d] joins pins %s, the file says %s"
              % (label, key[0], key[1], sorted(nets.get(key, ())), sorted(EXPECTED_NETS.get(key, ()))))

    # every formal=actual pair: the outer pin is on a wire of a cable owned by the top model
    for instance in top.children:
        for pin in instance.pins.values():
            if pin.wire is not None:
                cable = pin.wire.cable
                check(cable is not None and cable.definition is top,
                      "%s: pin %s.%s is joined to a wire that is not a net of model 'top'"
                      % (label, instance.name, pin.inner_pin.port.name))

    # black boxes: leaf primitives with the declared directions, owning no stray connectivity
    for name, directions in EXPECTED_DIRECTIONS.items():
        definition = next(netlist.get_definitions(name), None)
        check(definition is not None, "%s: model %s is missing" % (label, name))
        if definition is None:
            continue
        check(definition.is_leaf(), "%s: black box %s is not a leaf" % (label, name))
        check(definition.library is not None and definition.library.name == "hdi_primitives",
              "%s: black box %s is not in the primitive library" % (label, name))
        got = {p.name: p.direction for p in definition.ports}
        check(got == directions, "%s: ports of %s are %r, expected %r" % (label, name, got, directions))
        for port in definition.ports:
            for pin in port.pins:
                home = pin.wire.cable.definition if pin.wire is not None and pin.wire.cable else None
                check(home is None or home is definition,
                      "%s: not self-contained: port pin %s.%s of the black box is joined to net %r "
                      "of model %r" % (label, name, port.name,
                                       pin.wire.cable.name if home else None,
                                       home.name if home else None))

    # well-formed: every pin found on a net of a model belongs to that model
    for definition in netlist.get_definitions():
        for cable in definition.cables:
            for wire in cable.wires:
                for pin in wire.pins:
                    if isinstance(pin, sdn.OuterPin):
                        owner = pin.instance.parent
                    else:
                        owner = pin.port.definition
                    check(owner is definition,
                          "%s: not well-formed: net %s of model %s carries a pin of model %s"
                          % (label, cable.name, definition.name, getattr(owner, "name", owner)))


def check_roundtrip(netlist, label):
    folder = tempfile.mkdtemp()
    path = os.path.join(folder, "written.eblif")
    sdn.compose(netlist, path)
    again = sdn.parse(path)
    check(instances_of(again) == instances_of(netlist),
          "%s: instances differ after write-then-read: %r vs %r"
          % (label, instances_of(netlist), instances_of(again)))
    before = sorted(sorted(pins) for pins in nets_of(netlist).values())
    after = sorted(sorted(pins) for pins in nets_of(again).values())
    check(before == after, "%s: nets (as sets of pins) differ after write-then-read:\n   %r\n   %r"
          % (label, before, after))
    check_read(again, label + " (read back)")


for label, text in (
    ("black boxes declared after the main model", TOP + "\n" + BOXES),
    ("black boxes declared before the main model", BOXES + "\n" + TOP),
):
    design = parse_text(text)
    check_read(design, label)
    check_roundtrip(design, label)

if failures:
    print("C18 VIOLATED: %d check(s) failed" % len(failures))
    for message in failures[:12]:
        print(" -", message)
    raise AssertionError("EBLIF was not read faithfully: " + failures[0])
print("C18 holds on this design: instances, definitions, nets, black boxes and round trip are right")
