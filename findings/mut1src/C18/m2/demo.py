"""C18 demo 2: an EBLIF design with a wide .names (a 12-input product term, as PLA-style BLIF has
them) next to ordinary small ones survives write-then-read.

Checks, in the words of the property:
  * the file is read faithfully: one instance per .names/.subckt with the right definition, every
    formal=actual pair (for .names: the i-th listed net on input in_i, the last one on out) joined
    to the named net bit,
  * writing it as EBLIF and reading it back gives the same instances, types, data (the output
    covers) and nets (as sets of pins).

Run:  cd <checkout> && /venv/bin/python demo.py      (exit status 0 = property holds)
"""
import os
import sys
import tempfile

sys.path.insert(0, os.getcwd())
import spydrnet as sdn  # noqa: E402

WIDE = ["a[%d]" % i for i in range(8)] + ["en", "sel[0]", "sel[1]", "rst"]  # 12 input nets
DESIGN = """# address decoder
.model decoder
.inputs a[0] a[1] a[2] a[3] a[4] a[5] a[6] a[7] en sel[0] sel[1] rst
.outputs hit small q
.names %s hit
101100101-10 1
.names en rst small
10 1
.subckt DFF D=hit C=en Q=q
.cname u_ff
.end

.model DFF
.inputs D C
.outputs Q
.blackbox
.end
""" % " ".join(WIDE)


def split(net):
    if net.endswith("]"):
        return net[: net.rindex("[")], int(net[net.rindex("[") + 1 : -1])
    return net, 0


failures = []


def check(condition, message):
    if not condition:
        failures.append(message)


def parse_text(text):
    path = os.path.join(tempfile.mkdtemp(), "design.eblif")
    with open(path, "w") as handle:
        handle.write(text)
    return sdn.parse(path)


def pin_key(pin):
    if isinstance(pin, sdn.OuterPin):
        inner = pin.inner_pin
        return (pin.instance.name, inner.port.name, inner.port.pins.index(inner))
    return ("<model>", pin.port.name, pin.port.pins.index(pin))


def nets_of(netlist):
    nets = {}
    for cable in netlist.top_instance.reference.cables:
        for index, wire in enumerate(cable.wires):
            if wire.pins:
                nets[(cable.name, index)] = frozenset(pin_key(pin) for pin in wire.pins)
    return nets


def instances_of(netlist):
    return {
        i.name: (i.reference.name, i["EBLIF.type"], tuple(i.data.get("EBLIF.output_covers", ())))
        for i in netlist.top_instance.reference.children
    }


def net_of_pin(netlist, instance_name, port_name):
    instance = next(netlist.get_instances(instance_name))
    pin = next(p for p in instance.pins.values() if p.inner_pin.port.name == port_name)
    if pin.wire is None:
        return None
    return (pin.wire.cable.name, pin.wire.index())


def check_read(netlist, label):
    expected = {
        "hit": ("logic-gate_12", "EBLIF.names", ("101100101-10 1",)),
        "small": ("logic-gate_2", "EBLIF.names", ("10 1",)),
        "u_ff": ("DFF", "EBLIF.subckt", ()),
    }
    check(instances_of(netlist) == expected,
          "%s: instances are %r, expected %r" % (label, instances_of(netlist), expected))
    # every formal=actual pair of the wide .names
    for position, net in enumerate(WIDE):
        got = net_of_pin(netlist, "hit", "in_%d" % position)
        check(got == split(net),
              "%s: input in_%d of the 12-input .names 'hit' is joined to net %s, the file says %s"
              % (label, position, got, split(net)))
    check(net_of_pin(netlist, "hit", "out") == ("hit", 0), "%s: output of 'hit' misconnected" % label)
    check(net_of_pin(netlist, "small", "in_0") == ("en", 0), "%s: small.in_0 misconnected" % label)
    check(net_of_pin(netlist, "small", "in_1") == ("rst", 0), "%s: small.in_1 misconnected" % label)
    check(net_of_pin(netlist, "u_ff", "D") == ("hit", 0), "%s: u_ff.D misconnected" % label)


original = parse_text(DESIGN)
check_read(original, "read")

path = os.path.join(tempfile.mkdtemp(), "written.eblif")
sdn.compose(original, path)
again = sdn.parse(path)

check(instances_of(again) == instances_of(original),
      "write-then-read: instances/types/data differ: %r vs %r"
      % (instances_of(original), instances_of(again)))
before = set(nets_of(original).values())
after = set(nets_of(again).values())
for pins in sorted(map(sorted, before - after)):
    check(False, "write-then-read: net %s of the parsed design is gone after reading it back" % pins)
for pins in sorted(map(sorted, after - before)):
    check(False, "write-then-read: net %s appears only after reading it back" % pins)
check_read(again, "read back")

if failures:
    print("C18 VIOLATED: %d check(s) failed" % len(failures))
    for message in failures[:10]:
        print(" -", message)
    with open(path) as handle:
        for line in handle:
            if line.startswith(".names") and " hit" in line:
                print("written: ", line.strip())
                print("original: .names %s hit" % " ".join(WIDE))
    raise AssertionError("EBLIF did not survive write-then-read: " + failures[0])
print("C18 holds on this design: read faithfully, and write-then-read gives the same instances, "
      "types, data and nets")
