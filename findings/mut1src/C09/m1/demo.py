"""C09 demo 1: flatten must preserve leaf-level connectivity for nets that feed through a
cell from one port to another / inner nets that are tied to several ports.

Exit status 0 when the property holds, non-zero (AssertionError) when it is violated.
Run as:  cd <checkout> && /venv/bin/python demo.py
"""
import sys

import spydrnet as sdn
from spydrnet.ir import InnerPin, OuterPin
from spydrnet.flatten import flatten
from spydrnet.uniquify import uniquify

TOP = "<top>"


# ----------------------------------------------------------------------------------------------
# design
# ----------------------------------------------------------------------------------------------
def connect(definition, name, *pins):
    cable = definition.create_cable(name=name, wires=1)
    for p in pins:
        cable.wires[0].connect_pin(p)
    return cable


def opin(inst, port_name, idx=0):
    port = next(p for p in inst.reference.ports if p.name == port_name)
    return inst.pins[port.pins[idx]]


def ipin(definition, port_name, idx=0):
    port = next(p for p in definition.ports if p.name == port_name)
    return port.pins[idx]


def build():
    nl = sdn.Netlist(name="nl")
    lib = nl.create_library(name="work")

    # leaf cell
    buf = lib.create_definition(name="BUF")
    buf.create_port(name="I", pins=1, direction=sdn.IN)
    buf.create_port(name="O", pins=1, direction=sdn.OUT)

    # wire-only fan-out cell: one inner net tied to three ports (a -> b, c)
    fan = lib.create_definition(name="fan")
    for n, d in (("a", sdn.IN), ("b", sdn.OUT), ("c", sdn.OUT)):
        fan.create_port(name=n, pins=1, direction=d)
    connect(fan, "w", ipin(fan, "a"), ipin(fan, "b"), ipin(fan, "c"))

    # pure feed-through cell a -> b
    thru = lib.create_definition(name="thru")
    thru.create_port(name="a", pins=1, direction=sdn.IN)
    thru.create_port(name="b", pins=1, direction=sdn.OUT)
    connect(thru, "w", ipin(thru, "a"), ipin(thru, "b"))

    # cell with a leaf inside; inner net n is tied to ports x and y and to the leaf input
    mix = lib.create_definition(name="mix")
    for n, d in (("x", sdn.IN), ("y", sdn.OUT), ("z", sdn.OUT)):
        mix.create_port(name=n, pins=1, direction=d)
    u = mix.create_child(name="u", reference=buf)
    connect(mix, "n", ipin(mix, "x"), ipin(mix, "y"), opin(u, "I"))
    connect(mix, "o", opin(u, "O"), ipin(mix, "z"))

    # one more level: wrap contains a feed-through cell and a leaf (depth 3 below top)
    wrap = lib.create_definition(name="wrap")
    wrap.create_port(name="p", pins=1, direction=sdn.IN)
    wrap.create_port(name="q", pins=1, direction=sdn.OUT)
    ti = wrap.create_child(name="ti", reference=thru)
    v = wrap.create_child(name="v", reference=buf)
    connect(wrap, "pa", ipin(wrap, "p"), opin(ti, "a"))
    connect(wrap, "bq", opin(ti, "b"), opin(v, "I"))
    connect(wrap, "vq", opin(v, "O"), ipin(wrap, "q"))

    top = lib.create_definition(name="top")
    top.create_port(name="pin", pins=1, direction=sdn.IN)
    top.create_port(name="pout", pins=1, direction=sdn.OUT)
    t = top.create_child(name="t", reference=fan)
    m = top.create_child(name="m", reference=mix)
    wr = top.create_child(name="wr", reference=wrap)
    l0 = top.create_child(name="l0", reference=buf)
    l1 = top.create_child(name="l1", reference=buf)
    l2 = top.create_child(name="l2", reference=buf)
    connect(top, "n0", ipin(top, "pin"), opin(t, "a"))
    connect(top, "n1", opin(t, "b"), opin(l0, "I"))
    connect(top, "n2", opin(t, "c"), opin(m, "x"))
    connect(top, "n3", opin(m, "y"), opin(l1, "I"))
    connect(top, "n4", opin(m, "z"), ipin(top, "pout"), opin(l2, "I"))
    connect(top, "n5", opin(l0, "O"), opin(wr, "p"))
    connect(top, "n6", opin(wr, "q"), opin(l1, "O"))

    nl.top_instance = sdn.Instance(name="top_i")
    nl.top_instance.reference = top
    return nl


# ----------------------------------------------------------------------------------------------
# electrical connectivity of endpoints (leaf pin bits, top-level port bits)
# ----------------------------------------------------------------------------------------------
class UF:
    def __init__(self):
        self.p = {}

    def find(self, x):
        self.p.setdefault(x, x)
        while self.p[x] != x:
            self.p[x] = self.p[self.p[x]]
            x = self.p[x]
        return x

    def union(self, a, b):
        self.p[self.find(a)] = self.find(b)


def endpoint(path, pin):
    port = pin.port
    return (path, port.name, port.pins.index(pin))


def hierarchical_view(netlist):
    """returns (leaf occurrences {path: definition name}, set of frozenset groups of endpoints)"""
    uf = UF()
    leaves = {}
    top_def = netlist.top_instance.reference

    def visit(definition, path):
        for cable in definition.cables:
            for wire in cable.wires:
                node = ("W", path, id(wire))
                uf.find(node)
                for pin in wire.pins:
                    if isinstance(pin, OuterPin):
                        child = pin.instance
                        cpath = child.name if path == "" else path + "/" + child.name
                        if child.reference.is_leaf():
                            uf.union(node, ("E",) + endpoint(cpath, pin.inner_pin))
                        elif pin.inner_pin.wire is not None:
                            uf.union(node, ("W", cpath, id(pin.inner_pin.wire)))
                    elif definition is top_def:
                        uf.union(node, ("E",) + endpoint(TOP, pin))
        for child in definition.children:
            cpath = child.name if path == "" else path + "/" + child.name
            if child.reference.is_leaf():
                leaves[cpath] = child.reference.name
            else:
                visit(child.reference, cpath)

    visit(top_def, "")
    return leaves, groups_of(uf)


def groups_of(uf):
    groups = {}
    for x in list(uf.p):
        if x[0] == "E":
            groups.setdefault(uf.find(x), set()).add(x[1:])
    # only groups that actually connect two or more endpoints define "connected" pairs
    return set(frozenset(g) for g in groups.values() if len(g) > 1)


def flat_view(netlist):
    """the same, read off the flattened top definition; also checks well-formedness"""
    top_def = netlist.top_instance.reference
    children = list(top_def.children)
    leaves = {}
    for child in children:
        assert child.parent is top_def, "child %s has a wrong parent" % child.name
        assert child.reference.is_leaf(), (
            "hierarchical instance remains after flatten: %s" % child.name
        )
        assert child.name not in leaves, "duplicate instance name %s" % child.name
        leaves[child.name] = child.reference.name
    uf = UF()
    for cable in top_def.cables:
        assert cable.definition is top_def
        for wire in cable.wires:
            node = ("W", "", id(wire))
            for pin in wire.pins:
                assert pin.wire is wire, "pin/wire back pointer broken on %s" % cable.name
                if isinstance(pin, OuterPin):
                    assert any(pin.instance is c for c in children), (
                        "net %s is tied to a pin of an instance that is not in the top "
                        "definition: %s" % (cable.name, pin.instance.name)
                    )
                    assert pin.instance.pins[pin.inner_pin] is pin
                    uf.union(node, ("E",) + endpoint(pin.instance.name, pin.inner_pin))
                else:
                    assert isinstance(pin, InnerPin)
                    assert pin.port.definition is top_def, (
                        "net %s is tied to an inner pin of another definition (%s.%s)"
                        % (cable.name, pin.port.definition.name, pin.port.name)
                    )
                    uf.union(node, ("E",) + endpoint(TOP, pin))
    for child in children:
        for pin in child.pins:
            if pin.wire is not None:
                assert pin.wire.cable is not None and pin.wire.cable.definition is top_def
                assert any(pin is p for p in pin.wire.pins)
    return leaves, groups_of(uf)


def fmt(groups):
    return sorted(sorted("%s.%s[%d]" % e for e in g) for g in groups)


def main():
    nl = build()
    uniquify(nl)
    leaves_before, conn_before = hierarchical_view(nl)
    flatten(nl)
    leaves_after, conn_after = flat_view(nl)

    assert leaves_after == leaves_before, (
        "flatten must leave exactly one leaf instance per leaf occurrence, named by its "
        "slash-joined path:\n expected %r\n got      %r" % (leaves_before, leaves_after)
    )
    lost = conn_before - conn_after
    assert conn_before == conn_after, (
        "C09 violated: endpoints connected before flattening are not connected the same way "
        "after it (feed-through / inner net tied to several ports):\n before: %s\n after:  %s"
        % (fmt(conn_before), fmt(conn_after))
    )
    assert not lost
    print("C09 ok: %d leaf instances, %d nets preserved" % (len(leaves_after), len(conn_after)))
    return 0


if __name__ == "__main__":
    sys.exit(main())
