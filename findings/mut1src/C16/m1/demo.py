"""C16 demo (m1): writing a netlist to EBLIF must not change it and must be repeatable.

Run as:  cd <checkout> && /venv/bin/python demo.py
Exit status 0  = property holds; non-zero (AssertionError) = property violated.

What is needed for the violation: the netlist carries header comments in its user data
("EBLIF.comment" -- every netlist that came from the EBLIF parser has that key, it can also be set
by hand) and is composed to EBLIF more than once.
"""
import copy
import os
import tempfile

import spydrnet as sdn

EBLIF_TEXT = """# a hand written design
# second header comment
.model top
.inputs a b
.outputs y
.subckt AND2 A=a B=b O=n1
.cname u_and
.subckt INV I=n1 O=y
.cname u_inv
.attr KEEP true
.end

.model AND2
.inputs A B
.outputs O
.blackbox
.end

.model INV
.inputs I
.outputs O
.blackbox
.end
"""


def snapshot(netlist):
    """Structure, names, connectivity, bundle attributes and user data of a netlist."""

    def data(o):
        return copy.deepcopy(dict(o.data))

    def pin_id(pin):
        if isinstance(pin, sdn.OuterPin):
            return ("outer", pin.instance.name, pin.inner_pin.port.name,
                    pin.inner_pin.port.pins.index(pin.inner_pin))
        return ("inner", pin.port.name, pin.port.pins.index(pin))

    snap = {"netlist": data(netlist), "top": netlist.top_instance.name, "libraries": []}
    for lib in netlist.libraries:
        lib_snap = {"data": data(lib), "definitions": []}
        for d in lib.definitions:
            d_snap = {"data": data(d), "ports": [], "cables": [], "children": []}
            for p in d.ports:
                d_snap["ports"].append((data(p), p.direction, p.is_downto, p.is_scalar,
                                        p.lower_index, len(p.pins)))
            for c in d.cables:
                wires = [[pin_id(pin) for pin in w.pins] for w in c.wires]
                d_snap["cables"].append((data(c), c.is_downto, c.is_scalar, c.lower_index, wires))
            for i in d.children:
                d_snap["children"].append((data(i), i.reference.name))
            lib_snap["definitions"].append(d_snap)
        snap["libraries"].append(lib_snap)
    return snap


def compose_text(netlist, path, **options):
    sdn.compose(netlist, path, **options)
    with open(path) as f:
        return f.read()


def main():
    with tempfile.TemporaryDirectory() as tmp:
        src = os.path.join(tmp, "design.eblif")
        with open(src, "w") as f:
            f.write(EBLIF_TEXT)
        netlist = sdn.parse(src)

        before = snapshot(netlist)
        comments_before = list(netlist["EBLIF.comment"])

        first = compose_text(netlist, os.path.join(tmp, "out1.eblif"))

        after = snapshot(netlist)
        assert list(netlist["EBLIF.comment"]) == comments_before, (
            "C16 violated: composing to EBLIF changed the user data of the netlist: "
            "'EBLIF.comment' was %r, is now %r" % (comments_before, netlist["EBLIF.comment"]))
        assert after == before, "C16 violated: composing to EBLIF changed the netlist"

        # some arbitrary queries in between
        list(netlist.get_hinstances(recursive=True))
        list(netlist.get_cables())
        list(netlist.get_instances())

        second = compose_text(netlist, os.path.join(tmp, "out2.eblif"))
        assert second == first, (
            "C16 violated: composing the same netlist to EBLIF again gives different text\n"
            "--- first ---\n%s\n--- second ---\n%s"
            % ("\n".join(first.splitlines()[:5]), "\n".join(second.splitlines()[:5])))

        # all option combinations, each one twice
        for write_blackbox in (True, False):
            for write_eblif_cname in (True, False):
                opts = dict(write_blackbox=write_blackbox, write_eblif_cname=write_eblif_cname)
                t1 = compose_text(netlist, os.path.join(tmp, "o1.eblif"), **opts)
                t2 = compose_text(netlist, os.path.join(tmp, "o2.eblif"), **opts)
                assert t1 == t2, "C16 violated: EBLIF output not repeatable with %r" % opts
        assert snapshot(netlist) == before, (
            "C16 violated: the netlist changed while it was being written to EBLIF")

    print("C16 holds: EBLIF compose left the netlist unchanged and is repeatable")


if __name__ == "__main__":
    main()
