"""C16 demo (m2): writing a netlist to Verilog must not change it and must be repeatable.

Run as:  cd <checkout> && /venv/bin/python demo.py
Exit status 0  = property holds; non-zero (AssertionError) = property violated.

What is needed for the violation: the same netlist (or any netlist sharing definitions with one that
was written before) is composed to Verilog a second time in the same Python process.
"""
import copy
import os
import tempfile

import spydrnet as sdn

VERILOG_TEXT = """
module top (a, b, y);
    input [1:0] a;
    input b;
    output y;

    wire n1;
    wire n2;

    half u0 (.i(a[0]), .o(n1));
    half u1 (.i(a[1]), .o(n2));
    AND3 #(.INIT(8'h80)) u2 (.A(n1), .B(n2), .C(b), .O(y));
endmodule

module half (i, o);
    input i;
    output o;

    INV u_inv (.I(i), .O(o));
endmodule
"""


def snapshot(netlist):
    """Structure, names, connectivity, bundle attributes and user data of a netlist."""

    def data(o):
        return copy.deepcopy(dict(o.data))

    def pin_id(pin):
        if isinstance(pin, sdn.OuterPin):
            return ("outer", pin.instance.name, pin.inner_pin.port.name,
                    pin.inner_pin.port.pins.index(pin.inner_pin))
        return ("inner", pin.port.name, pin.port.pins.index(pin))

    snap = {"netlist": data(netlist), "top": netlist.top_instance.name, "libraries": []}
    for lib in netlist.libraries:
        lib_snap = {"data": data(lib), "definitions": []}
        for d in lib.definitions:
            d_snap = {"data": data(d), "ports": [], "cables": [], "children": []}
            for p in d.ports:
                d_snap["ports"].append((data(p), p.direction, p.is_downto, p.is_scalar,
                                        p.lower_index, len(p.pins)))
            for c in d.cables:
                wires = [[pin_id(pin) for pin in w.pins] for w in c.wires]
                d_snap["cables"].append((data(c), c.is_downto, c.is_scalar, c.lower_index, wires))
            for i in d.children:
                d_snap["children"].append((data(i), i.reference.name))
            lib_snap["definitions"].append(d_snap)
        snap["libraries"].append(lib_snap)
    return snap


def compose_text(netlist, path, **options):
    sdn.compose(netlist, path, **options)
    with open(path) as f:
        return f.read()


def modules(text):
    return [line.split()[1] for line in text.splitlines() if line.startswith("module ")]


def main():
    with tempfile.TemporaryDirectory() as tmp:
        src = os.path.join(tmp, "design.v")
        with open(src, "w") as f:
            f.write(VERILOG_TEXT)
        netlist = sdn.parse(src)
        before = snapshot(netlist)

        first = compose_text(netlist, os.path.join(tmp, "out1.v"))
        assert "top" in modules(first) and "half" in modules(first), (
            "the Verilog output is not complete: modules written = %r" % modules(first))
        assert snapshot(netlist) == before, "C16 violated: composing to Verilog changed the netlist"

        # immediately again
        second = compose_text(netlist, os.path.join(tmp, "out2.v"))
        assert second == first, (
            "C16 violated: composing the same netlist to Verilog again gives different text: "
            "modules written the first time %r, the second time %r"
            % (modules(first), modules(second)))

        # ... and after arbitrary queries
        list(netlist.get_hinstances(recursive=True))
        list(netlist.get_hwires(recursive=True))
        list(netlist.get_definitions())
        third = compose_text(netlist, os.path.join(tmp, "out3.v"))
        assert third == first, (
            "C16 violated: composing the same netlist to Verilog after some queries gives "
            "different text: modules written the first time %r, now %r"
            % (modules(first), modules(third)))

        # all option combinations, each one twice
        for definition_list in ([], ["half"], ["top", "half"]):
            for write_blackbox in (True, False):
                for defparam in (True, False):
                    opts = dict(definition_list=definition_list, write_blackbox=write_blackbox,
                                defparam=defparam)
                    t1 = compose_text(netlist, os.path.join(tmp, "o1.v"), **opts)
                    t2 = compose_text(netlist, os.path.join(tmp, "o2.v"), **opts)
                    assert t1 == t2, (
                        "C16 violated: Verilog output not repeatable with %r: modules %r then %r"
                        % (opts, modules(t1), modules(t2)))
                    assert "half" in modules(t1), (
                        "the Verilog output is not complete with %r: modules %r"
                        % (opts, modules(t1)))
        assert snapshot(netlist) == before, (
            "C16 violated: the netlist changed while it was being written to Verilog")

    print("C16 holds: Verilog compose left the netlist unchanged and is repeatable")


if __name__ == "__main__":
    main()
