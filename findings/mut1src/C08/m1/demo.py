"""C08 demo 1: a definition shared between an instance below the top instance and an instance
OUTSIDE the top hierarchy (a spare module nobody instantiates) must still be made unique.

Exit status 0 when the property holds, assertion failure otherwise.
"""
import spydrnet as sdn
from spydrnet.uniquify import uniquify


# ---------------------------------------------------------------- elaboration helpers
def elaborate(netlist):
    """(tree of hierarchical instance names, leaf type at every path, nets over leaf pins and
    top-level port bits)"""
    top = netlist.top_instance
    parent = {}

    def find(x):
        parent.setdefault(x, x)
        while parent[x] != x:
            parent[x] = parent[parent[x]]
            x = parent[x]
        return x

    def union(a, b):
        parent[find(a)] = find(b)

    tree, leaf_type, terminals = set(), {}, set()

    def key(path, pin):
        return (path, pin.port.name, pin.port.pins.index(pin))

    def walk(inst, path):
        tree.add(path)
        d = inst.reference
        if d.is_leaf():
            leaf_type[path] = d.name
            for port in d.ports:
                for pin in port.pins:
                    terminals.add(key(path, pin))
                    find(key(path, pin))
            return
        if inst is top:
            for port in d.ports:
                for pin in port.pins:
                    terminals.add(key(path, pin))
                    find(key(path, pin))
        for cable in d.cables:
            for wire in cable.wires:
                keys = []
                for pin in wire.pins:
                    if isinstance(pin, sdn.OuterPin):
                        keys.append(key(path + (pin.instance.name,), pin.inner_pin))
                    else:
                        keys.append(key(path, pin))
                for k in keys[1:]:
                    union(keys[0], k)
        for child in d.children:
            walk(child, path + (child.name,))

    walk(top, (top.name,))
    groups = {}
    for t in terminals:
        groups.setdefault(find(t), set()).add(t)
    return frozenset(tree), leaf_type, frozenset(frozenset(g) for g in groups.values())


def hierarchy(netlist):
    out = []

    def walk(inst, path):
        out.append((path, inst))
        for child in inst.reference.children:
            walk(child, path + (child.name,))

    walk(netlist.top_instance, (netlist.top_instance.name,))
    return out


# ---------------------------------------------------------------- the netlist
def build():
    nl = sdn.Netlist(name="nl")
    work = nl.create_library(name="work")

    buf = work.create_definition(name="BUF")  # leaf cell
    buf.create_port("I", direction=sdn.IN, pins=1)
    buf.create_port("O", direction=sdn.OUT, pins=1)

    mid = work.create_definition(name="mid")  # non-leaf, shared
    mi = mid.create_port("a", direction=sdn.IN, pins=1)
    mo = mid.create_port("y", direction=sdn.OUT, pins=1)
    b = mid.create_child(name="b0", reference=buf)
    ca = mid.create_cable("a", wires=1)
    cy = mid.create_cable("y", wires=1)
    ca.wires[0].connect_pin(mi.pins[0])
    ca.wires[0].connect_pin(b.pins[buf.ports[0].pins[0]])
    cy.wires[0].connect_pin(b.pins[buf.ports[1].pins[0]])
    cy.wires[0].connect_pin(mo.pins[0])

    # a spare module that nobody instantiates: its child is an instance of `mid` that lives
    # outside the top hierarchy
    spare = work.create_definition(name="spare")
    spare.create_child(name="s0", reference=mid)

    top = work.create_definition(name="top")
    ti = top.create_port("in", direction=sdn.IN, pins=1)
    to = top.create_port("out", direction=sdn.OUT, pins=1)
    u0 = top.create_child(name="u0", reference=mid)
    cin = top.create_cable("in", wires=1)
    cout = top.create_cable("out", wires=1)
    cin.wires[0].connect_pin(ti.pins[0])
    cin.wires[0].connect_pin(u0.pins[mi.pins[0]])
    cout.wires[0].connect_pin(u0.pins[mo.pins[0]])
    cout.wires[0].connect_pin(to.pins[0])

    nl.top_instance = sdn.Instance(name="top")
    nl.top_instance.reference = top
    return nl


def main():
    nl = build()
    before = elaborate(nl)
    names_before = {d.name for lib in nl.libraries for d in lib.definitions}

    uniquify(nl)

    # the elaborated design is untouched
    assert elaborate(nl) == before, "C08 violated: uniquify changed the elaborated design"

    # every non-leaf instance reachable from the top instance is the only instance of its definition
    for path, inst in hierarchy(nl):
        d = inst.reference
        if d.is_leaf():
            continue
        others = sorted(
            "%s (in %s)" % (r.name, r.parent.name if r.parent is not None else None)
            for r in d.references
            if r is not inst
        )
        assert not others, (
            "C08 violated: after uniquify the non-leaf instance %s is NOT the only instance of its "
            "definition '%s'; the definition is also instanced by %s (an instance outside the top "
            "hierarchy)" % ("/".join(path), d.name, others)
        )

    # new definitions have fresh, unique names in the original's library
    for lib in nl.libraries:
        names = [d.name for d in lib.definitions]
        assert len(names) == len(set(names)), "C08 violated: duplicate definition names"
    new_names = {d.name for lib in nl.libraries for d in lib.definitions} - names_before
    for n in new_names:
        d = next(nl.get_definitions(n))
        assert d.library.name == "work", "C08 violated: clone not in the original's library"

    # running uniquify again changes nothing
    snap = [(lib.name, [d.name for d in lib.definitions]) for lib in nl.libraries]
    refs = [(p, i.reference) for p, i in hierarchy(nl)]
    uniquify(nl)
    assert snap == [(lib.name, [d.name for d in lib.definitions]) for lib in nl.libraries]
    assert refs == [(p, i.reference) for p, i in hierarchy(nl)]
    assert elaborate(nl) == before
    print("C08 holds on this netlist")


if __name__ == "__main__":
    main()
