"""C08 demo 2: a non-leaf macro that lives in its own library ("macros") is instanced twice by the
top module of another library ("work").  After uniquify the copy that was created must carry a
fresh unique name IN THE ORIGINAL'S LIBRARY ("macros"), the design must be unchanged, every
non-leaf instance must be unique and a second run must change nothing.

Exit status 0 when the property holds, assertion failure otherwise.
"""
import spydrnet as sdn
from spydrnet.uniquify import uniquify


# ---------------------------------------------------------------- elaboration helpers
def elaborate(netlist):
    """(tree of hierarchical instance names, leaf type at every path, nets over leaf pins and
    top-level port bits)"""
    top = netlist.top_instance
    parent = {}

    def find(x):
        parent.setdefault(x, x)
        while parent[x] != x:
            parent[x] = parent[parent[x]]
            x = parent[x]
        return x

    def union(a, b):
        parent[find(a)] = find(b)

    tree, leaf_type, terminals = set(), {}, set()

    def key(path, pin):
        return (path, pin.port.name, pin.port.pins.index(pin))

    def walk(inst, path):
        tree.add(path)
        d = inst.reference
        if d.is_leaf():
            leaf_type[path] = d.name
            for port in d.ports:
                for pin in port.pins:
                    terminals.add(key(path, pin))
                    find(key(path, pin))
            return
        if inst is top:
            for port in d.ports:
                for pin in port.pins:
                    terminals.add(key(path, pin))
                    find(key(path, pin))
        for cable in d.cables:
            for wire in cable.wires:
                keys = []
                for pin in wire.pins:
                    if isinstance(pin, sdn.OuterPin):
                        keys.append(key(path + (pin.instance.name,), pin.inner_pin))
                    else:
                        keys.append(key(path, pin))
                for k in keys[1:]:
                    union(keys[0], k)
        for child in d.children:
            walk(child, path + (child.name,))

    walk(top, (top.name,))
    groups = {}
    for t in terminals:
        groups.setdefault(find(t), set()).add(t)
    return frozenset(tree), leaf_type, frozenset(frozenset(g) for g in groups.values())


def hierarchy(netlist):
    out = []

    def walk(inst, path):
        out.append((path, inst))
        for child in inst.reference.children:
            walk(child, path + (child.name,))

    walk(netlist.top_instance, (netlist.top_instance.name,))
    return out


# ---------------------------------------------------------------- the netlist
def build():
    nl = sdn.Netlist(name="nl")
    prims = nl.create_library(name="prims")
    macros = nl.create_library(name="macros")
    work = nl.create_library(name="work")

    buf = prims.create_definition(name="BUF")  # leaf cell
    bi = buf.create_port("I", direction=sdn.IN, pins=1)
    bo = buf.create_port("O", direction=sdn.OUT, pins=1)

    # macro with a 2 bit bus port: bit 0 is buffered, bit 1 is passed straight through, and an
    # unconnected spare output
    dbl = macros.create_definition(name="dbl")
    di = dbl.create_port("d", direction=sdn.IN, pins=2)
    do = dbl.create_port("q", direction=sdn.OUT, pins=2)
    dbl.create_port("nc", direction=sdn.OUT, pins=1)
    b = dbl.create_child(name="b0", reference=buf)
    c_in = dbl.create_cable("d0", wires=1)
    c_out = dbl.create_cable("q0", wires=1)
    c_thru = dbl.create_cable("thru", wires=1)
    c_in.wires[0].connect_pin(di.pins[0])
    c_in.wires[0].connect_pin(b.pins[bi.pins[0]])
    c_out.wires[0].connect_pin(b.pins[bo.pins[0]])
    c_out.wires[0].connect_pin(do.pins[0])
    c_thru.wires[0].connect_pin(di.pins[1])
    c_thru.wires[0].connect_pin(do.pins[1])

    top = work.create_definition(name="top")
    ti = top.create_port("in", direction=sdn.IN, pins=2)
    to = top.create_port("out", direction=sdn.OUT, pins=2)
    u0 = top.create_child(name="u0", reference=dbl)
    u1 = top.create_child(name="u1", reference=dbl)
    cin = top.create_cable("in", wires=2)
    cmid = top.create_cable("mid", wires=2)
    cout = top.create_cable("out", wires=2)
    for k in range(2):
        cin.wires[k].connect_pin(ti.pins[k])
        cin.wires[k].connect_pin(u0.pins[di.pins[k]])
        cmid.wires[k].connect_pin(u0.pins[do.pins[k]])
        cmid.wires[k].connect_pin(u1.pins[di.pins[1 - k]])  # crossed over
        cout.wires[k].connect_pin(u1.pins[do.pins[k]])
        cout.wires[k].connect_pin(to.pins[k])

    nl.top_instance = sdn.Instance(name="top")
    nl.top_instance.reference = top
    return nl


def main():
    nl = build()
    before = elaborate(nl)
    defs_before = {d: lib.name for lib in nl.libraries for d in lib.definitions}
    names_before = {lib.name: [d.name for d in lib.definitions] for lib in nl.libraries}

    uniquify(nl)

    # the elaborated design is untouched
    assert elaborate(nl) == before, "C08 violated: uniquify changed the elaborated design"

    # every non-leaf instance reachable from the top instance is the only instance of its definition
    for path, inst in hierarchy(nl):
        d = inst.reference
        if not d.is_leaf():
            assert set(d.references) == {inst}, (
                "C08 violated: %s is not the only instance of '%s'" % ("/".join(path), d.name)
            )

    # newly created definitions have fresh unique names in the ORIGINAL'S library
    created = [d for lib in nl.libraries for d in lib.definitions if d not in defs_before]
    assert len(created) == 1, "exactly one copy of 'dbl' is expected, got %d" % len(created)
    for d in created:
        assert d.name is not None and d.name.startswith("dbl"), d.name
        assert d.name not in sum(names_before.values(), []), "C08 violated: name not fresh"
        assert d.library is not None and d.library.name == "macros", (
            "C08 violated: the definition '%s' created by uniquify for a copy of 'dbl' (library "
            "'macros') was put into library '%s' instead of the original's library 'macros'"
            % (d.name, d.library.name if d.library is not None else None)
        )
    for d, libname in defs_before.items():
        assert d.library.name == libname, "C08 violated: an existing definition changed library"
    for lib in nl.libraries:
        names = [d.name for d in lib.definitions]
        assert len(names) == len(set(names)), "C08 violated: duplicate definition names"

    # running uniquify again changes nothing
    snap = [(lib.name, [d.name for d in lib.definitions]) for lib in nl.libraries]
    refs = [(p, i.reference) for p, i in hierarchy(nl)]
    uniquify(nl)
    assert snap == [(lib.name, [d.name for d in lib.definitions]) for lib in nl.libraries]
    assert refs == [(p, i.reference) for p, i in hierarchy(nl)]
    assert elaborate(nl) == before
    print("C08 holds on this netlist")


if __name__ == "__main__":
    main()
