"""C10 demo 2: an add that is refused (duplicate name) must leave no trace: afterwards
exact-identifier lookup on the parent still agrees with a linear scan of its children, and
the identifier of the refused element is free for the real siblings.

Exit status 0 when the property holds, AssertionError otherwise."""
import spydrnet as sdn


def scan(children, identifier):
    """linear scan, EDIF identifiers compare case-insensitively"""
    return [c for c in children
            if "EDIF.identifier" in c and c["EDIF.identifier"].lower() == identifier.lower()]


def check_scope(scope, parent, children_of, getter, adder, sibling, other, orphan):
    sibling.name = "net[1]"
    sibling["EDIF.identifier"] = "net_1_"

    # the orphan has a fresh identifier but the *name* of an existing sibling
    orphan["EDIF.identifier"] = "Spare"
    orphan.name = "net[1]"
    try:
        adder(parent, orphan)
    except ValueError:
        pass
    else:
        raise AssertionError(scope + ": adding an element with a duplicate name was accepted")
    assert orphan not in children_of(parent), scope + ": refused element became a child anyway"

    # 1. exact lookup agrees with a scan of the children
    for ident in ("Spare", "spare", "net_1_"):
        found = list(getter(parent, ident, key="EDIF.identifier"))
        expected = scan(children_of(parent), ident)
        assert found == expected, (
            "{}: lookup of identifier {!r} returned {} but a scan of the children finds {} "
            "(the element whose add was refused is in the index)".format(
                scope, ident, found, expected))
    assert list(getter(parent, "net[1]")) == [sibling], scope + ": name lookup disagrees with scan"

    # 2. an edit is refused exactly when it creates a duplicate among the siblings
    try:
        other["EDIF.identifier"] = "SPARE"
    except ValueError as e:
        raise AssertionError(
            "{}: setting identifier 'SPARE' was refused ({}) although no sibling carries it - "
            "refused because of an element that never became a child".format(scope, e))

    # 3. once the clash is resolved the orphan is still refused for a real identifier duplicate
    orphan.name = "net[2]"
    try:
        adder(parent, orphan)
    except ValueError:
        pass
    else:
        raise AssertionError(scope + ": case-variant duplicate identifier accepted on add")
    orphan["EDIF.identifier"] = "Spare2"
    adder(parent, orphan)
    assert list(getter(parent, "spare2", key="EDIF.identifier")) == [orphan], scope
    assert list(getter(parent, "net[2]")) == [orphan], scope


def main():
    original_default = sdn.namespace_manager.default
    sdn.namespace_manager.default = "EDIF"
    try:
        netlist = sdn.Netlist()
        l1, l2 = netlist.create_library(), netlist.create_library()
        check_scope("libraries of a netlist", netlist, lambda p: p.libraries,
                    sdn.get_libraries, lambda p, c: p.add_library(c), l1, l2, sdn.Library())
        d1, d2 = l1.create_definition(), l1.create_definition()
        check_scope("definitions of a library", l1, lambda p: p.definitions,
                    sdn.get_definitions, lambda p, c: p.add_definition(c), d1, d2,
                    sdn.Definition())
        check_scope("ports of a definition", d1, lambda p: p.ports,
                    sdn.get_ports, lambda p, c: p.add_port(c),
                    d1.create_port(), d1.create_port(), sdn.Port())
        check_scope("cables of a definition", d1, lambda p: p.cables,
                    sdn.get_cables, lambda p, c: p.add_cable(c),
                    d1.create_cable(), d1.create_cable(), sdn.Cable())
        check_scope("instances of a definition", d1, lambda p: p.children,
                    sdn.get_instances, lambda p, c: p.add_child(c),
                    d1.create_child(), d1.create_child(), sdn.Instance())
    finally:
        sdn.namespace_manager.default = original_default
    print("C10 demo 2: OK - a refused add leaves the name tables untouched")


if __name__ == "__main__":
    main()
