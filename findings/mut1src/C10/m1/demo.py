"""C10 demo 1: under the EDIF policy a *renamed* element must not keep blocking its old
identifier, and exact-identifier lookup must agree with a linear scan of the siblings.

Exit status 0 when the property holds, AssertionError otherwise."""
import spydrnet as sdn


def scan(children, identifier):
    """linear scan, EDIF identifiers compare case-insensitively"""
    return [c for c in children
            if "EDIF.identifier" in c and c["EDIF.identifier"].lower() == identifier.lower()]


def check_scope(scope, parent, children_of, getter, first, second):
    # history: name it with an identifier that has upper-case letters, then rename it
    first["EDIF.identifier"] = "Data_Bus"
    assert list(getter(parent, "Data_Bus", key="EDIF.identifier")) == [first], scope
    first["EDIF.identifier"] = "clk"

    # 1. exact lookup agrees with a scan, for the old and the new identifier
    for ident in ("Data_Bus", "data_bus", "DATA_BUS", "clk", "CLK"):
        found = list(getter(parent, ident, key="EDIF.identifier"))
        expected = scan(children_of(parent), ident)
        assert found == expected, (
            "{}: lookup of identifier {!r} returned {} but a scan of the siblings finds {} "
            "(stale index entry of a renamed element)".format(scope, ident, found, expected))

    # 2. the freed identifier (any case variant) can be taken by a sibling: an edit is
    #    refused only when it would create a duplicate, never because of an earlier rename
    try:
        second["EDIF.identifier"] = "DATA_BUS"
    except ValueError as e:
        raise AssertionError(
            "{}: setting identifier 'DATA_BUS' was refused ({}) although no sibling carries it "
            "any more - refused because of an element renamed earlier".format(scope, e))
    assert list(getter(parent, "data_bus", key="EDIF.identifier")) == [second], scope

    # 3. a real (case-insensitive) duplicate is still refused
    try:
        first["EDIF.identifier"] = "data_BUS"
    except ValueError:
        pass
    else:
        raise AssertionError(scope + ": case-variant duplicate identifier was accepted")


def main():
    original_default = sdn.namespace_manager.default
    sdn.namespace_manager.default = "EDIF"
    try:
        netlist = sdn.Netlist()
        l1, l2 = netlist.create_library(), netlist.create_library()
        check_scope("libraries of a netlist", netlist, lambda p: p.libraries,
                    sdn.get_libraries, l1, l2)
        d1, d2 = l1.create_definition(), l1.create_definition()
        check_scope("definitions of a library", l1, lambda p: p.definitions,
                    sdn.get_definitions, d1, d2)
        check_scope("ports of a definition", d1, lambda p: p.ports,
                    sdn.get_ports, d1.create_port(), d1.create_port())
        check_scope("cables of a definition", d1, lambda p: p.cables,
                    sdn.get_cables, d1.create_cable(), d1.create_cable())
        check_scope("instances of a definition", d1, lambda p: p.children,
                    sdn.get_instances, d1.create_child(), d1.create_child())
    finally:
        sdn.namespace_manager.default = original_default
    print("C10 demo 1: OK - renamed identifiers are released, lookup agrees with scan")


if __name__ == "__main__":
    main()
