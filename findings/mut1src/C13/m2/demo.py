"""C13 demo 2: several patterns give the union, no element is returned twice and the result
does not depend on the order of the patterns -- for every kind of root object.

The instances below an instance (root object kind Instance) and the instances of a definition
(root Definition, selection OUTSIDE) are queried with an exact name plus an overlapping wildcard,
in both orders.
"""
import fnmatch
import spydrnet as sdn


def build():
    netlist = sdn.Netlist(name="n")
    lib = netlist.create_library(name="work")
    leaf = lib.create_definition(name="leaf")
    core_def = lib.create_definition(name="core_def")
    for name in ("ab", "abc", "a", "b", "xab"):
        core_def.create_child(name=name, reference=leaf)
    top = lib.create_definition(name="top")
    core = top.create_child(name="core", reference=core_def)
    top_instance = sdn.Instance(name="top_i")
    top_instance.reference = top
    netlist.top_instance = top_instance
    return netlist, core_def, core, leaf


def names(result):
    return sorted(x.name for x in result)


def expected(unfiltered, patterns):
    # these names hold no characters that are special to fnmatch besides * and ?
    return sorted(
        x.name for x in unfiltered if any(fnmatch.fnmatchcase(x.name, p) for p in patterns)
    )


def main():
    netlist, core_def, core, leaf = build()
    failures = []
    roots = (
        ("the instance 'core' (instances inside it)", core, {}),
        ("the definition 'leaf', selection='OUTSIDE' (its instances)", leaf, {"selection": "OUTSIDE"}),
        ("the definition 'core_def' (its children)", core_def, {}),
    )
    pattern_lists = (["ab", "a*"], ["a*", "ab"], ["ab", "?b"], ["?b", "ab"], ["ab", "ab"])
    for what, root, kwargs in roots:
        unfiltered = list(sdn.get_instances(root, **kwargs))
        assert names(unfiltered) == ["a", "ab", "abc", "b", "xab"], names(unfiltered)
        for patterns in pattern_lists:
            got = names(sdn.get_instances(root, patterns, **kwargs))
            want = expected(unfiltered, patterns)
            if got != want:
                failures.append(
                    "get_instances on %s with patterns %r returned %r, the unfiltered result "
                    "restricted to the union of the patterns is %r"
                    % (what, patterns, got, want)
                )
            swapped = names(sdn.get_instances(root, patterns[::-1], **kwargs))
            if got != swapped:
                failures.append(
                    "get_instances on %s depends on the order of the patterns: %r gives %r "
                    "but %r gives %r" % (what, patterns, got, patterns[::-1], swapped)
                )
    for line in failures:
        print("C13 VIOLATED:", line)
    assert not failures, (
        "C13 violated: an element is returned twice / the result depends on the order of the "
        "patterns (%d findings, see above)" % len(failures)
    )
    print("C13 demo 2: unions of patterns are duplicate-free and order independent")


if __name__ == "__main__":
    main()
