"""C13 demo 1: the meaning of a pattern must not depend on the queries that ran before.

The same wildcard / regex pattern is used first with is_case=False and later with
is_case=True (and the other way round).  Every result has to equal the unfiltered result
restricted to the elements whose name matches the pattern under the options of THAT call.
"""
import sys
import spydrnet as sdn


def build():
    netlist = sdn.Netlist(name="n")
    lib = netlist.create_library(name="work")
    leaf = lib.create_definition(name="leaf")
    top = lib.create_definition(name="top")
    for name in ("alu", "alu_b", "ALU_c", "Alu_d", "mux", "MUX_e", "reg0"):
        top.create_child(name=name, reference=leaf)
        top.create_cable(name=name)
        top.create_port(name=name)
    top_instance = sdn.Instance(name="top_i")
    top_instance.reference = top
    netlist.top_instance = top_instance
    return netlist, top


def oracle(elements, prefix, is_case):
    """independent oracle for the patterns 'prefix*' (wildcard) and 'prefix.*' (regex)"""
    if is_case:
        return {e.name for e in elements if e.name.startswith(prefix)}
    return {e.name for e in elements if e.name.lower().startswith(prefix.lower())}


def check(what, got, expected):
    got_names = sorted(x.name for x in got)
    if len(got_names) != len(set(got_names)) or set(got_names) != expected:
        print("C13 VIOLATED: %s\n   returned %s\n   expected %s" % (what, got_names, sorted(expected)))
        return False
    return True


def main():
    netlist, top = build()
    ok = True
    queries = (
        ("get_instances", sdn.get_instances, list(top.children)),
        ("get_cables", sdn.get_cables, list(top.cables)),
        ("get_ports", sdn.get_ports, list(top.ports)),
    )
    # (pattern, is_re, prefix the pattern stands for, order in which the is_case options are used)
    plans = (
        ("alu*", False, "alu", (False, True)),
        ("alu.*", True, "alu", (False, True)),
        ("MUX*", False, "MUX", (True, False)),
        ("MUX.*", True, "MUX", (True, False)),
    )
    for fname, func, everything in queries:
        unfiltered = list(func(top))
        assert {x.name for x in unfiltered} == {x.name for x in everything}
        for pattern, is_re, prefix, order in plans:
            for is_case in order:
                got = list(func(top, pattern, is_re=is_re, is_case=is_case))
                ok &= check(
                    "%s(top, %r, is_re=%s, is_case=%s) is not the unfiltered result restricted "
                    "to the matching names" % (fname, pattern, is_re, is_case),
                    got,
                    oracle(unfiltered, prefix, is_case),
                )
    # the hierarchical queries share the matcher
    for is_case in (False, True):
        got = list(sdn.get_hinstances(netlist, "alu*", is_case=is_case))
        ok &= check(
            "get_hinstances(netlist, 'alu*', is_case=%s)" % is_case,
            [h.item for h in got],
            oracle(list(top.children), "alu", is_case),
        )
    assert ok, "C13 violated: is_case=True/False of a call was not honoured (see above)"
    print("C13 demo 1: all queries agree with their oracle")


if __name__ == "__main__":
    main()
