"""C19 demo 2: a change of an instance's reference is announced to the listeners BEFORE it takes
effect. While instance_reference(instance, new) is being delivered nothing of the change may be
visible yet: the instance still references the old definition AND the old definition still lists
the instance among its references. Consequently a listener that vetoes the change (raises) leaves
the netlist exactly as it was: no part of a change that does not happen has been carried out.

Needed to see the violation: an instance that ALREADY has a reference is re-pointed (or has its
reference removed), and a listener that looks at the netlist at announcement time or vetoes.

exit status 0: announcement precedes every effect of the reference change
exit status 1: part of the change was already in effect when it was announced
"""
import sys

import spydrnet as sdn
from spydrnet.callback.callback_listener import CallbackListener


class Veto(Exception):
    pass


class Observer(CallbackListener):
    """records what the netlist looks like at the moment a reference change is announced"""

    def __init__(self):
        self.seen = list()
        super().__init__()

    def instance_reference(self, instance, reference):
        old = instance.reference
        self.seen.append(
            dict(
                instance=instance,
                new=reference,
                old=old,
                listed_in_old=(old is None or instance in old.references),
                listed_in_new=(reference is not None and instance in reference.references),
            )
        )


class Vetoer(CallbackListener):
    """a second listener, registered after the first one, that refuses the change"""

    def __init__(self):
        self.active = False
        super().__init__()

    def instance_reference(self, instance, reference):
        if self.active:
            raise Veto("reference change refused")


def snapshot(instance, definitions):
    return (
        instance.reference,
        tuple(instance in d.references for d in definitions),
        tuple(id(p.inner_pin) for p in instance.pins),
        tuple(id(p.wire) if p.wire is not None else None for p in instance.pins),
    )


def main():
    observer = Observer()
    vetoer = Vetoer()
    try:
        netlist = sdn.Netlist(name="n")
        lib = netlist.create_library(name="work")
        and2 = lib.create_definition(name="and2")
        or2 = lib.create_definition(name="or2")
        for d in (and2, or2):
            d.create_port(name="I", pins=2)
            d.create_port(name="O", pins=1)
        top = lib.create_definition(name="top")
        cable = top.create_cable(name="net", wires=1)
        u0 = top.create_child(name="u0", reference=and2)
        cable.wires[0].connect_pin(u0.pins[and2.ports[1].pins[0]])
        del observer.seen[:]

        # 1. re-pointing and2 -> or2 (ports match): nothing may have happened at announcement time
        u0.reference = or2
        assert len(observer.seen) == 1
        seen = observer.seen.pop()
        assert seen["old"] is and2 and seen["new"] is or2
        assert seen["listed_in_old"] and not seen["listed_in_new"], (
            "C19 violated: when instance_reference(u0, or2) was announced, u0 still referenced "
            "'and2' but and2.references no longer contained u0 -- part of the change had taken "
            "effect before the listeners were told"
        )
        assert u0.reference is or2 and u0 in or2.references and u0 not in and2.references

        # 2. another listener vetoes the next change: the netlist must be left untouched
        before = snapshot(u0, (and2, or2))
        vetoer.active = True
        for target, what in ((and2, "re-pointing or2 -> and2"), (None, "removing the reference")):
            try:
                u0.reference = target
            except Veto:
                pass
            else:
                raise AssertionError("the veto was swallowed")
            seen = observer.seen.pop()
            assert seen["listed_in_old"], (
                "C19 violated: %s was announced after u0 had already been dropped from "
                "or2.references" % what
            )
            after = snapshot(u0, (and2, or2))
            assert after == before, (
                "C19 violated: %s was vetoed by a listener, yet part of it happened: "
                "u0.reference is %s, u0 in and2.references=%s, u0 in or2.references=%s "
                "(expected reference or2, False, True)"
                % (what, u0.reference.name if u0.reference else None, after[1][0], after[1][1])
            )
        vetoer.active = False

        # 3. and the API keeps working afterwards
        u0.reference = None
        assert observer.seen.pop()["listed_in_old"], (
            "C19 violated: removal of the reference was announced after u0 had been dropped "
            "from or2.references"
        )
        assert u0.reference is None and u0 not in or2.references and len(cable.wires[0].pins) == 0
    finally:
        vetoer.deregister_all_listeners()
        observer.deregister_all_listeners()
    print("OK: reference changes are announced before any of their effects")
    return 0


if __name__ == "__main__":
    try:
        sys.exit(main())
    except AssertionError as e:
        print("FAIL:", e)
        sys.exit(1)
