"""C19 demo 1: a listener that merely replays the announcements must hold an exact mirror of the
connections, also when a connection is dropped implicitly because the pin behind it is removed
from its port (Port.remove_pin / Port.remove_pins_from on a port whose definition is instantiated
and whose outer pins are wired up).

exit status 0: every implicit disconnect was announced (wire_disconnect_pin) before it happened
exit status 1: a connection disappeared from the netlist without any announcement
"""
import sys

import spydrnet as sdn
from spydrnet.callback.callback_listener import CallbackListener


def pin_key(pin):
    """identify a pin the way an announcement identifies it"""
    if isinstance(pin, sdn.OuterPin):
        return ("outer", id(pin.instance), id(pin.inner_pin))
    return ("inner", id(pin))


class ConnectionMirror(CallbackListener):
    """replays wire_connect_pin / wire_disconnect_pin and nothing else"""

    def __init__(self):
        self.connections = dict()  # id(wire) -> set of pin keys
        self.log = list()
        super().__init__()

    def wire_connect_pin(self, wire, pin):
        self.log.append(("connect", id(wire), pin_key(pin)))
        self.connections.setdefault(id(wire), set()).add(pin_key(pin))

    def wire_disconnect_pin(self, wire, pin):
        self.log.append(("disconnect", id(wire), pin_key(pin)))
        # an outer pin may be announced twice (proxy + canonical pin): replay is idempotent
        self.connections.setdefault(id(wire), set()).discard(pin_key(pin))


def actual_connections(wires):
    return {id(w): set(pin_key(p) for p in w.pins) for w in wires}


def check(mirror, wires, what):
    actual = actual_connections(wires)
    mirrored = {id(w): mirror.connections.get(id(w), set()) for w in wires}
    assert mirrored == actual, (
        "C19 violated after %s: the listener's replayed mirror of the connections differs from "
        "the netlist.\n  netlist : %r\n  mirror  : %r\n  (a connection was dropped without a "
        "wire_disconnect_pin announcement)" % (what, actual, mirrored)
    )


def build():
    netlist = sdn.Netlist(name="n")
    lib = netlist.create_library(name="work")
    leaf = lib.create_definition(name="leaf")
    port = leaf.create_port(name="A", pins=3)
    top = lib.create_definition(name="top")
    u0 = top.create_child(name="u0", reference=leaf)
    u1 = top.create_child(name="u1", reference=leaf)
    cable = top.create_cable(name="bus", wires=3)
    for wire, inner in zip(cable.wires, port.pins):
        wire.connect_pin(u0.pins[inner])
        wire.connect_pin(u1.pins[inner])
    return netlist, port, list(cable.wires), (u0, u1)


def main():
    mirror = ConnectionMirror()
    try:
        netlist, port, wires, instances = build()
        check(mirror, wires, "building the design")

        # single variant: the outer pins of u0 and u1 on wire 1 go away with the inner pin
        victim = port.pins[1]
        port.remove_pin(victim)
        assert len(wires[1].pins) == 0 and all(victim not in u.pins for u in instances)
        check(mirror, wires, "Port.remove_pin on an instantiated, wired-up port")

        # bulk variant
        port.remove_pins_from(list(port.pins))
        assert all(len(w.pins) == 0 for w in wires)
        check(mirror, wires, "Port.remove_pins_from on an instantiated, wired-up port")
    finally:
        mirror.deregister_all_listeners()
    print("OK: every implicit disconnect was announced before it took effect")
    return 0


if __name__ == "__main__":
    try:
        sys.exit(main())
    except AssertionError as e:
        print("FAIL:", e)
        sys.exit(1)
