"""C05 demo 2: the design construct selects the top cell.

Three libraries.  "work" declares the cell "core" (the real top, it instantiates
prims.buf1).  A LATER library "extras" also declares a cell called "core" (legal:
cell names are scoped to their library) plus a cell "wrapper" that uses it through
an explicit libraryRef.  The design construct says
    (design demo (cellRef core (libraryRef work)))
so the top cell must be the cell "core" OF LIBRARY "work".
"""
import os
import sys
import tempfile

sys.path.insert(0, os.getcwd())
import spydrnet as sdn

EDIF = """(edif demo
  (edifVersion 2 0 0)
  (edifLevel 0)
  (keywordMap (keywordLevel 0))
  (library prims
    (edifLevel 0)
    (technology (numberDefinition))
    (cell buf1 (cellType GENERIC)
      (view netlist (viewType NETLIST)
        (interface
          (port a (direction INPUT))
          (port y (direction OUTPUT))
        )
      )
    )
  )
  (library work
    (edifLevel 0)
    (technology (numberDefinition))
    (cell core (cellType GENERIC)
      (view netlist (viewType NETLIST)
        (interface
          (port din (direction INPUT))
          (port dout (direction OUTPUT))
        )
        (contents
          (instance u0 (viewRef netlist (cellRef buf1 (libraryRef prims))))
          (net n_in (joined (portRef din) (portRef a (instanceRef u0))))
          (net n_out (joined (portRef dout) (portRef y (instanceRef u0))))
        )
      )
    )
  )
  (library extras
    (edifLevel 0)
    (technology (numberDefinition))
    (cell core (cellType GENERIC)
      (view netlist (viewType NETLIST)
        (interface
          (port clk (direction INPUT))
        )
      )
    )
    (cell wrapper (cellType GENERIC)
      (view netlist (viewType NETLIST)
        (interface
          (port clk (direction INPUT))
        )
        (contents
          (instance c0 (viewRef netlist (cellRef core (libraryRef extras))))
          (net clk (joined (portRef clk) (portRef clk (instanceRef c0))))
        )
      )
    )
  )
  (design demo (cellRef core (libraryRef work)))
)
"""


def main():
    with tempfile.TemporaryDirectory() as tmp:
        path = os.path.join(tmp, "demo.edf")
        with open(path, "w") as fh:
            fh.write(EDIF)
        netlist = sdn.parse(path)

    assert [lib.name for lib in netlist.libraries] == ["prims", "work", "extras"]
    prims, work, extras = netlist.libraries
    buf1 = next(prims.get_definitions("buf1"))
    top_cell = next(work.get_definitions("core"))
    other_core = next(extras.get_definitions("core"))
    wrapper = next(extras.get_definitions("wrapper"))
    assert top_cell is not other_core

    # instance cellRef/libraryRef targets
    u0 = next(top_cell.get_instances("u0"))
    assert u0.reference is buf1, "instance u0 must reference cell buf1 of library prims"
    c0 = next(wrapper.get_instances("c0"))
    assert c0.reference is other_core, "instance c0 must reference cell core of library extras"

    # the design construct selects the top cell
    top = netlist.top_instance
    assert top is not None, "design construct must create the top instance"
    assert top.reference.library is work, (
        "design says (cellRef core (libraryRef work)) but the top cell was taken from library %r"
        % top.reference.library.name
    )
    assert top.reference is top_cell, "top cell must be cell 'core' of library 'work'"
    assert [p.name for p in top.reference.ports] == ["din", "dout"], (
        "top cell ports must be din/dout, got %r" % [p.name for p in top.reference.ports]
    )
    assert len(top.reference.children) == 1, "top cell must contain instance u0"
    print("OK: design construct selected cell 'core' of library 'work'")


if __name__ == "__main__":
    main()
