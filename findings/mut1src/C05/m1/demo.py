"""C05 demo 1: bit nets name[i] / id_i_ are merged into one cable with bit i at
position i - base, whatever order they appear in and whichever bits are missing.

The netlist below declares bits 6, 3 and 1 of bus net "d" (in that, descending,
order with holes).  Each bit is joined to exactly one pin of the 8 bit top port
"p" (bit i of d <-> member i of p), so the position of every wire is observable.
"""
import os
import sys
import tempfile

sys.path.insert(0, os.getcwd())
import spydrnet as sdn

EDIF = """(edif demo
  (edifVersion 2 0 0)
  (edifLevel 0)
  (keywordMap (keywordLevel 0))
  (library work
    (edifLevel 0)
    (technology (numberDefinition))
    (cell top (cellType GENERIC)
      (view netlist (viewType NETLIST)
        (interface
          (port (array (rename p "p[7:0]") 8) (direction INPUT))
        )
        (contents
          (net (rename d_6_ "d[6]") (joined (portRef (member p 6))))
          (net (rename d_3_ "d[3]") (joined (portRef (member p 3))))
          (net (rename d_1_ "d[1]") (joined (portRef (member p 1))))
        )
      )
    )
  )
  (design top (cellRef top (libraryRef work)))
)
"""


def main():
    with tempfile.TemporaryDirectory() as tmp:
        path = os.path.join(tmp, "demo.edf")
        with open(path, "w") as fh:
            fh.write(EDIF)
        netlist = sdn.parse(path)

    top = netlist.top_instance.reference
    port = next(top.get_ports("p", key="EDIF.identifier"))
    cables = list(top.cables)
    assert len(cables) == 1, "bit nets d[6], d[3], d[1] must merge into ONE cable, got %r" % (
        [c.name for c in cables],
    )
    cable = cables[0]
    assert cable.name == "d", "merged cable must be called 'd', got %r" % cable.name
    base = cable.lower_index
    assert base == 1, "lowest declared bit is 1, cable.lower_index is %r" % base
    assert len(cable.wires) == 6, "cable must span bits 1..6 (6 wires), got %d" % len(cable.wires)

    for bit in range(1, 7):
        wire = cable.wires[bit - base]
        pins = list(wire.pins)
        if bit in (6, 3, 1):
            expected = [port.pins[bit]]
            assert pins == expected, (
                "bit %d of net d must sit at position %d (= i - base) and be joined to p member %d; "
                "wire at that position has pins %r"
                % (bit, bit - base, bit, [port.pins.index(p) for p in pins])
            )
        else:
            assert pins == [], "bit %d of d is not declared, its wire must be unconnected, got %r" % (
                bit,
                [port.pins.index(p) for p in pins],
            )
    # well-formedness of the merged cable
    for wire in cable.wires:
        assert wire.cable is cable
        for pin in wire.pins:
            assert pin.wire is wire
    print("OK: d[6], d[3], d[1] merged with bit i at position i - base")


if __name__ == "__main__":
    main()
