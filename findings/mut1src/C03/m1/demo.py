"""C03 demo 1: EDIF write-then-read must return the same netlist.

The netlist below is built through the public API only.  Every element is
named, no name contains a double quote or a newline, ports and cables are
non-empty, libraries are acyclic.  The only unusual thing about it is that two
sibling instances (and two sibling ports) have names that are *different* but
turn into EDIF identifiers that differ only by letter case once the characters
EDIF does not allow are replaced by '_':

    "Data[0]" -> Data_0_          "data(0)" -> data_0_
    "Sel.x"   -> Sel_x            "sel_x"   -> sel_x

EDIF identifiers are case-insensitive, so the composer has to give the second
one a fresh identifier (data_0__sdn_1_) and keep the real name in a (rename ..).

Run as:  cd <checkout> && /venv/bin/python demo.py
Exit status 0 = property holds, non-zero = property violated.
"""
import os
import sys
import tempfile
import traceback

import spydrnet as sdn


def build():
    nl = sdn.Netlist(name="demo")
    prims = nl.create_library(name="prims")
    work = nl.create_library(name="work")

    buf = prims.create_definition(name="BUF")
    b_i = buf.create_port(name="I", direction=sdn.IN)
    b_i.create_pins(1)
    b_o = buf.create_port(name="O", direction=sdn.OUT)
    b_o.create_pins(1)

    top = work.create_definition(name="top")
    p_a = top.create_port(name="Sel.x", direction=sdn.IN)
    p_a.create_pins(1)
    p_b = top.create_port(name="sel_x", direction=sdn.IN)
    p_b.create_pins(1)
    p_q = top.create_port(name="q", direction=sdn.OUT)
    p_q.create_pins(2)

    u0 = top.create_child(name="Data[0]", reference=buf)
    u1 = top.create_child(name="data(0)", reference=buf)

    n_a = top.create_cable(name="na")
    n_a.create_wires(1)
    n_a.wires[0].connect_pin(p_a.pins[0])
    n_a.wires[0].connect_pin(u0.pins[b_i.pins[0]])

    n_b = top.create_cable(name="nb")
    n_b.create_wires(1)
    n_b.wires[0].connect_pin(p_b.pins[0])
    n_b.wires[0].connect_pin(u1.pins[b_i.pins[0]])

    n_q = top.create_cable(name="q")
    n_q.create_wires(2)
    n_q.wires[0].connect_pin(u0.pins[b_o.pins[0]])
    n_q.wires[0].connect_pin(p_q.pins[0])
    n_q.wires[1].connect_pin(u1.pins[b_o.pins[0]])
    n_q.wires[1].connect_pin(p_q.pins[1])

    ti = sdn.Instance(name="top")
    ti.reference = top
    nl.top_instance = ti
    return nl


def describe_pin(pin):
    if isinstance(pin, sdn.OuterPin):
        port = pin.inner_pin.port
        return ("instance-pin", pin.instance.name, port.name, port.pins.index(pin.inner_pin))
    return ("port-pin", pin.port.name, pin.port.pins.index(pin))


def snapshot(nl):
    """Everything the property talks about, as plain comparable data."""
    libs = {}
    for lib in nl.libraries:
        cells = {}
        for d in lib.definitions:
            cells[d.name] = {
                "ports": [
                    (p.name, p.direction.name, len(p.pins), p.is_array) for p in d.ports
                ],
                "instances": {
                    i.name: (
                        i.reference.name,
                        i.reference.library.name,
                        repr(i.data.get("EDIF.properties")),
                    )
                    for i in d.children
                },
                "nets": {
                    c.name: (
                        len(c.wires),
                        c.lower_index,
                        [[describe_pin(p) for p in w.pins] for w in c.wires],
                    )
                    for c in d.cables
                },
            }
        libs[lib.name] = cells
    t = nl.top_instance
    return {
        "libraries": libs,
        "top": (t.name, t.reference.name, t.reference.library.name),
    }


def main():
    nl = build()
    before = snapshot(nl)
    with tempfile.TemporaryDirectory() as tmp:
        path = os.path.join(tmp, "demo.edf")
        sdn.compose(nl, path)
        try:
            back = sdn.parse(path)
        except Exception:
            traceback.print_exc()
            print(open(path).read())
            raise AssertionError(
                "C03 violated: the EDIF file written by compose() is NOT accepted "
                "by the EDIF reader (see the traceback and the file above)"
            )
    after = snapshot(back)
    for lib in before["libraries"]:
        assert lib in after["libraries"], "C03 violated: library %r lost" % lib
        for cell, want in before["libraries"][lib].items():
            got = after["libraries"][lib].get(cell)
            assert got is not None, "C03 violated: cell %s.%s lost" % (lib, cell)
            for what in ("ports", "instances", "nets"):
                assert got[what] == want[what], (
                    "C03 violated: %s of cell %s.%s differ after write-then-read\n"
                    "  written: %r\n  read   : %r" % (what, lib, cell, want[what], got[what])
                )
    assert after == before, "C03 violated: netlists differ\n%r\n%r" % (before, after)
    print("OK: parse(compose(netlist)) == netlist")
    return 0


if __name__ == "__main__":
    sys.exit(main())
