"""C03 demo 2: EDIF write-then-read must return the same netlist, for ANY
library / cell declaration order and any hierarchy depth.

The netlist is built through the public API only; every element is named,
library dependencies are acyclic.  What is special about it:

  * the cells of library "work" are declared TOP FIRST (users before the cells
    they instantiate), so the composer really has to reorder them, and
  * the hierarchy is not a tree: several cells are shared.  Each "cluster" cell
    r<k> instantiates the cells m<k>_0 .. m<k>_4 directly, and m<k>_i also
    instantiates every m<k>_j with j > i (plus a BUF from library "prims").

EDIF requires a cell to be declared before it is referenced, so the composer
must emit m<k>_4 before m<k>_3 before ... before r<k> before top.

Run as:  cd <checkout> && /venv/bin/python demo.py
Exit status 0 = property holds, non-zero = property violated.
"""
import os
import sys
import tempfile
import traceback

import spydrnet as sdn

CLUSTERS = 4
WIDTH = 5


def build():
    nl = sdn.Netlist(name="demo")
    # "work" is declared before the library it depends on, too.
    work = nl.create_library(name="work")
    prims = nl.create_library(name="prims")

    buf = prims.create_definition(name="BUF")
    b_i = buf.create_port(name="I", direction=sdn.IN)
    b_i.create_pins(1)
    b_o = buf.create_port(name="O", direction=sdn.OUT)
    b_o.create_pins(1)

    top = work.create_definition(name="top")
    t_in = top.create_port(name="din", direction=sdn.IN)
    t_in.create_pins(1)
    din = top.create_cable(name="din")
    din.create_wires(1)
    din.wires[0].connect_pin(t_in.pins[0])

    for k in range(CLUSTERS):
        root = work.create_definition(name="r%d" % k)
        r_in = root.create_port(name="a", direction=sdn.IN)
        r_in.create_pins(1)
        u = top.create_child(name="u_r%d" % k, reference=root)
        din.wires[0].connect_pin(u.pins[r_in.pins[0]])

        mids = []
        ports = []
        # alternate the creation order so that nothing depends on how Python
        # happens to lay the objects out in memory
        indices = list(range(WIDTH)) if k % 2 == 0 else list(reversed(range(WIDTH)))
        created = {}
        for j in indices:
            m = work.create_definition(name="m%d_%d" % (k, j))
            p = m.create_port(name="a", direction=sdn.IN)
            p.create_pins(1)
            created[j] = (m, p)
        for j in range(WIDTH):
            mids.append(created[j][0])
            ports.append(created[j][1])

        r_net = root.create_cable(name="a")
        r_net.create_wires(1)
        r_net.wires[0].connect_pin(r_in.pins[0])
        for j in range(WIDTH):
            inst = root.create_child(name="u_m%d" % j, reference=mids[j])
            r_net.wires[0].connect_pin(inst.pins[ports[j].pins[0]])

        for i in range(WIDTH):
            net = mids[i].create_cable(name="a")
            net.create_wires(1)
            net.wires[0].connect_pin(ports[i].pins[0])
            b = mids[i].create_child(name="u_buf", reference=buf)
            net.wires[0].connect_pin(b.pins[b_i.pins[0]])
            for j in range(i + 1, WIDTH):
                inst = mids[i].create_child(name="u_m%d" % j, reference=mids[j])
                net.wires[0].connect_pin(inst.pins[ports[j].pins[0]])

    ti = sdn.Instance(name="top")
    ti.reference = top
    nl.top_instance = ti
    return nl


def describe_pin(pin):
    if isinstance(pin, sdn.OuterPin):
        port = pin.inner_pin.port
        return ("instance-pin", pin.instance.name, port.name, port.pins.index(pin.inner_pin))
    return ("port-pin", pin.port.name, pin.port.pins.index(pin))


def snapshot(nl):
    """Everything the property talks about, as plain comparable data."""
    libs = {}
    for lib in nl.libraries:
        cells = {}
        for d in lib.definitions:
            cells[d.name] = {
                "ports": [
                    (p.name, p.direction.name, len(p.pins), p.is_array) for p in d.ports
                ],
                "instances": {
                    i.name: (
                        i.reference.name,
                        i.reference.library.name,
                        repr(i.data.get("EDIF.properties")),
                    )
                    for i in d.children
                },
                "nets": {
                    c.name: (
                        len(c.wires),
                        c.lower_index,
                        [[describe_pin(p) for p in w.pins] for w in c.wires],
                    )
                    for c in d.cables
                },
            }
        libs[lib.name] = cells
    t = nl.top_instance
    return {
        "libraries": libs,
        "top": (t.name, t.reference.name, t.reference.library.name),
    }


def main():
    nl = build()
    before = snapshot(nl)
    with tempfile.TemporaryDirectory() as tmp:
        path = os.path.join(tmp, "demo.edf")
        sdn.compose(nl, path)
        written_order = [d.name for d in next(nl.get_libraries("work")).definitions]
        try:
            back = sdn.parse(path)
        except Exception:
            traceback.print_exc()
            print("cells of library 'work' were written in this order:")
            print("  " + " ".join(written_order))
            raise AssertionError(
                "C03 violated: the EDIF file written by compose() is NOT accepted by "
                "the EDIF reader - a cell is referenced before it is declared "
                "(see the traceback and the cell order above)"
            )
    after = snapshot(back)
    for lib in before["libraries"]:
        assert lib in after["libraries"], "C03 violated: library %r lost" % lib
        for cell, want in before["libraries"][lib].items():
            got = after["libraries"][lib].get(cell)
            assert got is not None, "C03 violated: cell %s.%s lost" % (lib, cell)
            for what in ("ports", "instances", "nets"):
                assert got[what] == want[what], (
                    "C03 violated: %s of cell %s.%s differ after write-then-read\n"
                    "  written: %r\n  read   : %r" % (what, lib, cell, want[what], got[what])
                )
    assert after == before, "C03 violated: netlists differ\n%r\n%r" % (before, after)
    print("OK: parse(compose(netlist)) == netlist")
    return 0


if __name__ == "__main__":
    sys.exit(main())
