"""C14 demo 2: a refused re-pointing of Instance.reference (shape mismatch) must change nothing.

Scenario: definition A has ports (2 pins, 2 pins); definition B has ports (2 pins, 3 pins): same
number of ports, first port of equal width, second port of different width.  `inst.reference = B`
is refused for an instance of A.  After the refusal the instance must still present exactly A's
pins (same order, same outer-pin objects, same wires), and the reference sets of A and B and all
connections must be as before.

Run as:  cd <checkout> && /venv/bin/python demo.py
"""
import sys

import spydrnet as sdn


def snapshot(netlist, instances):
    snap = {}
    for lib in netlist.libraries:
        snap[("defs", lib.name)] = [d.name for d in lib.definitions]
        for d in lib.definitions:
            snap[("ports", d.name)] = [(p.name, [id(x) for x in p.pins]) for p in d.ports]
            snap[("cables", d.name)] = [
                (c.name, [[id(p) for p in w.pins] for w in c.wires]) for c in d.cables
            ]
            snap[("children", d.name)] = [c.name for c in d.children]
            snap[("references", d.name)] = sorted(r.name for r in d.references)
    for inst in instances:
        snap[("reference", inst.name)] = inst.reference.name if inst.reference else None
        snap[("parent", inst.name)] = inst.parent.name if inst.parent else None
        # which inner pins the instance presents, in order, and through which outer pin / wire
        # (iterating instance.pins yields the outer pins; instance.pins.keys() the inner pins)
        snap[("pins", inst.name)] = [
            (id(ip), id(inst.pins[ip]), id(inst.pins[ip].inner_pin),
             id(inst.pins[ip].instance), id(inst.pins[ip].wire))
            for ip in inst.pins.keys()
        ]
        snap[("outer-pins", inst.name)] = [
            (id(op), id(op.inner_pin), id(op.wire)) for op in inst.pins
        ]
        snap[("pin-ports", inst.name)] = [
            (ip.port.definition.name, ip.port.name, ip.port.pins.index(ip))
            for ip in inst.pins.keys()
        ]
    return snap


def check_unchanged(what, before, after):
    if before == after:
        return
    for k in before:
        if before[k] != after.get(k):
            print("FAIL: C14 violated - state changed by the refused call %s" % what)
            print("   item   :", k)
            print("   before :", before[k])
            print("   after  :", after.get(k))
    sys.exit(1)


def main():
    netlist = sdn.Netlist(name="design")
    lib = netlist.create_library(name="work")

    A = lib.create_definition(name="A")
    A.create_port(name="x", pins=2, direction=sdn.IN)
    A.create_port(name="y", pins=2, direction=sdn.OUT)

    B = lib.create_definition(name="B")
    B.create_port(name="x", pins=2, direction=sdn.IN)
    B.create_port(name="y", pins=3, direction=sdn.OUT)  # differs from A only here

    top = lib.create_definition(name="top")
    u = top.create_child(name="u", reference=A)
    v = top.create_child(name="v", reference=B)
    bus = top.create_cable(name="bus", wires=4)
    for wire, inner in zip(bus.wires, [p for port in A.ports for p in port.pins]):
        wire.connect_pin(u.pins[inner])
    netlist.top_instance = top

    before = snapshot(netlist, [u, v])

    for attempt in (1, 2):  # singly and repeatedly
        try:
            u.reference = B
        except AssertionError:
            pass
        else:
            print("FAIL: re-pointing to a definition of a different shape was not refused")
            sys.exit(2)
        check_unchanged("u.reference = B (attempt %d)" % attempt, before,
                        snapshot(netlist, [u, v]))
        # the instance must still answer for every pin of its (unchanged) reference
        for port in A.ports:
            for inner in port.pins:
                if inner not in u.pins or u.pins[inner].inner_pin is not inner:
                    print("FAIL: C14 violated - after the refused call instance u no longer "
                          "presents pin %s[%d] of its reference A"
                          % (port.name, port.pins.index(inner)))
                    sys.exit(1)

    # the other direction (B -> A) is refused as well and must be just as harmless
    try:
        v.reference = A
    except AssertionError:
        pass
    else:
        print("FAIL: re-pointing to a definition of a different shape was not refused")
        sys.exit(2)
    check_unchanged("v.reference = A", before, snapshot(netlist, [u, v]))

    print("OK: refused reference re-pointing left pins, connections and reference sets unchanged")


if __name__ == "__main__":
    main()
