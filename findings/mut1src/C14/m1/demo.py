"""C14 demo 1: a refused add (naming rules) must leave the name lookups exactly as they were.

Scenario: a netlist under the EDIF naming policy (what the EDIF parser produces), where both
".NAME" and "EDIF.identifier" are indexed.  An element whose EDIF.identifier is fresh but whose
name collides with a sibling is refused - by the compound constructor (create_* with name and
properties) and by the plain add_* call.  Nothing of the refused element may stay registered.

Run as:  cd <checkout> && /venv/bin/python demo.py
"""
import sys

import spydrnet as sdn


def lookups(parent, getter, keys_values):
    """answers of the public name lookups on parent"""
    out = {}
    for key, value in keys_values:
        out[(key, value)] = [id(x) for x in getter(parent, value, key=key)]
    return out


def snapshot(netlist, probes):
    snap = {}
    snap["libraries"] = [id(x) for x in netlist.libraries]
    for lib in netlist.libraries:
        snap[("defs", id(lib))] = [(id(d), dict(d.data)) for d in lib.definitions]
        snap[("lookup-def", id(lib))] = lookups(lib, sdn.get_definitions, probes)
        for d in lib.definitions:
            snap[("ports", id(d))] = [(id(p), dict(p.data)) for p in d.ports]
            snap[("cables", id(d))] = [(id(c), dict(c.data)) for c in d.cables]
            snap[("children", id(d))] = [(id(c), dict(c.data)) for c in d.children]
            snap[("refs", id(d))] = sorted(id(r) for r in d.references)
            snap[("lookup-port", id(d))] = lookups(d, sdn.get_ports, probes)
            snap[("lookup-cable", id(d))] = lookups(d, sdn.get_cables, probes)
            snap[("lookup-inst", id(d))] = lookups(d, sdn.get_instances, probes)
    return snap


def expect_refused(what, func, *args, **kwargs):
    try:
        func(*args, **kwargs)
    except (ValueError, AssertionError):
        return
    print("FAIL: %s was expected to be refused but was accepted" % what)
    sys.exit(2)


def check_unchanged(what, before, after):
    if before == after:
        return
    for k in before:
        if before[k] != after.get(k):
            print("FAIL: C14 violated - state changed by the refused call %s" % what)
            print("   item   :", k)
            print("   before :", before[k])
            print("   after  :", after.get(k))
    sys.exit(1)


def main():
    netlist = sdn.Netlist(name="design")
    netlist[".NS"] = "EDIF"  # the policy the EDIF parser uses
    lib = netlist.create_library(name="work", properties={"EDIF.identifier": "work"})
    leaf = lib.create_definition(name="leaf", properties={"EDIF.identifier": "leaf"})
    adder = lib.create_definition(name="adder", properties={"EDIF.identifier": "adder"})
    adder.create_port(name="a", properties={"EDIF.identifier": "a"}, pins=1)
    adder.create_cable(name="n", properties={"EDIF.identifier": "n"}, wires=1)
    adder.create_child(name="u0", properties={"EDIF.identifier": "u0"}, reference=leaf)
    assert lib[".NS"] == "EDIF" and adder[".NS"] == "EDIF"

    probes = [
        (".NAME", "adder"), (".NAME", "a"), (".NAME", "n"), (".NAME", "u0"),
        ("EDIF.identifier", "adder"), ("EDIF.identifier", "adder_v2"),
        ("EDIF.identifier", "a_v2"), ("EDIF.identifier", "n_v2"),
        ("EDIF.identifier", "u0_v2"),
    ]
    before = snapshot(netlist, probes)

    # every call below is refused because of the colliding NAME (the EDIF.identifier is fresh);
    # each is issued twice ("singly and repeatedly")
    for attempt in (1, 2):
        tag = " (attempt %d)" % attempt

        expect_refused(
            "create_definition(name dup)", lib.create_definition,
            name="adder", properties={"EDIF.identifier": "adder_v2"},
        )
        check_unchanged("Library.create_definition(name='adder', ...)" + tag, before,
                        snapshot(netlist, probes))

        orphan = sdn.Definition(name="adder", properties={"EDIF.identifier": "adder_v2"})
        expect_refused("add_definition(name dup)", lib.add_definition, orphan)
        check_unchanged("Library.add_definition(orphan named 'adder')" + tag, before,
                        snapshot(netlist, probes))
        assert orphan.library is None

        expect_refused(
            "create_port(name dup)", adder.create_port,
            name="a", properties={"EDIF.identifier": "a_v2"}, pins=2,
        )
        check_unchanged("Definition.create_port(name='a', ...)" + tag, before,
                        snapshot(netlist, probes))

        expect_refused(
            "create_cable(name dup)", adder.create_cable,
            name="n", properties={"EDIF.identifier": "n_v2"}, wires=2,
        )
        check_unchanged("Definition.create_cable(name='n', ...)" + tag, before,
                        snapshot(netlist, probes))

        expect_refused(
            "create_child(name dup)", adder.create_child,
            name="u0", properties={"EDIF.identifier": "u0_v2"}, reference=leaf,
        )
        check_unchanged("Definition.create_child(name='u0', ...)" + tag, before,
                        snapshot(netlist, probes))

    # consequence check: the identifier of the refused element must still be free
    try:
        lib.create_definition(name="adder_v2", properties={"EDIF.identifier": "adder_v2"})
    except ValueError as e:
        print("FAIL: C14 violated - identifier of a refused definition is still registered:", e)
        sys.exit(1)
    print("OK: refused adds left containment, data, reference sets and name lookups unchanged")


if __name__ == "__main__":
    main()
