"""C17 demo 1: sibling names that differ only in letter case and contain a
character that is not legal in EDIF must still be exported with identifiers
that differ *ignoring case*, in every namespace scope (libraries, cells,
ports, nets, instances), and the re-read netlist must show the original names.

Exit status 0 = property holds, non-zero (AssertionError) = property violated.
"""
import os
import re
import sys
import tempfile

import spydrnet as sdn

LEGAL = re.compile(r"^(&[0-9A-Za-z_]+|[A-Za-z][0-9A-Za-z_]*)$")

# two siblings whose names differ only in letter case; '/' is not legal in EDIF
PAIR = ["Data/Reg", "data/reg"]


def build():
    netlist = sdn.Netlist(name="demo")
    prim = netlist.create_library(name="prims")
    leaf = prim.create_definition(name="LEAF")
    leaf.create_port(name="I", direction=sdn.IN).create_pins(1)

    libs = [netlist.create_library(name=n) for n in PAIR]
    work = libs[0]
    # cells that differ only in case (same library scope)
    defs = [work.create_definition(name=n) for n in PAIR]
    top = defs[0]
    for n in PAIR:  # ports
        top.create_port(name=n, direction=sdn.IN).create_pins(1)
    for n in PAIR:  # instances
        top.create_child(name=n, reference=leaf)
    for n, port, child in zip(PAIR, top.ports, top.children):  # nets
        cable = top.create_cable(name=n)
        wire = cable.create_wire()
        wire.connect_pin(port.pins[0])
        wire.connect_pin(child.pins[leaf.ports[0].pins[0]])
    netlist.top_instance = sdn.Instance(name="top_inst")
    netlist.top_instance.reference = top
    return netlist


def scopes(netlist):
    """yield (scope description, list of sibling elements)"""
    yield "libraries of the netlist", list(netlist.libraries)
    for lib in netlist.libraries:
        yield "cells of library %r" % lib.name, list(lib.definitions)
        for d in lib.definitions:
            yield "ports of cell %r" % d.name, list(d.ports)
            yield "nets of cell %r" % d.name, list(d.cables)
            yield "instances of cell %r" % d.name, list(d.children)


def check_scopes(netlist, where):
    for desc, siblings in scopes(netlist):
        seen = {}
        for el in siblings:
            ident = el["EDIF.identifier"]
            assert len(ident) <= 255 + ident.startswith("&") and LEGAL.match(ident), (
                "%s: %s: identifier %r (len %d) of %r is not a legal EDIF identifier"
                % (where, desc, ident, len(ident), el.name)
            )
            key = ident.lower()
            assert key not in seen, (
                "%s: %s: siblings %r and %r got identifiers %r and %r, which are "
                "equal ignoring case (EDIF identifiers are case-insensitive)"
                % (where, desc, seen.get(key), el.name,
                   [s["EDIF.identifier"] for s in siblings if s.name == seen.get(key)][0],
                   ident)
            )
            seen[key] = el.name


def names(netlist):
    out = {}
    for desc, siblings in scopes(netlist):
        out[desc] = sorted(el.name for el in siblings)
    return out


def main():
    netlist = build()
    before = names(netlist)
    with tempfile.TemporaryDirectory() as tmp:
        path = os.path.join(tmp, "demo.edf")
        sdn.compose(netlist, path)
        check_scopes(netlist, "after export")
        back = sdn.parse(path)
    check_scopes(back, "after re-reading the exported file")
    after = names(back)
    assert before == after, (
        "re-read netlist does not show the original names:\n  wrote %r\n  read  %r"
        % (before, after)
    )
    print("OK: all identifiers legal and case-insensitively unique; names round-trip")
    return 0


if __name__ == "__main__":
    sys.exit(main())
