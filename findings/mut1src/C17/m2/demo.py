"""C17 demo 2: many siblings whose (very long, > 255 character) names collapse
onto the same truncated identifier must each still get an identifier that the
EDIF naming rules accept (at most 255 characters, [A-Za-z][A-Za-z0-9_]* or
&-prefixed) and that is unique ignoring case, in every namespace scope; the
re-read netlist must show the original names.  The interesting moment is when
the uniquifying counter of the x_sdn_N_ suffix gains a digit (9 -> 10).

Exit status 0 = property holds, non-zero (AssertionError) = property violated.
"""
import os
import re
import sys
import tempfile

import spydrnet as sdn

LEGAL = re.compile(r"^(&[0-9A-Za-z_]+|[A-Za-z][0-9A-Za-z_]*)$")
MAX_LEN = 255

# 12 sibling names of length 262..263 that share their first 260 characters
# (think: flattened hierarchical names u_core_u_core_..._regN)
STEM = ("u_core_" * 40)[:260]
LONG = [STEM + "_r" + str(i) for i in range(12)]
# a sibling that already carries a name of the form x_sdn_N_ (exactly 255 long)
PRE = STEM[:248].lower() + "_sdn_9_"
NAMES = LONG + [PRE]


def build():
    netlist = sdn.Netlist(name="demo")
    prim = netlist.create_library(name="prims")
    leaf = prim.create_definition(name="LEAF")
    leaf.create_port(name="I", direction=sdn.IN).create_pins(1)

    libs = [netlist.create_library(name=n) for n in NAMES]
    work = libs[0]
    defs = [work.create_definition(name=n) for n in NAMES]
    top = defs[0]
    for n in NAMES:
        top.create_port(name=n, direction=sdn.IN).create_pins(1)
    for n in NAMES:
        top.create_child(name=n, reference=leaf)
    for n, port, child in zip(NAMES, top.ports, top.children):
        wire = top.create_cable(name=n).create_wire()
        wire.connect_pin(port.pins[0])
        wire.connect_pin(child.pins[leaf.ports[0].pins[0]])
    netlist.top_instance = sdn.Instance(name="top_inst")
    netlist.top_instance.reference = top
    return netlist


def scopes(netlist):
    yield "libraries of the netlist", list(netlist.libraries)
    for lib in netlist.libraries:
        yield "cells of library %.20r..." % lib.name, list(lib.definitions)
        for d in lib.definitions:
            yield "ports of cell %.20r..." % d.name, list(d.ports)
            yield "nets of cell %.20r..." % d.name, list(d.cables)
            yield "instances of cell %.20r..." % d.name, list(d.children)


def short(s):
    return s if len(s) < 40 else "%s...%s" % (s[:12], s[-14:])


def check_scopes(netlist, where):
    for desc, siblings in scopes(netlist):
        seen = {}
        for el in siblings:
            ident = el["EDIF.identifier"]
            assert len(ident) <= MAX_LEN and LEGAL.match(ident), (
                "%s: %s: element named %r got identifier %r of length %d, which the "
                "EDIF naming rules do not accept (at most %d characters)"
                % (where, desc, short(el.name), short(ident), len(ident), MAX_LEN)
            )
            key = ident.lower()
            assert key not in seen, (
                "%s: %s: siblings %r and %r both got identifier %r (ignoring case)"
                % (where, desc, short(seen.get(key, "")), short(el.name), short(ident))
            )
            seen[key] = el.name


def names(netlist):
    return {desc: sorted(el.name for el in sib) for desc, sib in scopes(netlist)}


def main():
    netlist = build()
    before = names(netlist)
    with tempfile.TemporaryDirectory() as tmp:
        path = os.path.join(tmp, "demo.edf")
        sdn.compose(netlist, path)
        check_scopes(netlist, "after export")
        back = sdn.parse(path)
    check_scopes(back, "after re-reading the exported file")
    after = names(back)
    assert before == after, "re-read netlist does not show the original names"
    print("OK: all identifiers legal (<= 255 chars) and unique; names round-trip")
    return 0


if __name__ == "__main__":
    sys.exit(main())
