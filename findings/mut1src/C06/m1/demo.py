"""C06 demo 1: "the single root module of the design becomes the top", for any module order.

A four level design  root -> stage -> slice -> leaf  is written to structural Verilog in the
(legal) module order  leaf, root, stage, slice : the leaf comes first, the root second and the
two middle levels are used before they are declared.  Whatever the order of the modules in the
file, the only module that nobody instantiates (root) has to become the top of the netlist.
"""
import os
import sys
import tempfile

import spydrnet as sdn

MODULES = {
    "leaf": """module leaf (input i, output o);
endmodule
""",
    "root": """module root (input a, output y);
    stage u_stage (.a(a), .y(y));
endmodule
""",
    "stage": """module stage (input a, output y);
    slice u_slice (.a(a), .y(y));
endmodule
""",
    "slice": """module slice (input a, output y);
    leaf u_leaf (.i(a), .o(y));
endmodule
""",
}

# who instantiates whom in the abstract design (the reference the reader is checked against)
CHILDREN = {
    "root": {"u_stage": "stage"},
    "stage": {"u_slice": "slice"},
    "slice": {"u_leaf": "leaf"},
    "leaf": {},
}


def check(order):
    text = "\n".join(MODULES[m] for m in order)
    fd, path = tempfile.mkstemp(suffix=".v")
    try:
        with os.fdopen(fd, "w") as f:
            f.write(text)
        netlist = sdn.parse(path)
    finally:
        os.remove(path)

    # the hierarchy itself is what the source describes
    for def_name, kids in CHILDREN.items():
        definition = next(netlist.get_definitions(def_name))
        got = {c.name: c.reference.name for c in definition.children}
        assert got == kids, "module order %s: children of %s are %s, expected %s" % (
            order, def_name, got, kids)

    # the single root module of the design becomes the top
    roots = [d.name for lib in netlist.libraries for d in lib.definitions
             if d.name in MODULES and not any(r.parent is not None for r in d.references)]
    top = netlist.top_instance
    assert top is not None and top.reference is not None, "module order %s: no top" % (order,)
    assert top.parent is None, "top instance must not be a child of anything"
    assert roots == ["root"], "module order %s: uninstantiated modules are %s" % (order, roots)
    assert top.reference.name == "root", (
        "module order %s: the single root module of the design is 'root' (nothing instantiates "
        "it) but the reader made '%s' the top (top instance %s)"
        % (order, top.reference.name, top.name))
    assert top.name == "root_top", "top instance is named %s" % top.name
    assert netlist.name == "SDN_VERILOG_NETLIST_root", "netlist is named %s" % netlist.name


def main():
    orders = [
        ("root", "stage", "slice", "leaf"),
        ("leaf", "slice", "stage", "root"),
        ("leaf", "root", "slice", "stage"),
        ("slice", "leaf", "root", "stage"),
        ("leaf", "root", "stage", "slice"),
    ]
    for order in orders:
        check(order)
    print("OK: root is the top for every module order tried")


if __name__ == "__main__":
    try:
        main()
    except AssertionError as e:
        print("PROPERTY C06 VIOLATED: %s" % e)
        sys.exit(1)
