"""C06 demo 2: declared ports and positional port maps of a module that is used before its
declaration.

Abstract design: module `top` holds two instances of module `cell4`
    cell4 (input [1:0] a, input [1:0] b, input c, output [1:0] y)
  * u_named : named port map, written by the (independent) writer in an order different from the
              declaration order (.b, .a, .c, .y) - legal, named maps have no order
  * u_pos   : positional port map, i.e. expression number i goes to declared port number i
The property: cell4 becomes a definition with the declared ports (order/direction/width/base) and
every connection expression joins bit k of the expression, counted from its least significant
end, to bit k of the instance port - "for named and positional port maps alike" - also when
`top` comes before `cell4` in the file ("modules used before their declaration").
"""
import os
import sys
import tempfile

import spydrnet as sdn

IN, OUT = sdn.Port.Direction.IN, sdn.Port.Direction.OUT

# declared ports of cell4: name, direction, width (all based at 0)
CELL4_PORTS = [("a", IN, 2), ("b", IN, 2), ("c", IN, 1), ("y", OUT, 2)]

CELL4_ANSI = """module cell4 (input [1:0] a, input [1:0] b, input c, output [1:0] y);
endmodule
"""
CELL4_HEADER_ONLY = """module cell4 (a, b, c, y);
    input [1:0] a;
    input [1:0] b;
    input c;
    output [1:0] y;
endmodule
"""
TOP = """module top (input [3:0] d, input en, output [3:0] q);
    wire [5:2] n;
    // named map, deliberately not in declaration order
    cell4 u_named (.b({d[0], 1'b1}), .a(d[3:2]), .c(en), .y(n[3:2]));
    /* positional map: a, b, c, y */
    cell4 u_pos (n[3:2], {n[2], d[1]}, d[0], q[1:0]);
endmodule
"""

# expected nets, least significant bit first: port -> [(cable, bit index) ...]
EXPECTED = {
    "u_named": {
        "a": [("d", 2), ("d", 3)],
        "b": [("\\<const1>", 0), ("d", 0)],
        "c": [("en", 0)],
        "y": [("n", 2), ("n", 3)],
    },
    "u_pos": {
        "a": [("n", 2), ("n", 3)],
        "b": [("d", 1), ("n", 2)],
        "c": [("d", 0)],
        "y": [("q", 0), ("q", 1)],
    },
}


def bit_of(wire):
    if wire is None:
        return None
    cable = wire.cable
    return (cable.name, cable.lower_index + cable.wires.index(wire))


def check(label, text):
    fd, path = tempfile.mkstemp(suffix=".v")
    try:
        with os.fdopen(fd, "w") as f:
            f.write(text)
        netlist = sdn.parse(path)
    finally:
        os.remove(path)

    assert netlist.top_instance.reference.name == "top", "%s: top is %s" % (
        label, netlist.top_instance.reference.name)
    cell4 = next(netlist.get_definitions("cell4"))

    # each module becomes a definition with the declared ports (direction, width, base index)
    got = [(p.name, p.direction, len(p.pins)) for p in cell4.ports]
    errors = []
    if got != CELL4_PORTS:
        errors.append(
            "%s: cell4 does not have the declared ports in the declared order:\n   got      %s\n"
            "   declared %s" % (label, [g[0] for g in got], [e[0] for e in CELL4_PORTS]))
    assert all(p.lower_index == 0 for p in cell4.ports), "%s: port base index" % label

    # bit k of the expression is joined to bit k of the instance port
    top = netlist.top_instance.reference
    for inst_name, conns in EXPECTED.items():
        inst = next(top.get_instances(inst_name))
        assert inst.reference is cell4
        for port_name, bits in conns.items():
            port = next(cell4.get_ports(port_name))
            got_bits = [bit_of(inst.pins[pin].wire) for pin in port.pins]
            if got_bits != bits:
                errors.append(
                    "%s: instance %s, port %s: bit k of the connection expression is not joined "
                    "to bit k of the port\n   got      %s\n   expected %s"
                    % (label, inst_name, port_name, got_bits, bits))
    assert not errors, "\n".join(errors)


def main():
    for cell_label, cell in (("ANSI", CELL4_ANSI), ("header-only", CELL4_HEADER_ONLY)):
        check("cell4 (%s) declared before top" % cell_label, cell + "\n" + TOP)
        check("cell4 (%s) declared after top (used before its declaration)" % cell_label,
              TOP + "\n" + cell)
    print("OK: declared ports and all connections are as the source describes")


if __name__ == "__main__":
    try:
        main()
    except AssertionError as e:
        print("PROPERTY C06 VIOLATED: %s" % e)
        sys.exit(1)
