"""C02 demo 1: re-pointing an instance to a shape-compatible definition must keep every
connection on the *corresponding* (same port position / same pin position) pin, even when the
definition's pins were not created in port order (a pin was added to an earlier port after the
instance already existed).

Run as:  cd <checkout> && /venv/bin/python demo.py
Exit status 0 = property holds, non-zero (AssertionError) = property violated.
"""
import os
import sys

sys.path.insert(0, os.getcwd())

import spydrnet as sdn


def check_mirror(instance, definition, all_definitions):
    """the C02 invariant for one instance"""
    assert instance.reference is definition, "instance does not reference the expected definition"
    for d in all_definitions:
        if d is definition:
            assert instance in d.references, (
                "C02 violated: instance is not a member of the reference set of the definition "
                "it references (%s)" % d.name
            )
        else:
            assert instance not in d.references, (
                "C02 violated: instance is a member of the reference set of another definition "
                "(%s)" % d.name
            )
    inner_pins = [pin for port in definition.ports for pin in port.pins]
    assert len(instance.pins) == len(inner_pins), (
        "C02 violated: instance carries %d outer pins but its definition has %d inner pins"
        % (len(instance.pins), len(inner_pins))
    )
    for inner in inner_pins:
        assert inner in instance.pins, "C02 violated: no outer pin for an inner pin of the definition"
        outer = instance.pins[inner]
        assert outer.instance is instance, "C02 violated: outer pin does not name its instance"
        assert outer.inner_pin is inner, "C02 violated: outer pin does not name its inner pin"


netlist = sdn.Netlist(name="n")
lib = netlist.create_library(name="work")

# definition A: two single-pin ports, then an instance, THEN a second pin on the first port
A = lib.create_definition(name="A")
a_p = A.create_port(name="p", pins=1)
a_q = A.create_port(name="q", pins=1)

top = lib.create_definition(name="top")
inst = top.create_child(name="u0", reference=A)
other = top.create_child(name="u1", reference=A)  # a second instance of the same definition
netlist.top_instance = top                          # ... and a top instance around it all

a_p.create_pin()  # A is now p[0], p[1], q[0]; the instances already existed
check_mirror(inst, A, [A, top])
check_mirror(other, A, [A, top])

cable = top.create_cable(name="w", wires=3)
w_p0, w_p1, w_q0 = cable.wires
w_p0.connect_pin(inst.pins[a_p.pins[0]])
w_p1.connect_pin(inst.pins[a_p.pins[1]])
w_q0.connect_pin(inst.pins[a_q.pins[0]])

# definition B: the same shape (p: 2 pins, q: 1 pin), built in the ordinary order
B = lib.create_definition(name="B")
b_p = B.create_port(name="p", pins=2)
b_q = B.create_port(name="q", pins=1)

inst.reference = B  # shape-compatible re-pointing

check_mirror(inst, B, [A, B, top])
check_mirror(other, A, [A, B, top])

expected = [
    ("p[0]", b_p.pins[0], w_p0),
    ("p[1]", b_p.pins[1], w_p1),
    ("q[0]", b_q.pins[0], w_q0),
]
for label, inner, wire in expected:
    outer = inst.pins[inner]
    assert outer.wire is wire, (
        "C02 violated: after re-pointing u0 from A to the shape-compatible B, the connection of "
        "pin %s did not stay on the corresponding pin (outer pin of B.%s is on wire index %s, "
        "expected wire index %d)"
        % (
            label,
            label,
            None if outer.wire is None else cable.wires.index(outer.wire),
            cable.wires.index(wire),
        )
    )
    assert outer in wire.pins, "C02 violated: wire does not list the re-pointed outer pin"
    assert len(wire.pins) == 1, "C02 violated: wire gained/lost pins during re-pointing"

print("C02 demo 1: OK (connections stayed on the corresponding pins)")
