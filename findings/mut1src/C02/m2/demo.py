"""C02 demo 2: an instance that references a definition is, at all times, a member of that
definition's reference set -- also after the instance's reference is (re-)assigned to the very
definition it already references (a legal, shape-compatible re-pointing), and it keeps tracking
later port/pin edits of that definition.

Run as:  cd <checkout> && /venv/bin/python demo.py
Exit status 0 = property holds, non-zero (AssertionError) = property violated.
"""
import os
import sys

sys.path.insert(0, os.getcwd())

import spydrnet as sdn


def check_mirror(instance, definition, all_definitions, when):
    assert instance.reference is definition, "instance does not reference the expected definition"
    for d in all_definitions:
        if d is definition:
            assert instance in d.references, (
                "C02 violated (%s): instance %s references definition %s but is not a member of "
                "its reference set" % (when, instance.name, d.name)
            )
        else:
            assert instance not in d.references, (
                "C02 violated (%s): instance %s is a member of the reference set of %s which it "
                "does not reference" % (when, instance.name, d.name)
            )
    inner_pins = [pin for port in definition.ports for pin in port.pins]
    assert len(instance.pins) == len(inner_pins), (
        "C02 violated (%s): instance %s carries %d outer pins but its definition %s currently "
        "has %d inner pins" % (when, instance.name, len(instance.pins), definition.name, len(inner_pins))
    )
    for inner in inner_pins:
        assert inner in instance.pins, "C02 violated (%s): missing outer pin" % when
        outer = instance.pins[inner]
        assert outer.instance is instance, "C02 violated (%s): outer pin names wrong instance" % when
        assert outer.inner_pin is inner, "C02 violated (%s): outer pin names wrong inner pin" % when


netlist = sdn.Netlist(name="n")
lib = netlist.create_library(name="work")
A = lib.create_definition(name="A")
B = lib.create_definition(name="B")
a_p = A.create_port(name="p", pins=2)
b_p = B.create_port(name="p", pins=2)
top = lib.create_definition(name="top")
u0 = top.create_child(name="u0", reference=A)
u1 = top.create_child(name="u1", reference=A)
netlist.top_instance = top
defs = [A, B, top]

cable = top.create_cable(name="w", wires=2)
cable.wires[0].connect_pin(u0.pins[a_p.pins[0]])
cable.wires[1].connect_pin(u0.pins[a_p.pins[1]])

# ordinary re-pointing A -> B -> A works
u0.reference = B
check_mirror(u0, B, defs, "after A->B")
u0.reference = A
check_mirror(u0, A, defs, "after B->A")
check_mirror(u1, A, defs, "after B->A")

# re-point to the definition already referenced (e.g. a generic 'swap cell' pass that maps a
# cell onto itself)
u0.reference = u0.reference
check_mirror(u0, A, defs, "after re-assigning the reference to the same definition")
check_mirror(u1, A, defs, "after re-assigning the reference to the same definition")
assert u0.pins[a_p.pins[0]].wire is cable.wires[0], "C02 violated: connection lost on p[0]"
assert u0.pins[a_p.pins[1]].wire is cable.wires[1], "C02 violated: connection lost on p[1]"

# ... and the instance keeps tracking edits of its definition
new_port = A.create_port(name="q", pins=1)
check_mirror(u0, A, defs, "after adding a port to A")
check_mirror(u1, A, defs, "after adding a port to A")
a_p.remove_pin(a_p.pins[1])
check_mirror(u0, A, defs, "after removing a pin from A.p")
assert len(cable.wires[1].pins) == 0, (
    "C02 violated: outer pin of removed inner pin was not taken off its wire"
)

# un-referencing leaves every reference set
u0.reference = None
for d in defs:
    assert u0 not in d.references, "C02 violated: un-referenced instance still in a reference set"
assert len(u0.pins) == 0

print("C02 demo 2: OK (reference sets and outer pins track all edits)")
