"""C04 demo (m1): Verilog write-then-read must return the same bit-level connections.

A port is connected to a concatenation that uses every bit of the slice w[5:2] exactly once,
but not in slice order: .q({w[5], w[3], w[4], w[2]}).  The netlist is parsed, written as Verilog,
the written text is parsed again and the two netlists are compared bit by bit.

run as:  cd <checkout> && /venv/bin/python demo.py
exit status 0: property holds; non-zero (AssertionError): property violated.
"""
import os
import sys
import tempfile

sys.path.insert(0, os.getcwd())
import spydrnet as sdn  # noqa: E402

SOURCE = """\
module top(a, b, y);
  input [3:0] a;
  input [7:4] b;
  output [2:0] y;
  wire [5:2] w;
  wire [3:0] v;
  child c0 (.p(a), .q({w[5], w[3], w[4], w[2]}), .r(y[0]));
  child c1 (.p(a[1:0]), .q(w), .r(y[1]));
  child c2 (.p({v[3], v[1], v[1], v[0]}), .q({b[7:6], w[3:2]}), .r(y[2]));
  assign w[5:4] = b[5:4];
  assign v = a;
endmodule

module child(p, q, r);
  input [3:0] p;
  input [3:0] q;
  output r;
  wire n;
  LEAF l0 (.I(p[0]), .O(n));
  LEAF l1 (.I(q[3]), .O(r));
endmodule

`celldefine
module LEAF(O, I);
  output O;
  input I;
endmodule
`endcelldefine
"""


def wire_id(wire):
    if wire is None:
        return None
    cable = wire.cable
    return "%s[%d]" % (cable.name, cable.lower_index + cable.wires.index(wire))


def connections(netlist):
    """{(module, instance, port): [wire joined to pin 0, wire joined to pin 1, ...]}"""
    result = {}
    for library in netlist.libraries:
        if library.name == "SDN_VERILOG_ASSIGNMENT":
            continue
        for definition in library.definitions:
            for instance in definition.children:
                if instance.reference.library.name == "SDN_VERILOG_ASSIGNMENT":
                    continue
                for port in instance.reference.ports:
                    key = (definition.name, instance.name, port.name)
                    result[key] = [wire_id(instance.pins[pin].wire) for pin in port.pins]
    return result


def main():
    with tempfile.TemporaryDirectory() as tmp:
        source_file = os.path.join(tmp, "source.v")
        with open(source_file, "w") as f:
            f.write(SOURCE)
        original = sdn.parse(source_file)

        # sanity: the reader connected the concatenation the way Verilog says
        before = connections(original)
        assert before[("top", "c0", "q")] == ["w[2]", "w[4]", "w[3]", "w[5]"], before[("top", "c0", "q")]
        assert before[("top", "c2", "p")] == ["v[0]", "v[1]", "v[1]", "v[3]"], before[("top", "c2", "p")]

        written_file = os.path.join(tmp, "written.v")
        sdn.compose(original, written_file, write_blackbox=True)
        with open(written_file) as f:
            written_text = f.read()
        reread = sdn.parse(written_file)

    after = connections(reread)
    problems = []
    for key in sorted(before):
        if before[key] != after.get(key):
            problems.append(
                "%s.%s port %s: parsed netlist joins pins 0..n to %s but after write+read they join %s"
                % (key[0], key[1], key[2], before[key], after.get(key))
            )
    for key in sorted(set(after) - set(before)):
        problems.append("%s.%s port %s only exists after write+read" % key)

    if problems:
        print(written_text)
    assert not problems, (
        "C04 violated: Verilog write-then-read changed the bit-level connections of a concatenation:\n  "
        + "\n  ".join(problems)
    )
    print("C04 holds on this netlist: write-then-read returned the same bit-level connections")


if __name__ == "__main__":
    main()
