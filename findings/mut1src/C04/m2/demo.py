"""C04 demo (m2): Verilog write-then-read must return the same bit-level connections.

Instances use POSITIONAL port maps and some of the expressions are narrower than the port they
land on (a partially connected port: the expression drives the low bits, the high bits stay
unconnected).  The netlist is parsed, written as Verilog (the writer uses named port maps), the
written text is parsed again and the two netlists are compared bit by bit.

run as:  cd <checkout> && /venv/bin/python demo.py
exit status 0: property holds; non-zero (AssertionError): property violated.
"""
import os
import sys
import tempfile

sys.path.insert(0, os.getcwd())
import spydrnet as sdn  # noqa: E402

SOURCE = """\
module top(a, b, y);
  input [3:0] a;
  input [7:4] b;
  output [3:0] y;
  wire [5:2] w;
  child c0 (a, b, y[0]);
  child c1 (a[1:0], w[4:2], y[1]);
  child c2 ({b[4], a[2]}, w[2], y[2]);
  child c3 (.p(a[1:0]), .q(w[4:2]), .r(y[3]));
  late  d0 (w[3:2], b[5:4]);
endmodule

module child(p, q, r);
  input [3:0] p;
  input [3:0] q;
  output r;
  LEAF l0 (.I(p[0]), .O(r));
endmodule

module late(i, o);
  input [2:0] i;
  output [3:0] o;
  LEAF l0 (.I(i[0]), .O(o[0]));
endmodule

`celldefine
module LEAF(O, I);
  output O;
  input I;
endmodule
`endcelldefine
"""


def wire_id(wire):
    if wire is None:
        return None
    cable = wire.cable
    return "%s[%d]" % (cable.name, cable.lower_index + cable.wires.index(wire))


def connections(netlist):
    """{(module, instance, port): [wire joined to pin 0, wire joined to pin 1, ...]}"""
    result = {}
    for library in netlist.libraries:
        if library.name == "SDN_VERILOG_ASSIGNMENT":
            continue
        for definition in library.definitions:
            for instance in definition.children:
                if instance.reference.library.name == "SDN_VERILOG_ASSIGNMENT":
                    continue
                for port in instance.reference.ports:
                    key = (definition.name, instance.name, port.name)
                    result[key] = [wire_id(instance.pins[pin].wire) for pin in port.pins]
    return result


def main():
    with tempfile.TemporaryDirectory() as tmp:
        source_file = os.path.join(tmp, "source.v")
        with open(source_file, "w") as f:
            f.write(SOURCE)
        original = sdn.parse(source_file)

        # what the reader built: a narrow expression sits on the low bits of the port
        before = connections(original)
        assert before[("top", "c3", "p")] == ["a[0]", "a[1]", None, None], before[("top", "c3", "p")]

        written_file = os.path.join(tmp, "written.v")
        sdn.compose(original, written_file, write_blackbox=True)
        with open(written_file) as f:
            written_text = f.read()
        reread = sdn.parse(written_file)

    after = connections(reread)
    problems = []
    for key in sorted(before):
        if before[key] != after.get(key):
            problems.append(
                "%s.%s port %s: parsed netlist joins pins 0..n to %s but after write+read they join %s"
                % (key[0], key[1], key[2], before[key], after.get(key))
            )
    for key in sorted(set(after) - set(before)):
        problems.append("%s.%s port %s only exists after write+read" % key)

    if problems:
        print(written_text)
    assert not problems, (
        "C04 violated: Verilog write-then-read changed the bit-level connections of a partially connected port:\n  "
        + "\n  ".join(problems)
    )
    print("C04 holds on this netlist: write-then-read returned the same bit-level connections")


if __name__ == "__main__":
    main()
