"""C12 demo 1: sibling instances of one shared definition on the same net."""
import sys
import spydrnet as sdn
from spydrnet.util.hierarchical_reference import HRef


def mkdef(lib, name, ports):
    d = lib.create_definition()
    d.name = name
    for pname, width in ports:
        p = d.create_port()
        p.name = pname
        p.create_pins(width)
    return d


def port(d, name):
    return next(p for p in d.ports if p.name == name)


def net(d, name, *pins):
    c = d.create_cable()
    c.name = name
    w = c.create_wire()
    for p in pins:
        w.connect_pin(p)
    return w


def inst(parent, name, ref):
    i = parent.create_child()
    i.name = name
    i.reference = ref
    return i


def opin(i, pname, idx=0):
    return i.pins[port(i.reference, pname).pins[idx]]


def build():
    nl = sdn.Netlist()
    nl.name = "nl"
    lib = nl.create_library()
    lib.name = "work"
    leaf = mkdef(lib, "leaf", [("I", 1), ("O", 1)])
    # pass-through cell: only a cable joining its two ports, no children
    pt = mkdef(lib, "pt", [("A", 1), ("B", 1)])
    net(pt, "w", port(pt, "A").pins[0], port(pt, "B").pins[0])
    # sub: shared definition (instanced twice in core)
    sub = mkdef(lib, "sub", [("CLK", 1), ("D", 1), ("Q", 1), ("NC", 1)])
    l0 = inst(sub, "l0", leaf)
    p0 = inst(sub, "p0", pt)
    net(sub, "c_clk", port(sub, "CLK").pins[0], opin(l0, "I"))
    net(sub, "d", port(sub, "D").pins[0], opin(p0, "A"))
    p1 = inst(sub, "p1", pt)
    net(sub, "link", opin(p0, "B"), opin(p1, "A"))  # touches only pass-through instance pins
    net(sub, "q", opin(p1, "B"), port(sub, "Q").pins[0])
    net(sub, "lonely")  # touches nothing
    net(sub, "leafonly", opin(l0, "O"))  # touches only an instance pin
    # core
    core = mkdef(lib, "core", [("CLK", 1), ("IN", 1), ("OUT", 1)])
    u0 = inst(core, "u0", sub)
    u1 = inst(core, "u1", sub)
    net(core, "clk", port(core, "CLK").pins[0], opin(u0, "CLK"), opin(u1, "CLK"))
    net(core, "n_in", port(core, "IN").pins[0], opin(u0, "D"))
    net(core, "mid", opin(u0, "Q"), opin(u1, "D"))
    net(core, "n_out", opin(u1, "Q"), port(core, "OUT").pins[0])
    # top
    top = mkdef(lib, "top", [("clk", 1), ("din", 1), ("dout", 1)])
    c0 = inst(top, "c0", core)
    net(top, "clk", port(top, "clk").pins[0], opin(c0, "CLK"))
    net(top, "din", port(top, "din").pins[0], opin(c0, "IN"))
    net(top, "dout", opin(c0, "OUT"), port(top, "dout").pins[0])
    net(top, "floating")
    ti = sdn.Instance()
    ti.name = "top"
    ti.reference = top
    nl.top_instance = ti
    return nl


def all_hinsts(nl):
    stack = [HRef.from_parent_and_item(None, nl.top_instance)]
    while stack:
        h = stack.pop()
        yield h
        if h.item.reference:
            for ch in h.item.reference.children:
                stack.append(HRef.from_parent_and_item(h, ch))


def hwire_of(hinst, wire):
    return HRef.from_parent_and_item(HRef.from_parent_and_item(hinst, wire.cable), wire)


def hpin_of(hinst, pin):
    return HRef.from_parent_and_item(HRef.from_parent_and_item(hinst, pin.port), pin)


def reference_model(nl):
    """Independent model: union-find of hierarchical wires joined through instance port boundaries."""
    parent = {}

    def find(x):
        while parent[x] != x:
            parent[x] = parent[parent[x]]
            x = parent[x]
        return x

    def union(a, b):
        parent[find(a)] = find(b)

    hinsts = list(all_hinsts(nl))
    for h in hinsts:
        for cable in h.item.reference.cables:
            for w in cable.wires:
                hw = hwire_of(h, w)
                parent[hw] = hw
    hpins = {}  # hpin -> (inside hwire or None, outside hwire or None)
    for h in hinsts:
        for p in h.item.reference.ports:
            for pin in p.pins:
                inside = hwire_of(h, pin.wire) if pin.wire else None
                outside = None
                if h.parent is not None:
                    outer = h.item.pins[pin]
                    if outer.wire:
                        outside = hwire_of(h.parent, outer.wire)
                hpins[hpin_of(h, pin)] = (inside, outside)
                if inside and outside:
                    union(inside, outside)
    classes = {}
    for hw in parent:
        classes.setdefault(find(hw), set()).add(hw)
    net_of = {hw: classes[find(hw)] for hw in parent}
    return net_of, hpins


def names(s):
    return sorted(x.name for x in s)


def main():
    nl = build()
    net_of, hpins = reference_model(nl)
    failures = []
    # Every member (wire) of a net must yield exactly the electrically connected net.
    for hw, expected in sorted(net_of.items(), key=lambda kv: kv[0].name):
        got = set(sdn.get_hwires(hw, selection="ALL"))
        if got != expected:
            failures.append(
                "get_hwires(<hwire %s>, selection=ALL) = %s, but the connected net is %s"
                % (hw.name, names(got), names(expected))
            )
    # ... and so must every hierarchical pin of it.
    for hp, (inside, outside) in sorted(hpins.items(), key=lambda kv: kv[0].name):
        expected = set()
        for side in (inside, outside):
            if side is not None:
                expected |= net_of[side]
        got = set(sdn.get_hwires(hp, selection="ALL"))
        if got != expected:
            failures.append(
                "get_hwires(<hpin %s>, selection=ALL) = %s, but the connected net is %s"
                % (hp.name, names(got), names(expected))
            )
    # Headline case: the clock net fans out to two instances (u0, u1) of the SAME definition 'sub'
    # through the SAME port pin. All members of that net must give the same answer.
    clk_members = [hw for hw in net_of if hw.name == "clk"][0]
    answers = {
        hw.name: frozenset(x.name for x in sdn.get_hwires(hw, selection="ALL"))
        for hw in net_of[clk_members]
    }
    if len(set(answers.values())) != 1:
        failures.append(
            "members of the clock net disagree about the net: %s"
            % {k: sorted(v) for k, v in answers.items()}
        )
    for f in failures:
        print("VIOLATION:", f)
    assert not failures, (
        "C12 violated: cross-hierarchy tracing (selection ALL) does not return exactly the "
        "electrically connected net for %d starting points" % len(failures)
    )
    print("OK: ALL-selection tracing returns exactly the connected net from all %d hwires and %d hpins"
          % (len(net_of), len(hpins)))


if __name__ == "__main__":
    main()
