"""C12 demo 2: a net that touches only pins of pass-through cells."""
import sys
import spydrnet as sdn
from spydrnet.util.hierarchical_reference import HRef


def mkdef(lib, name, ports):
    d = lib.create_definition()
    d.name = name
    for pname, width in ports:
        p = d.create_port()
        p.name = pname
        p.create_pins(width)
    return d


def port(d, name):
    return next(p for p in d.ports if p.name == name)


def net(d, name, *pins):
    c = d.create_cable()
    c.name = name
    w = c.create_wire()
    for p in pins:
        w.connect_pin(p)
    return w


def inst(parent, name, ref):
    i = parent.create_child()
    i.name = name
    i.reference = ref
    return i


def opin(i, pname, idx=0):
    return i.pins[port(i.reference, pname).pins[idx]]


def build():
    nl = sdn.Netlist()
    nl.name = "nl"
    lib = nl.create_library()
    lib.name = "work"
    leaf = mkdef(lib, "leaf", [("I", 1), ("O", 1)])
    # pass-through cell: only a cable joining its two ports, no children
    pt = mkdef(lib, "pt", [("A", 1), ("B", 1)])
    net(pt, "w", port(pt, "A").pins[0], port(pt, "B").pins[0])
    # sub: shared definition (instanced twice in core)
    sub = mkdef(lib, "sub", [("CLK", 1), ("D", 1), ("Q", 1), ("NC", 1)])
    l0 = inst(sub, "l0", leaf)
    p0 = inst(sub, "p0", pt)
    net(sub, "c_clk", port(sub, "CLK").pins[0], opin(l0, "I"))
    net(sub, "d", port(sub, "D").pins[0], opin(p0, "A"))
    p1 = inst(sub, "p1", pt)
    net(sub, "link", opin(p0, "B"), opin(p1, "A"))  # touches only pass-through instance pins
    net(sub, "q", opin(p1, "B"), port(sub, "Q").pins[0])
    net(sub, "lonely")  # touches nothing
    net(sub, "leafonly", opin(l0, "O"))  # touches only an instance pin
    # core
    core = mkdef(lib, "core", [("CLK", 1), ("IN", 1), ("OUT", 1)])
    u0 = inst(core, "u0", sub)
    u1 = inst(core, "u1", sub)
    net(core, "clk", port(core, "CLK").pins[0], opin(u0, "CLK"), opin(u1, "CLK"))
    net(core, "n_in", port(core, "IN").pins[0], opin(u0, "D"))
    net(core, "mid", opin(u0, "Q"), opin(u1, "D"))
    net(core, "n_out", opin(u1, "Q"), port(core, "OUT").pins[0])
    # top
    top = mkdef(lib, "top", [("clk", 1), ("din", 1), ("dout", 1)])
    c0 = inst(top, "c0", core)
    net(top, "clk", port(top, "clk").pins[0], opin(c0, "CLK"))
    net(top, "din", port(top, "din").pins[0], opin(c0, "IN"))
    net(top, "dout", opin(c0, "OUT"), port(top, "dout").pins[0])
    net(top, "floating")
    ti = sdn.Instance()
    ti.name = "top"
    ti.reference = top
    nl.top_instance = ti
    return nl


def all_hinsts(nl):
    stack = [HRef.from_parent_and_item(None, nl.top_instance)]
    while stack:
        h = stack.pop()
        yield h
        if h.item.reference:
            for ch in h.item.reference.children:
                stack.append(HRef.from_parent_and_item(h, ch))


def hwire_of(hinst, wire):
    return HRef.from_parent_and_item(HRef.from_parent_and_item(hinst, wire.cable), wire)


def hpin_of(hinst, pin):
    return HRef.from_parent_and_item(HRef.from_parent_and_item(hinst, pin.port), pin)


def reference_model(nl):
    """Independent model: union-find of hierarchical wires joined through instance port boundaries."""
    parent = {}

    def find(x):
        while parent[x] != x:
            parent[x] = parent[parent[x]]
            x = parent[x]
        return x

    def union(a, b):
        parent[find(a)] = find(b)

    hinsts = list(all_hinsts(nl))
    for h in hinsts:
        for cable in h.item.reference.cables:
            for w in cable.wires:
                hw = hwire_of(h, w)
                parent[hw] = hw
    hpins = {}  # hpin -> (inside hwire or None, outside hwire or None)
    for h in hinsts:
        for p in h.item.reference.ports:
            for pin in p.pins:
                inside = hwire_of(h, pin.wire) if pin.wire else None
                outside = None
                if h.parent is not None:
                    outer = h.item.pins[pin]
                    if outer.wire:
                        outside = hwire_of(h.parent, outer.wire)
                hpins[hpin_of(h, pin)] = (inside, outside)
                if inside and outside:
                    union(inside, outside)
    classes = {}
    for hw in parent:
        classes.setdefault(find(hw), set()).add(hw)
    net_of = {hw: classes[find(hw)] for hw in parent}
    return net_of, hpins


def names(s):
    return sorted(x.name for x in s)


def main():
    nl = build()
    net_of, hpins = reference_model(nl)
    failures = []
    # Starting from any hierarchical wire or cable, selection ALL must return exactly the
    # hierarchical wires joined to it through instance port boundaries.
    for hw, expected in sorted(net_of.items(), key=lambda kv: kv[0].name):
        for label, start in (("hwire", hw), ("hcable", hw.parent)):
            got = set(sdn.get_hwires(start, selection="ALL"))
            if got != expected:
                failures.append(
                    "get_hwires(<%s %s>, selection=ALL) = %s, but the connected net is %s"
                    % (label, hw.name, names(got), names(expected))
                )
    # Every member of a net yields the same answer: compare wire starts with pin starts.
    for hp, (inside, outside) in sorted(hpins.items(), key=lambda kv: kv[0].name):
        from_pin = set(sdn.get_hwires(hp, selection="ALL"))
        for side in (inside, outside):
            if side is not None:
                from_wire = set(sdn.get_hwires(side, selection="ALL"))
                if from_wire != from_pin:
                    failures.append(
                        "hpin %s and the hwire %s attached to it disagree about the net: %s vs %s"
                        % (hp.name, side.name, names(from_pin), names(from_wire))
                    )
    # Headline case: net 'link' inside 'sub' touches ONLY pins of two pass-through cells
    # (cells that have a cable joining their ports but no sub-instances).
    link = [hw for hw in net_of if hw.name == "c0/u0/link"][0]
    got = set(sdn.get_hwires(link, selection="ALL"))
    for must in ("c0/u0/p0/w", "c0/u0/p1/w", "c0/u0/d", "c0/u0/q", "din", "dout"):
        if must not in {x.name for x in got}:
            failures.append(
                "tracing from c0/u0/link does not reach %s through the pass-through cells" % must
            )
    for f in failures:
        print("VIOLATION:", f)
    assert not failures, (
        "C12 violated: cross-hierarchy tracing (selection ALL) does not return exactly the "
        "electrically connected net (%d discrepancies)" % len(failures)
    )
    print("OK: ALL-selection tracing agrees with the connectivity model for all %d hwires/hcables "
          "and %d hpins" % (len(net_of), len(hpins)))


if __name__ == "__main__":
    main()
