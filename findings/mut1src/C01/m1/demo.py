"""C01 demo (m1): pin <-> wire links must stay mutually consistent, also when a
connect call is made through a *proxy* outer pin built from (instance, inner pin)
and whether that call is accepted or refused."""
import spydrnet as sdn


def check_pin_wire_links(wires, pins, when):
    """every pin reports exactly the one wire whose pin list contains it (once),
    while a wire lists only pins that report it"""
    for wire in wires:
        for pin in wire.pins:
            assert pin.wire is wire, (
                "%s: wire %r lists a pin that reports a different wire (%r)"
                % (when, names[id(wire)], names.get(id(pin.wire)))
            )
    for pin in pins:
        holders = [names[id(w)] for w in wires for p in w.pins if p is pin]
        expected = [] if pin.wire is None else [names[id(pin.wire)]]
        assert holders == expected, (
            "%s: pin reports wire %s but is listed by wire(s) %s"
            % (when, expected, holders)
        )


names = {}

top = sdn.Definition("top")
leaf = sdn.Definition("leaf")
port = leaf.create_port("A", pins=2)
ip0, ip1 = port.pins
inst = top.create_child("u0", reference=leaf)
cable = top.create_cable("n", wires=2)
w1, w2 = cable.wires
names[id(w1)] = "w1"
names[id(w2)] = "w2"
wires = [w1, w2]
pins = [inst.pins[ip0], inst.pins[ip1]]

# step 1: ordinary connection of the real outer pin to w1
w1.connect_pin(inst.pins[ip0])
check_pin_wire_links(wires, pins, "after w1.connect_pin(real outer pin)")

# step 2: the same pin, designated by a freshly built proxy, offered to w2.
# The pin is already connected, so the call has to be refused (or at the very
# least leave the links consistent).
proxy = sdn.OuterPin.from_instance_and_inner_pin(inst, ip0)
try:
    w2.connect_pin(proxy)
    outcome = "accepted"
except AssertionError:
    outcome = "refused"
check_pin_wire_links(
    wires, pins, "after w2.connect_pin(proxy of a pin already on w1) was " + outcome
)

# step 3: same thing towards the wire the pin is already on (must not be listed twice)
proxy = sdn.OuterPin(inst, ip0)
try:
    inst.pins[ip0].wire.connect_pin(proxy)
    outcome = "accepted"
except AssertionError:
    outcome = "refused"
check_pin_wire_links(
    wires, pins, "after connecting a proxy to the wire its pin is already on was " + outcome
)

# step 4: a proxy for a free pin still works and keeps the links consistent
w2.connect_pin(sdn.OuterPin(inst, ip1), position=0)
assert inst.pins[ip1].wire is w2 and list(w2.pins) == [inst.pins[ip1]]
check_pin_wire_links(wires, pins, "after w2.connect_pin(proxy of a free pin)")
print("OK: pin/wire links consistent at every step")
