"""C01 demo (m2): a container lists exactly the elements that name it as their
parent, whether an editing call is accepted or refused. Here: a bulk removal of
children that mixes own children with an instance of another definition."""
import spydrnet as sdn


def check_ownership(definitions, instances, when):
    """every container lists exactly the elements that name it as their parent
    (once each, removed elements report no parent)"""
    for definition in definitions:
        for child in definition.children:
            assert child.parent is definition, (
                "%s: definition %r lists child %r, but that child reports parent %r"
                % (when, definition.name, child.name,
                   child.parent.name if child.parent else None)
            )
    for inst in instances:
        holders = [d.name for d in definitions for c in d.children if c is inst]
        expected = [] if inst.parent is None else [inst.parent.name]
        assert holders == expected, (
            "%s: instance %r reports parent %s but is listed by %s"
            % (when, inst.name, expected, holders)
        )


netlist1 = sdn.Netlist("n1")
lib1 = netlist1.create_library("work")
leaf = lib1.create_definition("leaf")
top = lib1.create_definition("top")
a = top.create_child("a", reference=leaf)
b = top.create_child("b", reference=leaf)
c = top.create_child("c", reference=leaf)

netlist2 = sdn.Netlist("n2")
lib2 = netlist2.create_library("work")
other = lib2.create_definition("other")
foreign = other.create_child("f", reference=leaf)

definitions = [top, other, leaf]
instances = [a, b, c, foreign]
check_ownership(definitions, instances, "initially")

# refused call: the set to remove contains a child of ANOTHER definition
try:
    top.remove_children_from([a, foreign, c])
    outcome = "accepted"
except AssertionError:
    outcome = "refused"
assert outcome == "refused", "removing a child of another definition must be refused"
check_ownership(
    definitions, instances,
    "after top.remove_children_from([a, <child of other>, c]) was refused",
)
assert list(top.children) == [a, b, c] and list(other.children) == [foreign]

# refused call: an orphan instance in the set
orphan = sdn.Instance("orphan")
instances.append(orphan)
try:
    top.remove_children_from({b, orphan})
except AssertionError:
    pass
check_ownership(
    definitions, instances, "after top.remove_children_from({b, orphan}) was refused"
)

# accepted call still works
top.remove_children_from([a, c])
check_ownership(definitions, instances, "after top.remove_children_from([a, c])")
assert list(top.children) == [b] and a.parent is None and c.parent is None
print("OK: ownership consistent at every step")
