"""C07 demo 1: a cloned netlist must be well-formed and self-contained -- every link, including
the reference set of the top definition, has to resolve inside the copy, and the copy has to
react to later edits exactly like the original.

Needs: a netlist with exactly ONE library and a stand-alone top instance (not a child)."""
import sys
import spydrnet as sdn


def build():
    netlist = sdn.Netlist(name="single_lib")
    work = netlist.create_library(name="work")
    leaf = work.create_definition(name="LEAF")
    leaf_a = leaf.create_port(name="A", pins=1, direction=sdn.IN)
    top_def = work.create_definition(name="top")
    top_in = top_def.create_port(name="in", pins=2, direction=sdn.IN)
    u0 = top_def.create_child(name="u0", reference=leaf)
    net = top_def.create_cable(name="n", wires=1)
    net.wires[0].connect_pin(top_in.pins[0])
    net.wires[0].connect_pin(u0.pins[leaf_a.pins[0]])
    netlist.top_instance = top_def  # a stand-alone top instance is created for the definition
    return netlist


def reference_sets_ok(netlist):
    """instance.reference.references contains the instance, for the top and every child"""
    bad = []
    insts = [netlist.top_instance]
    for lib in netlist.libraries:
        for d in lib.definitions:
            insts.extend(d.children)
            for r in d.references:
                if r.reference is not d:
                    bad.append("%s lists %s which references something else" % (d.name, r.name))
    for inst in insts:
        if inst not in inst.reference.references:
            bad.append(
                "instance %r is missing from the reference set of its definition %r"
                % (inst.name, inst.reference.name)
            )
    return bad


def add_port_and_count_top_pins(netlist):
    """an edit: a new 3-bit port on the top definition must show up as 3 more outer pins on
    every instance of that definition, i.e. on the top instance"""
    top = netlist.top_instance
    before = len(top.pins)
    top.reference.create_port(name="extra", pins=3, direction=sdn.OUT)
    return len(top.pins) - before


original = build()
copy = original.clone()

failures = []
assert not reference_sets_ok(original), "the original itself must be well-formed"

# 1. the top instance / its definition resolve inside the copy
if copy.top_instance.reference not in copy.libraries[0].definitions:
    failures.append("copy.top_instance.reference is not a definition of the copy")
if len(copy.top_instance.reference.references) != len(original.top_instance.reference.references):
    failures.append(
        "reference set of the top definition: original has %d entries, the clone has %d"
        % (
            len(original.top_instance.reference.references),
            len(copy.top_instance.reference.references),
        )
    )
failures.extend("clone: " + m for m in reference_sets_ok(copy))

# 2. the same later edit on both netlists has the same effect in each
grown_orig = add_port_and_count_top_pins(original)
grown_copy = add_port_and_count_top_pins(copy)
if grown_orig != grown_copy:
    failures.append(
        "after adding a 3-pin port to the top definition the original's top instance gained "
        "%d outer pins, the clone's top instance gained %d" % (grown_orig, grown_copy)
    )

if failures:
    print("C07 VIOLATED: the clone is not a well-formed, self-contained copy:")
    for f in failures:
        print("  -", f)
    sys.exit(1)
print("ok: single-library clone is self-contained and reacts to edits like the original")
