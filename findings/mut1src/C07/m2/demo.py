"""C07 demo 2: a clone shares no element with the original, so later edits of either netlist
never show in the other -- this includes arbitrary (nested, mutable) user data.

Needs: a cable (net) that carries a mutable metadata value, such as the dict the Verilog parser
stores under "VERILOG.InlineConstraints" or an EDIF style property list, and an in-place edit of
that value after cloning."""
import os
import sys
import tempfile
import spydrnet as sdn


def build():
    netlist = sdn.Netlist(name="design")
    work = netlist.create_library(name="work")
    leaf = work.create_definition(name="LEAF")
    leaf_a = leaf.create_port(name="A", pins=1, direction=sdn.IN)
    top_def = work.create_definition(name="top")
    top_in = top_def.create_port(name="din", pins=1, direction=sdn.IN)
    top_def.create_cable(name="din", wires=1).wires[0].connect_pin(top_in.pins[0])
    u0 = top_def.create_child(name="u0", reference=leaf)
    net = top_def.create_cable(name="dbg_net", wires=1)
    net.wires[0].connect_pin(u0.pins[leaf_a.pins[0]])
    # the same kind of values the parsers attach to nets
    net["VERILOG.InlineConstraints"] = {"mark_debug": '"true"'}
    net["EDIF.properties"] = [{"identifier": "KEEP", "value": "true"}]
    netlist.top_instance = top_def
    return netlist


def net_of(netlist):
    return next(netlist.get_cables("dbg_net"))


def snapshot(cable):
    return (
        dict(cable["VERILOG.InlineConstraints"]),
        [dict(p) for p in cable["EDIF.properties"]],
    )


def verilog_text(netlist):
    fd, path = tempfile.mkstemp(suffix=".v")
    os.close(fd)
    try:
        sdn.compose(netlist, path)
        with open(path) as f:
            return f.read()
    finally:
        os.remove(path)


failures = []

# --- netlist clone, then edit the CLONE -------------------------------------------------------
original = build()
before = snapshot(net_of(original))
text_before = verilog_text(original)
copy = original.clone()
assert snapshot(net_of(copy)) == before, "the clone must start with the same data"

if net_of(copy)["VERILOG.InlineConstraints"] is net_of(original)["VERILOG.InlineConstraints"]:
    failures.append("netlist clone: the cable's constraint dict is shared with the original")
net_of(copy)["VERILOG.InlineConstraints"]["dont_touch"] = '"true"'
net_of(copy)["EDIF.properties"].append({"identifier": "MARK", "value": "1"})
net_of(copy)["EDIF.properties"][0]["value"] = "false"
if snapshot(net_of(original)) != before:
    failures.append(
        "edits of the clone's net metadata show in the original: %r -> %r"
        % (before, snapshot(net_of(original)))
    )
if verilog_text(original) != text_before:
    failures.append("the Verilog written for the ORIGINAL changed after editing the CLONE")

# --- netlist clone, then edit the ORIGINAL ----------------------------------------------------
original = build()
copy = original.clone()
before = snapshot(net_of(copy))
del net_of(original)["VERILOG.InlineConstraints"]["mark_debug"]
net_of(original)["EDIF.properties"].clear()
if snapshot(net_of(copy)) != before:
    failures.append(
        "edits of the original's net metadata show in the clone: %r -> %r"
        % (before, snapshot(net_of(copy)))
    )

# --- cloning a single cable / a definition gives detached copies too --------------------------
original = build()
src = net_of(original)
before = snapshot(src)
for what, cloned_cable in (
    ("cable.clone()", src.clone()),
    ("definition.clone()", next(src.definition.clone().get_cables("dbg_net"))),
):
    cloned_cable["EDIF.properties"][0]["value"] = "changed via " + what
    if snapshot(src) != before:
        failures.append("%s: editing the copy's data modified the source cable" % what)
        src["EDIF.properties"][0]["value"] = "true"

if failures:
    print("C07 VIOLATED: the clone is not independent of the original:")
    for f in failures:
        print("  -", f)
    sys.exit(1)
print("ok: cable metadata of clone and original are independent")
