"""C20 demo (m1): the comparer must reject a copy in which ONE connection was
moved to another instance ("which instance ... a net touches").

Netlist: top has two instances u1, u2 of the same leaf BUF(A,Y).
  cables (in order):  y1 -> u1.Y,  y2 -> u2.Y,  a1 -> u1.A,  a2 -> u2.A
Mutated copy: the nets a1 and a2 swap their instances (a1 -> u2.A, a2 -> u1.A).
Every wire still has the same number of pins and touches the same port/bit,
only the *instance* differs - the comparer must raise.
"""
import sys
import spydrnet as sdn
from spydrnet.compare.compare_netlists import Comparer


def build():
    nl = sdn.Netlist(name="nl")
    prims = nl.create_library(name="prims")
    buf = prims.create_definition(name="BUF")
    pa = buf.create_port(name="A", direction=sdn.IN)
    pa.create_pin()
    py = buf.create_port(name="Y", direction=sdn.OUT)
    py.create_pin()

    work = nl.create_library(name="work")
    top = work.create_definition(name="top")
    u1 = top.create_child(name="u1", reference=buf)
    u2 = top.create_child(name="u2", reference=buf)
    for cname, inst, port in (("y1", u1, py), ("y2", u2, py), ("a1", u1, pa), ("a2", u2, pa)):
        c = top.create_cable(name=cname)
        w = c.create_wire()
        w.connect_pin(inst.pins[port.pins[0]])
    nl.set_top_instance(top, instance_name="top")
    return nl


def rejects(a, b):
    try:
        Comparer(a, b).compare()
    except Exception:
        return True
    return False


def main():
    orig = build()

    # 1. a faithful copy is accepted
    assert not rejects(orig, orig.clone()), "comparer rejected a faithful clone"
    assert not rejects(orig, build()), "comparer rejected an identical rebuild"

    # 2. move connections: a1 <-> a2 swap the instance they touch
    mut = orig.clone()
    top = next(mut.get_definitions("top"))
    u1 = next(top.get_instances("u1"))
    u2 = next(top.get_instances("u2"))
    a1 = next(top.get_cables("a1")).wires[0]
    a2 = next(top.get_cables("a2")).wires[0]
    buf = u1.reference
    pin_a = next(buf.get_ports("A")).pins[0]
    a1.disconnect_pin(u1.pins[pin_a])
    a2.disconnect_pin(u2.pins[pin_a])
    a1.connect_pin(u2.pins[pin_a])
    a2.connect_pin(u1.pins[pin_a])
    assert [p.instance.name for p in a1.pins] == ["u2"]
    assert [p.instance.name for p in a2.pins] == ["u1"]

    assert rejects(orig, mut), (
        "C20 violated: net a1 touches instance u1 in the original but u2 in the copy "
        "(and a2 vice versa), yet Comparer(orig, copy).compare() did not raise"
    )
    assert rejects(mut, orig), (
        "C20 violated: Comparer(copy, orig).compare() did not raise although nets a1/a2 "
        "touch different instances"
    )

    # 3. single move: net a1 moved from u1.A to the (now free) pin A of a third instance u3
    orig3 = build()
    t3 = next(orig3.get_definitions("top"))
    buf3 = next(orig3.get_definitions("BUF"))
    u3 = t3.create_child(name="u3", reference=buf3)
    c = t3.create_cable(name="y3")
    c.create_wire().connect_pin(u3.pins[next(buf3.get_ports("Y")).pins[0]])
    # put y3 first so that it is visited before a1
    mut3 = orig3.clone()
    tm = next(mut3.get_definitions("top"))
    bm = next(mut3.get_definitions("BUF"))
    pin_a = next(bm.get_ports("A")).pins[0]
    w = next(tm.get_cables("a1")).wires[0]
    w.disconnect_pin(next(tm.get_instances("u1")).pins[pin_a])
    w.connect_pin(next(tm.get_instances("u3")).pins[pin_a])
    assert not rejects(orig3, orig3.clone()), "comparer rejected a faithful clone"
    assert rejects(orig3, mut3), (
        "C20 violated: one connection of net a1 was moved from instance u1 to instance u3 "
        "in the copy, yet the comparer did not raise"
    )
    print("OK: comparer accepts faithful copies and rejects moved connections")


if __name__ == "__main__":
    main()
    sys.exit(0)
