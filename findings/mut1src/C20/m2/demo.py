"""C20 demo (m2): the comparer must reject a copy whose *counts of cables or
instances* differ from the original ("drop or add one element").

Netlist: library prims {BUF(A,Y) leaf primitive}, library work {top: u1=BUF, nets a,y}.
Mutated copies ADD one element inside the leaf definition BUF of the copy:
  - one cable                      (count of cables 0 -> 1)
  - one (unconnected) instance     (count of instances 0 -> 1)
and, for reference, the same additions/removals in the non-leaf definition top.
Every one of these copies differs from the original in a count the comparer is
documented to examine, so Comparer(orig, copy).compare() must raise.
"""
import sys
import spydrnet as sdn
from spydrnet.compare.compare_netlists import Comparer


def build():
    nl = sdn.Netlist(name="nl")
    prims = nl.create_library(name="prims")
    inv = prims.create_definition(name="INV")
    inv.create_port(name="I", direction=sdn.IN).create_pin()
    inv.create_port(name="O", direction=sdn.OUT).create_pin()
    buf = prims.create_definition(name="BUF")
    pa = buf.create_port(name="A", direction=sdn.IN)
    pa.create_pin()
    py = buf.create_port(name="Y", direction=sdn.OUT)
    py.create_pin()

    work = nl.create_library(name="work")
    top = work.create_definition(name="top")
    ta = top.create_port(name="a", direction=sdn.IN)
    ta.create_pin()
    ty = top.create_port(name="y", direction=sdn.OUT)
    ty.create_pin()
    u1 = top.create_child(name="u1", reference=buf)
    ca = top.create_cable(name="a")
    wa = ca.create_wire()
    wa.connect_pin(ta.pins[0])
    wa.connect_pin(u1.pins[pa.pins[0]])
    cy = top.create_cable(name="y")
    wy = cy.create_wire()
    wy.connect_pin(u1.pins[py.pins[0]])
    wy.connect_pin(ty.pins[0])
    nl.set_top_instance(top, instance_name="top")
    return nl


def rejects(a, b):
    try:
        Comparer(a, b).compare()
    except Exception:
        return True
    return False


def add_cable(nl, defname):
    d = next(nl.get_definitions(defname))
    d.create_cable(name="extra_net").create_wire()


def add_instance(nl, defname):
    d = next(nl.get_definitions(defname))
    d.create_child(name="extra_inst", reference=next(nl.get_definitions("INV")))


def main():
    orig = build()
    assert not rejects(orig, orig.clone()), "comparer rejected a faithful clone"
    assert not rejects(orig, build()), "comparer rejected an identical rebuild"

    failures = []
    for what, fn in (("cable", add_cable), ("instance", add_instance)):
        for defname in ("top", "BUF"):
            mut = orig.clone()
            n_before = (len(next(mut.get_definitions(defname)).cables),
                        len(next(mut.get_definitions(defname)).children))
            fn(mut, defname)
            n_after = (len(next(mut.get_definitions(defname)).cables),
                       len(next(mut.get_definitions(defname)).children))
            assert n_before != n_after
            if not rejects(orig, mut):
                failures.append(
                    "one %s added to definition %s of the copy (cables,instances %s -> %s) "
                    "but Comparer(orig, copy).compare() did not raise"
                    % (what, defname, n_before, n_after)
                )
    assert not failures, "C20 violated (counts of cables/instances):\n  " + "\n  ".join(failures)
    print("OK: comparer accepts faithful copies and rejects added cables/instances")


if __name__ == "__main__":
    main()
    sys.exit(0)
