"""C11 finding (str-D): get_hinstances ignores that the root of every path is no longer valid and returns references that report
is_valid False.

Property C11: "... return exactly one reference per occurrence in the elaborated design ..., each reported valid ..., and a
reference reports invalid in agreement with the current netlist after any edit".
After the library (or the definition) that holds the top definition leaves the netlist, HRef.is_valid says that no path rooted at
the top instance is valid any more, and get_hports / get_hpins / get_hcables / get_hwires agree: they return nothing, for every
root.  get_hinstances (spydrnet/util/get_hinstances.py: the Netlist branch calls _update_namemap without the is_valid test the other
four have; the Definition / Instance / Library / element branches go through HRef.get_all_hrefs_of_instances, which takes the netlist
from whichever instance it looks at first) still enumerates the instances below the top - references whose is_valid is False.

run: PYTHONPATH=/repo /venv/bin/python /verif/findings/str-D-hinstances-top-outside-netlist.py     (exit 1 = defect present)
"""
import sys
import spydrnet as sdn

n = sdn.Netlist(name='n')
prims = n.create_library(name='prims')
leaf = prims.create_definition(name='leaf')
leaf.create_port(name='a', pins=1)
work = n.create_library(name='work')
top = work.create_definition(name='top')
u0 = top.create_child(name='u0', reference=leaf)
top.create_cable(name='c', wires=1)
n.set_top_instance(top, instance_name='top')

n.remove_library(work)           # same with work.remove_definition(top)
bad = 0
for label, fn in (('get_hports', sdn.get_hports), ('get_hpins', sdn.get_hpins), ('get_hcables', sdn.get_hcables), ('get_hwires', sdn.get_hwires)):
    print('%s(netlist, recursive=True) -> %r' % (label, list(fn(n, recursive=True))))
for rk, root in (('netlist', n), ('definition leaf', leaf), ('instance u0', u0), ('library prims', prims), ('port leaf.a', leaf.ports[0])):
    res = list(sdn.get_hinstances(root, recursive=True))
    print('get_hinstances(%s) -> %r   is_valid: %r' % (rk, res, [h.is_valid for h in res]))
    bad += sum(1 for h in res if not h.is_valid)
print('DEFECT: get_hinstances returned %d references that report is_valid False' % bad if bad else 'OK')
sys.exit(1 if bad else 0)
