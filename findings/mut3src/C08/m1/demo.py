"""C08 demo: "After uniquify, every non-leaf instance reachable from the top instance is the only
instance of its definition" - the scope explicitly includes pass-through cells.

`feed` is a pass-through (wire-only) cell: port I is tied to port O by an inner cable, it has no
child instances.  It is not a leaf (it has contents), and it is instanced twice under the top and
once more inside `mid`.
"""
import spydrnet as sdn
from spydrnet.uniquify import uniquify

netlist = sdn.Netlist(name="design")
lib = netlist.create_library(name="work")

buf = lib.create_definition(name="BUF")            # a real leaf cell
buf.create_port(name="I", direction=sdn.IN).create_pin()
buf.create_port(name="O", direction=sdn.OUT).create_pin()


def connect(definition, cable_name, pins):
    wire = definition.create_cable(name=cable_name).create_wire()
    for pin in pins:
        wire.connect_pin(pin)


feed = lib.create_definition(name="feed")          # pass-through cell: I --- O
f_i = feed.create_port(name="I", direction=sdn.IN)
f_o = feed.create_port(name="O", direction=sdn.OUT)
f_i.create_pin()
f_o.create_pin()
connect(feed, "thru", [f_i.pins[0], f_o.pins[0]])

mid = lib.create_definition(name="mid")
m_i = mid.create_port(name="I", direction=sdn.IN)
m_o = mid.create_port(name="O", direction=sdn.OUT)
m_i.create_pin()
m_o.create_pin()
m_f = mid.create_child(name="f", reference=feed)
m_b = mid.create_child(name="b", reference=buf)
connect(mid, "n0", [m_i.pins[0], m_f.pins[f_i.pins[0]]])
connect(mid, "n1", [m_f.pins[f_o.pins[0]], m_b.pins[buf.ports[0].pins[0]]])
connect(mid, "n2", [m_b.pins[buf.ports[1].pins[0]], m_o.pins[0]])

top = lib.create_definition(name="top")
t_i = top.create_port(name="I", direction=sdn.IN)
t_o = top.create_port(name="O", direction=sdn.OUT)
t_i.create_pin()
t_o.create_pin()
f0 = top.create_child(name="f0", reference=feed)
f1 = top.create_child(name="f1", reference=feed)
m0 = top.create_child(name="m0", reference=mid)
connect(top, "a", [t_i.pins[0], f0.pins[f_i.pins[0]]])
connect(top, "b", [f0.pins[f_o.pins[0]], f1.pins[f_i.pins[0]]])
connect(top, "c", [f1.pins[f_o.pins[0]], m0.pins[m_i.pins[0]]])
connect(top, "d", [m0.pins[m_o.pins[0]], t_o.pins[0]])
top_i = sdn.Instance(name="top_i")
top_i.reference = top
netlist.top_instance = top_i

assert not feed.is_leaf(), "a cell with an inner cable is not a leaf cell"

uniquify(netlist)

# walk every instance reachable from the top
seen = {}
stack = [("", c) for c in netlist.top_instance.reference.children]
while stack:
    prefix, inst = stack.pop()
    path = prefix + inst.name
    ref = inst.reference
    if not ref.is_leaf():
        assert len(ref.references) == 1 and id(ref) not in seen, (
            "C08 violated: after uniquify the non-leaf (pass-through) instance '%s' is not the only "
            "instance of its definition '%s' (%d instances: %s)"
            % (path, ref.name, len(ref.references), sorted(r.name for r in ref.references))
        )
        seen[id(ref)] = path
    stack.extend((path + "/", c) for c in ref.children)

names = [d.name for d in lib.definitions]
assert len(names) == len(set(names)), "definition names are not unique: %r" % names
print("definitions after uniquify:", names)
print("OK")
