"""C08 demo: "newly created definitions have fresh unique names in the original's library" - the
scope includes definitions instanced across libraries.

Library `cells` holds the hierarchical cell `pair` (two BUF leaves in series); library `work` holds
the top, which instantiates `pair` three times.  Uniquify must create the two extra copies of `pair`
in `cells`, the library of the original `pair`, and must leave `work` with the top only.
"""
import spydrnet as sdn
from spydrnet.uniquify import uniquify

netlist = sdn.Netlist(name="design")
cells = netlist.create_library(name="cells")
work = netlist.create_library(name="work")

buf = cells.create_definition(name="BUF")
b_i = buf.create_port(name="I", direction=sdn.IN)
b_o = buf.create_port(name="O", direction=sdn.OUT)
b_i.create_pin()
b_o.create_pin()


def connect(definition, cable_name, pins):
    wire = definition.create_cable(name=cable_name).create_wire()
    for pin in pins:
        wire.connect_pin(pin)


pair = cells.create_definition(name="pair")
p_i = pair.create_port(name="I", direction=sdn.IN)
p_o = pair.create_port(name="O", direction=sdn.OUT)
p_i.create_pin()
p_o.create_pin()
x = pair.create_child(name="x", reference=buf)
y = pair.create_child(name="y", reference=buf)
connect(pair, "n0", [p_i.pins[0], x.pins[b_i.pins[0]]])
connect(pair, "n1", [x.pins[b_o.pins[0]], y.pins[b_i.pins[0]]])
connect(pair, "n2", [y.pins[b_o.pins[0]], p_o.pins[0]])

top = work.create_definition(name="top")
t_i = top.create_port(name="I", direction=sdn.IN)
t_o = top.create_port(name="O", direction=sdn.OUT)
t_i.create_pin()
t_o.create_pin()
u = [top.create_child(name="u%d" % k, reference=pair) for k in range(3)]
connect(top, "a", [t_i.pins[0], u[0].pins[p_i.pins[0]]])
connect(top, "b", [u[0].pins[p_o.pins[0]], u[1].pins[p_i.pins[0]]])
connect(top, "c", [u[1].pins[p_o.pins[0]], u[2].pins[p_i.pins[0]]])
connect(top, "d", [u[2].pins[p_o.pins[0]], t_o.pins[0]])
top_i = sdn.Instance(name="top_i")
top_i.reference = top
netlist.top_instance = top_i

before = {lib.name: [d.name for d in lib.definitions] for lib in netlist.libraries}
uniquify(netlist)
after = {lib.name: [d.name for d in lib.definitions] for lib in netlist.libraries}
print("before:", before)
print("after: ", after)

# every instance of the (former) `pair` is unique now
refs = [inst.reference for inst in u]
assert len(set(id(r) for r in refs)) == 3 and all(len(r.references) == 1 for r in refs)

for inst in u:
    d = inst.reference
    assert d.library is cells, (
        "C08 violated: the definition '%s' created for instance '%s' is in library '%s', not in "
        "'cells', the library of the original definition 'pair'"
        % (d.name, inst.name, d.library.name if d.library else None)
    )
assert after["work"] == before["work"], (
    "C08 violated: uniquify put new definitions into library 'work': %r" % after["work"]
)
new_names = [n for n in after["cells"] if n not in before["cells"]]
assert len(new_names) == 2 and len(set(after["cells"])) == len(after["cells"]), (
    "C08 violated: expected two fresh, unique names in library 'cells', got %r" % after["cells"]
)
print("OK")
