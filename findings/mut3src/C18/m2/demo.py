"""C18 demo: the parsed netlist has one instance per .subckt with the named model as its
definition, black-box models end up as leaf primitives, and the result is well-formed and
self-contained.

Here the black-box model AND2 is declared BEFORE the model that uses it (a library-first file).
After parsing, the instances that reference AND2 must be exactly the two .subckt AND2
statements of 'top', and every instance known to any definition must live inside a definition
of the netlist (or be the top instance)."""
import os
import tempfile
import spydrnet as sdn

SRC = """# cell library first
.model AND2
.inputs A B
.outputs Y
.blackbox
.end

.model top
.inputs a b c
.outputs y
.subckt AND2 A=a B=b Y=n1
.cname u1
.subckt AND2 A=n1 B=c Y=y
.cname u2
.end
"""
path = os.path.join(tempfile.mkdtemp(), "lib_first.eblif")
with open(path, "w") as f:
    f.write(SRC)
netlist = sdn.parse(path)

top = netlist.top_instance.reference
assert top.name == "top" and netlist.name == "top", "wrong top model: %s" % top.name
and2 = next(netlist.get_definitions("AND2"))
assert and2.library.name == "hdi_primitives" and and2.is_leaf(), "black box AND2 is not a leaf primitive"

all_definitions = set(d for lib in netlist.libraries for d in lib.definitions)
for d in all_definitions:
    for inst in d.references:
        ok = inst is netlist.top_instance or (inst.parent in all_definitions and inst in inst.parent.children)
        assert ok, (
            "not well-formed / self-contained: definition %s is referenced by instance %r that is neither "
            "the top instance nor a child of any definition of the netlist" % (d.name, inst.name)
        )
users = sorted(i.name for i in and2.references)
assert users == ["u1", "u2"], (
    "expected one instance per '.subckt AND2' (u1, u2) with AND2 as its definition, found %r" % users
)
print("OK: AND2 is a leaf primitive referenced exactly by u1 and u2; netlist is self-contained")
