"""C18 demo: EBLIF is read faithfully - every formal=actual pair is joined to the named net,
with .conn merging the two nets; the result is well-formed.

Net n1 is driven by u1.Y and read by u2.A, net n2 is read by u3.I, and '.conn n1 n2' merges
them.  After parsing, u1.Y, u2.A and u3.I must all sit on one and the same wire, and every
connected pin must be on a wire that belongs to a cable of the model."""
import os
import tempfile
import spydrnet as sdn

SRC = """.model top
.inputs a b c
.outputs y z
.subckt AND2 A=a B=b Y=n1
.cname u1
.subckt AND2 A=n1 B=c Y=y
.cname u2
.subckt BUF I=n2 O=z
.cname u3
.conn n1 n2
.end
"""
path = os.path.join(tempfile.mkdtemp(), "conn.eblif")
with open(path, "w") as f:
    f.write(SRC)
netlist = sdn.parse(path)
top = netlist.top_instance.reference


def pin_of(inst_name, port_name):
    inst = next(top.get_instances(inst_name))
    return next(p for p in inst.pins.values() if p.inner_pin.port.name == port_name)


driver = pin_of("u1", "Y")
sink_a = pin_of("u2", "A")
sink_b = pin_of("u3", "I")
for pin, label in ((driver, "u1.Y"), (sink_a, "u2.A"), (sink_b, "u3.I")):
    assert pin.wire is not None, "%s is not connected at all" % label
    assert pin.wire.cable is not None and pin.wire.cable.definition is top, (
        "not well-formed: %s sits on a wire that belongs to no cable of the model" % label
    )
assert driver.wire is sink_a.wire is sink_b.wire, (
    ".conn n1 n2 did not merge the two nets: u1.Y, u2.A (net n1) and u3.I (net n2) are not on one wire"
)
merged = set(driver.wire.pins)
assert merged == {driver, sink_a, sink_b}, "merged net has the wrong set of pins: %r" % merged
print("OK: .conn merged n1 and n2 into one net with pins u1.Y, u2.A, u3.I")
