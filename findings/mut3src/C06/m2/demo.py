"""C06 demo: every instance connection expression joins bit k of the expression (counted from its
least significant end) to bit k of the instance port, "for named and positional port maps alike",
for expression "widths up to the port width".

A 4-bit port is driven by 2-bit expressions (a part-select and a concatenation), once through a
named port map and once through a positional one.  Both instances must be wired identically:
expression bit 0 -> port bit 0, expression bit 1 -> port bit 1, port bits 2 and 3 unconnected.
"""
import os
import tempfile
import spydrnet as sdn

SRC = """
module sub (input [3:0] d, output [3:0] q);
endmodule

module top (input [7:0] a, input c, output [7:0] y);
  wire [5:2] w;
  sub by_name (.d(a[5:4]), .q({w[3], c}));
  sub by_pos  (a[5:4], {w[3], c});
endmodule
"""

with tempfile.TemporaryDirectory() as d:
    path = os.path.join(d, "partial.v")
    with open(path, "w") as f:
        f.write(SRC)
    netlist = sdn.parse(path)

top = netlist.top_instance.reference
assert top.name == "top"


def bit_name(wire):
    if wire is None:
        return None
    cable = wire.cable
    return "%s[%d]" % (cable.name, cable.lower_index + cable.wires.index(wire))


def port_map(instance):
    """port name -> list, indexed by port bit k, of the net bit joined to that port bit"""
    result = {}
    for port in instance.reference.ports:
        result[port.name] = [bit_name(instance.pins[pin].wire) for pin in port.pins]
    return result


expected = {
    # expression a[5:4]: bit0 = a[4], bit1 = a[5]
    "d": ["a[4]", "a[5]", None, None],
    # expression {w[3], c}: bit0 = c, bit1 = w[3]
    "q": ["c[0]", "w[3]", None, None],
}
for inst_name in ("by_name", "by_pos"):
    inst = next(top.get_instances(inst_name))
    got = port_map(inst)
    print(inst_name, got)
    assert got == expected, (
        "C06 violated for instance %s: bit k of the connection expression is not joined to bit k "
        "of the instance port: got %r, expected %r" % (inst_name, got, expected)
    )
print("OK")
