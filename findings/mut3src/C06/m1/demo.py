"""C06 demo: 'the single root module of the design becomes the top', for any module order.

Design: root -> mid -> low -> leaf (each level instantiates the next one once).
The file lists the modules in the order  leaf, root, mid, low  (legal Verilog: modules may be
used before their declaration).  The reader must make `root` the top, and the netlist must be
self-contained (every module reachable from the top, the top not instantiated anywhere).
"""
import os
import tempfile
import spydrnet as sdn

SRC = """
module leaf (input a, output y);
endmodule

module root (input a, output y);
  mid u_mid (.a(a), .y(y));
endmodule

module mid (input a, output y);
  low u_low (.a(a), .y(y));
endmodule

module low (input a, output y);
  leaf u_leaf (.a(a), .y(y));
endmodule
"""

with tempfile.TemporaryDirectory() as d:
    path = os.path.join(d, "order.v")
    with open(path, "w") as f:
        f.write(SRC)
    netlist = sdn.parse(path)

top = netlist.top_instance
assert top is not None and top.reference is not None, "no top instance"
top_def = top.reference
print("top module:", top_def.name)

# the root module of the design is the only module that nobody instantiates
roots = [
    d.name
    for lib in netlist.libraries
    for d in lib.definitions
    if not any(r.parent is not None for r in d.references) and d.children
]
print("uninstantiated non-leaf modules:", roots)

assert top_def.name == "root", (
    "C06 violated: the single root module of the design is 'root' but the reader made '%s' "
    "the top" % top_def.name
)
assert not any(r.parent is not None for r in top_def.references), (
    "C06 violated: the top module '%s' is itself instantiated inside the design" % top_def.name
)
# every hierarchical path of the design is reachable from the top
paths = sorted(h.name for h in netlist.get_hinstances(recursive=True))
assert paths == ["u_mid", "u_mid/u_low", "u_mid/u_low/u_leaf"], (
    "C06 violated: hierarchy below the top is %r" % paths
)
print("OK")
