"""C07 demo: "Cloning a ... cable, wire or pin yields a detached copy ... side connections cut ... and
never modifies the source."

A cable whose wires are connected (to a port pin of its definition and to pins of two child
instances) is cloned through the public Cable.clone() / Wire.clone() entry points.  The copy must
be detached, and the ORIGINAL must still be exactly as connected as before.
"""
import spydrnet as sdn

netlist = sdn.Netlist(name="design")
lib = netlist.create_library(name="work")
leaf = lib.create_definition(name="LEAF")
leaf_a = leaf.create_port(name="A")
leaf_a.create_pins(2)

top = lib.create_definition(name="top")
port = top.create_port(name="P")
port.create_pins(2)
u0 = top.create_child(name="u0", reference=leaf)
u1 = top.create_child(name="u1", reference=leaf)
cable = top.create_cable(name="bus")
cable.create_wires(2)
for k in range(2):
    w = cable.wires[k]
    w.connect_pin(port.pins[k])
    w.connect_pin(u0.pins[leaf_a.pins[k]])
    w.connect_pin(u1.pins[leaf_a.pins[k]])


def snapshot():
    """(wire index, pin description, does the pin point back at the wire)"""
    result = []
    for k, w in enumerate(cable.wires):
        for pin in w.pins:
            if isinstance(pin, sdn.OuterPin):
                desc = "%s.%s[%d]" % (pin.instance.name, pin.inner_pin.port.name,
                                      pin.inner_pin.port.pins.index(pin.inner_pin))
            else:
                desc = "%s[%d]" % (pin.port.name, pin.port.pins.index(pin))
            result.append((k, desc, pin.wire is w))
    return result


before = snapshot()
assert all(ok for _, _, ok in before)

cable_copy = cable.clone()
wire_copy = cable.wires[1].clone()

# the copies are detached ...
assert cable_copy.definition is None and cable_copy.name == "bus" and len(cable_copy.wires) == 2
assert all(len(w.pins) == 0 and w.cable is cable_copy for w in cable_copy.wires)
assert wire_copy.cable is None and len(wire_copy.pins) == 0

# ... and the source is untouched
after = snapshot()
broken = [(k, desc) for (k, desc, ok) in after if not ok]
assert not broken, (
    "C07 violated: cloning a cable/wire modified the source - these pins are still listed by the "
    "original wires but no longer point back at them (pin-wire joins broken): %r" % broken
)
assert after == before, "C07 violated: original connectivity changed by cloning"
for k in range(2):
    assert port.pins[k].wire is cable.wires[k], "C07 violated: port pin lost its wire in the source"
    assert u0.pins[leaf_a.pins[k]].wire is cable.wires[k], "C07 violated: instance pin lost its wire"
print("OK")
