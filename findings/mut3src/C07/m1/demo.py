"""C07 demo: a cloned netlist "shares no element with the original" and every link in it - here the
reference sets of its definitions - "resolves inside the copy".

Sequence: first take a detached clone of one definition of the netlist (documented bookkeeping: the
children of the detached copy are added to the reference sets of the shared definitions they
instantiate), then clone the whole netlist.  The netlist clone must only know about its own instances.
"""
import spydrnet as sdn

netlist = sdn.Netlist(name="design")
prims = netlist.create_library(name="prims")
work = netlist.create_library(name="work")

leaf = prims.create_definition(name="LEAF")
leaf_port = leaf.create_port(name="A")
leaf_port.create_pin()

top_def = work.create_definition(name="top")
u0 = top_def.create_child(name="u0", reference=leaf)
u1 = top_def.create_child(name="u1", reference=leaf)
cable = top_def.create_cable(name="n")
wire = cable.create_wire()
wire.connect_pin(u0.pins[leaf_port.pins[0]])
wire.connect_pin(u1.pins[leaf_port.pins[0]])
top_i = sdn.Instance(name="top_i")
top_i.reference = top_def
netlist.top_instance = top_i

# step 1: a detached copy of `top` (kept alive); its two children now also reference LEAF
detached = top_def.clone()
assert detached.library is None
assert len(leaf.references) == 4, "documented bookkeeping of Definition.clone"

# step 2: clone the netlist
copy = netlist.clone()

original_world = set([u0, u1]) | set(detached.children) | {netlist.top_instance}
copy_instances = {copy.top_instance}
for lib in copy.libraries:
    for d in lib.definitions:
        copy_instances.update(d.children)

for lib in copy.libraries:
    for d in lib.definitions:
        refs = set(d.references)
        print("copy of %s: %d references" % (d.name, len(refs)))
        foreign = [r for r in refs if r not in copy_instances]
        assert not foreign, (
            "C07 violated: the reference set of the cloned definition '%s' does not resolve inside "
            "the copy, it holds %d instance(s) that are no part of the cloned netlist: %s"
            % (d.name, len(foreign), [(r.name, r.parent.name if r.parent else None) for r in foreign])
        )
        for r in refs:
            assert r.reference is d, (
                "C07 violated: instance %s sits in the reference set of cloned '%s' but references "
                "another definition" % (r.name, d.name)
            )
        assert not (refs & original_world), "C07 violated: copy shares instances with the original"

copy_leaf = next(copy.get_definitions("LEAF"))
assert len(copy_leaf.references) == len([u0, u1]), (
    "C07 violated: LEAF is instantiated twice in the design but its clone lists %d references"
    % len(copy_leaf.references)
)
print("OK")
