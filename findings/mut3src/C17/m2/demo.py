"""C17 demo: whatever names the elements carry, the exported EDIF file is readable again and
the re-read netlist shows the original names.

The names below use characters that are not legal in EDIF identifiers (slash, backslash as in
escaped Verilog names, brackets, space, $); the writer records each of them as a
(rename <identifier> "<original name>") and the file must parse back to the same names."""
import os
import re
import tempfile
import spydrnet as sdn

LEGAL = re.compile(r"^(?:[A-Za-z][A-Za-z0-9_]{0,254}|&[A-Za-z0-9_]{1,255})$")

netlist = sdn.Netlist(name="design")
prims = netlist.create_library(name="prims")
leaf = prims.create_definition(name="LEAF")
leaf.create_port(name="I", direction=sdn.IN).create_pin()
work = netlist.create_library(name="work")
top = work.create_definition(name="top")
netlist.top_instance = sdn.Instance(name="top")
netlist.top_instance.reference = top

inst_names = ["u/a", "u$a", "u a", "\\u<1> ", "U/A"]
cable_names = ["n/x", "\\n.x ", "n x"]
port_names = ["p-1", "a\\b"]
for n in inst_names:
    top.create_child(name=n, reference=leaf)
for n in cable_names:
    top.create_cable(name=n).create_wire()
for n in port_names:
    top.create_port(name=n, direction=sdn.IN).create_pin()

out = os.path.join(tempfile.mkdtemp(), "out.edf")
sdn.compose(netlist, out)
for siblings in (top.children, top.cables, top.ports):
    ids = [e["EDIF.identifier"] for e in siblings]
    assert all(LEGAL.match(i) for i in ids), "illegal identifier among %r" % ids
    assert len(set(i.lower() for i in ids)) == len(ids), "identifiers collide ignoring case: %r" % ids

try:
    reread = sdn.parse(out)
except Exception as e:  # noqa
    raise AssertionError("the exported EDIF file is not readable again: %r" % (e,))
top2 = next(reread.get_definitions("top"))
assert sorted(i.name for i in top2.children) == sorted(inst_names), "instance names changed on re-read"
assert sorted(c.name for c in top2.cables) == sorted(cable_names), "net names changed on re-read"
assert sorted(p.name for p in top2.ports) == sorted(port_names), "port names changed on re-read"
print("OK: exported file is readable and shows the original names")
