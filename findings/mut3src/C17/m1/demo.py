"""C17 demo: the EDIF writer gives every object a legal, case-insensitively unique identifier.

Eleven sibling instances carry long names (260 characters) that differ only in letter case, so
their EDIF identifiers collide after truncation and get the postfixes _sdn_1_ ... _sdn_10_.
A second scope has a pre-existing name of the form x_sdn_9_ of maximal length plus a longer
name that truncates onto it.  Every identifier must be accepted by the EDIF naming rules
(a letter followed by at most 254 letters/digits/_, or & followed by at most 255), be unique
ignoring case among its siblings, and the file must read back with the original names."""
import os
import re
import tempfile
import spydrnet as sdn

LEGAL = re.compile(r"^(?:[A-Za-z][A-Za-z0-9_]{0,254}|&[A-Za-z0-9_]{1,255})$")

netlist = sdn.Netlist(name="design")
prims = netlist.create_library(name="prims")
leaf = prims.create_definition(name="LEAF")
leaf.create_port(name="I", direction=sdn.IN).create_pin()
work = netlist.create_library(name="work")
top = work.create_definition(name="top")
netlist.top_instance = sdn.Instance(name="top")
netlist.top_instance.reference = top

base = "n" * 260
inst_names = [base[:i] + "N" + base[i + 1:] for i in range(11)]
for n in inst_names:
    top.create_child(name=n, reference=leaf)

cable_names = ["c" * 248 + "_sdn_9_", "c" * 248 + "_sdn_9_" + "xyz"]
for n in cable_names:
    top.create_cable(name=n).create_wire()

out = os.path.join(tempfile.mkdtemp(), "out.edf")
sdn.compose(netlist, out)

for what, siblings in (("instance", list(top.children)), ("net", list(top.cables))):
    seen = {}
    for e in siblings:
        ident = e["EDIF.identifier"]
        assert LEGAL.match(ident), (
            "%s %s...: identifier is not a legal EDIF identifier (length %d): %s...%s"
            % (what, e.name[:12], len(ident), ident[:10], ident[-12:])
        )
        assert ident.lower() not in seen, "%s identifiers collide ignoring case: %s" % (what, ident[-20:])
        seen[ident.lower()] = e

reread = sdn.parse(out)
top2 = next(reread.get_definitions("top"))
assert sorted(i.name for i in top2.children) == sorted(inst_names), "instance names changed on re-read"
assert sorted(c.name for c in top2.cables) == sorted(cable_names), "net names changed on re-read"
print("OK: all identifiers legal and unique ignoring case; original names recovered")
