"""C16 demo: writing a netlist as EDIF must leave its user data as it was.

An instance carries several EDIF properties (as every Vivado netlist does) in the order
the user / the source file gave them.  After composing to EDIF the 'EDIF.properties'
entry must be exactly what it was before (same properties in the same order); the only
data the EDIF writer may add are its generated identifiers."""
import copy
import os
import tempfile
import spydrnet as sdn

netlist = sdn.Netlist(name="design")
prims = netlist.create_library(name="hdi_primitives")
lut = prims.create_definition(name="LUT2")
for n, d in (("I0", sdn.IN), ("I1", sdn.IN), ("O", sdn.OUT)):
    lut.create_port(name=n, direction=d).create_pin()
work = netlist.create_library(name="work")
top = work.create_definition(name="top")
netlist.set_top_instance(top, instance_name="top")
u1 = top.create_child(name="u1", reference=lut)
u1["EDIF.properties"] = [
    {"identifier": "SOFT_HLUTNM", "value": "soft_lutpair3"},
    {"identifier": "INIT", "value": "4'h8"},
    {"identifier": "BOX_TYPE", "value": "PRIMITIVE"},
]
for n in ("a", "b", "y"):
    p = top.create_port(name=n, direction=sdn.OUT if n == "y" else sdn.IN)
    pin = p.create_pin()
    w = top.create_cable(name=n).create_wire()
    w.connect_pin(pin)
    w.connect_pin(u1.pins[lut.ports[("a", "b", "y").index(n)].pins[0]])


def user_data(nl):
    """all data of all elements, without the identifiers the EDIF writer is allowed to record"""
    snap = []
    elements = [nl, nl.top_instance]
    for lib in nl.libraries:
        elements.append(lib)
        for d in lib.definitions:
            elements.append(d)
            elements += list(d.ports) + list(d.cables) + list(d.children)
    for e in elements:
        d = {k: v for k, v in dict(e.data).items() if k not in ("EDIF.identifier", "EDIF.rename")}
        snap.append(copy.deepcopy(d))
    return snap


before = user_data(netlist)
tmp = tempfile.mkdtemp()
out1 = os.path.join(tmp, "o1.edf")
sdn.compose(netlist, out1)
after = user_data(netlist)
for b, a in zip(before, after):
    assert b == a, (
        "composing to EDIF changed user data of an element:\n  before: %r\n  after:  %r" % (b, a)
    )
print("OK: EDIF compose left all user data (including the order of EDIF.properties) unchanged")
