"""C16 demo: writing a netlist as EBLIF must not change its user data and must be repeatable.

A netlist that carries file comments (every netlist read from an .eblif file has the
'EBLIF.comment' entry) is composed twice; its data must be unchanged and both texts equal."""
import copy
import os
import tempfile
import spydrnet as sdn

SRC = """# a hand written design
# second comment line
.model top
.inputs a b
.outputs y
.subckt AND2 A=a B=b Y=y
.cname u1
.end

.model AND2
.inputs A B
.outputs Y
.blackbox
.end
"""

tmp = tempfile.mkdtemp()
src = os.path.join(tmp, "in.eblif")
with open(src, "w") as f:
    f.write(SRC)
netlist = sdn.parse(src)

assert "EBLIF.comment" in netlist, "parser is expected to record the comments of the file"
data_before = copy.deepcopy(dict(netlist.data))

out1 = os.path.join(tmp, "out1.eblif")
out2 = os.path.join(tmp, "out2.eblif")
sdn.compose(netlist, out1)
data_after = dict(netlist.data)
assert data_after == data_before, (
    "composing to EBLIF changed the user data of the netlist:\n  before: %r\n  after:  %r"
    % (data_before, data_after)
)
# some queries in between
list(netlist.get_hinstances(recursive=True))
list(netlist.get_cables())
sdn.compose(netlist, out2)
text1 = open(out1).read()
text2 = open(out2).read()
assert text1 == text2, (
    "composing the same netlist to EBLIF twice produced different text:\n--- first\n%s\n--- second\n%s"
    % (text1[:300], text2[:300])
)
print("OK: EBLIF compose left the netlist data unchanged and is repeatable")
