"""C04 demo: Verilog write-then-read keeps the same bit-level connections, including
concatenations of bits taken from DIFFERENT nets (and constants) whose bit indices happen
to continue each other: {q[1], a[0]}, {w[3], n2[2]}, {d[1], 1'b0}."""
import os
import sys
import tempfile
import spydrnet as sdn

ASSIGN_LIB = "SDN_VERILOG_ASSIGNMENT"


def wire_key(w):
    return (w.cable.name, w.cable.lower_index + w.cable.wires.index(w))


def describe(netlist):
    """Name based description of what C04 talks about: modules, ports, wires, instances
    (module, parameters, attributes), bit-level connections, assigns per width."""
    out = {"top": netlist.top_instance.reference.name}
    for lib in netlist.libraries:
        if lib.name == ASSIGN_LIB:
            continue
        for d in lib.definitions:
            m = {}
            m["ports"] = [(p.name, p.direction.name, len(p.pins), p.lower_index) for p in d.ports]
            m["cables"] = sorted((c.name, len(c.wires), c.lower_index) for c in d.cables)
            m["module attributes"] = dict(d.data.get("VERILOG.InlineConstraints") or {})
            m["wire attributes"] = sorted(
                (c.name, sorted((c.data.get("VERILOG.InlineConstraints") or {}).items(), key=str))
                for c in d.cables if c.data.get("VERILOG.InlineConstraints")
            )
            insts, assigns = [], []
            for c in d.children:
                conn = []
                for port in c.reference.ports:
                    for i, ip in enumerate(port.pins):
                        w = c.pins[ip].wire
                        conn.append((port.name, i, wire_key(w) if w is not None else None))
                if c.reference.library.name == ASSIGN_LIB:
                    assigns.append((len(c.reference.ports[0].pins), tuple(conn)))
                else:
                    insts.append((
                        c.name, c.reference.name,
                        sorted((c.data.get("VERILOG.Parameters") or {}).items()),
                        sorted((c.data.get("VERILOG.InlineConstraints") or {}).items(), key=str),
                        tuple(conn),
                    ))
            m["instances"] = sorted(insts, key=lambda t: t[0])
            m["assigns"] = sorted(assigns, key=str)
            m["port bits"] = [
                (p.name, i, wire_key(ip.wire) if ip.wire is not None else None)
                for p in d.ports for i, ip in enumerate(p.pins)
            ]
            out[d.name] = m
    return out


def first_differences(a, b, limit=3):
    msgs = []
    for k in sorted(set(a) | set(b), key=str):
        if a.get(k) == b.get(k):
            continue
        if isinstance(a.get(k), dict) and isinstance(b.get(k), dict):
            for f in a[k]:
                if a[k][f] != b[k].get(f):
                    x, y = a[k][f], b[k].get(f)
                    if isinstance(x, list) and isinstance(y, list) and len(x) == len(y):
                        for u, v in zip(x, y):
                            if u != v:
                                msgs.append("module %s, %s: %r  became  %r" % (k, f, u, v))
                    else:
                        msgs.append("module %s, %s: %r  became  %r" % (k, f, x, y))
        else:
            msgs.append("%s: %r became %r" % (k, a.get(k), b.get(k)))
    return msgs[:limit]


def round_trip(text, transform=None):
    tmp = tempfile.mkdtemp()
    src = os.path.join(tmp, "f.v")
    with open(src, "w") as fh:
        fh.write(text)
    netlist = sdn.parse(src)
    if transform is not None:
        netlist = transform(netlist) or netlist
    want = describe(netlist)
    out = os.path.join(tmp, "g.v")
    sdn.compose(netlist, out)
    try:
        back = sdn.parse(out)
    except Exception as e:  # the text written must always be accepted by the reader
        raise AssertionError(
            "the Verilog text written is NOT accepted by the reader: %s: %s" % (type(e).__name__, e)
        )
    got = describe(back)
    assert got == want, "write-then-read changed the netlist: " + " || ".join(first_differences(want, got))
    return want

VERILOG = r"""
module top(a, b, q, y);
  input [3:0] a;
  input b;
  input [1:0] q;
  output [2:0] y;
  wire [4:2] w;
  wire [3:2] n2;
  wire n;
  assign n = b;
  sub u0 (.i(a[3:2]), .j({q[1], a[0]}), .k(n), .o(y[0]));
  sub u1 (.i({w[3], n2[2]}), .j({q[1], 1'b0}), .k(), .o(y[1]));
  sub u2 (.i({a[1], a[0]}), .j({q[0], q[1]}), .k(1'b1), .o(y[2]));
  sub u3 (.i(w[4:3]), .j({n, b}), .k(b), .o(w[2]));
endmodule

module sub(i, j, k, o);
  input [1:0] i;
  input [1:0] j;
  input k;
  output o;
endmodule
"""


def main():
    want = round_trip(VERILOG)
    u0 = [i for i in want["top"]["instances"] if i[0] == "u0"][0]
    # sanity: the reader joined j[0] to a[0] and j[1] to q[1]
    assert ("j", 0, ("a", 0)) in u0[4] and ("j", 1, ("q", 1)) in u0[4], u0
    # the same for a clone of the parsed netlist
    round_trip(VERILOG, transform=lambda n: n.clone())
    print("C04 ok: concatenations of bits from different nets survive write-then-read")


if __name__ == "__main__":
    try:
        main()
    except AssertionError as e:
        print("C04 VIOLATION:", e)
        sys.exit(1)
