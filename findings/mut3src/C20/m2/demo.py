"""C20 demo: the comparer rejects a copy in which a net touches another bit of a port.

Cell 'top' has a two bit input port d; bit 0 drives net 'x' (which feeds u1.A), bit 1 is
unused.  In the clone the connection is moved from d[0] to d[1].  Comparing the netlist with
the unmodified clone must not raise; comparing it with the modified clone must raise."""
import spydrnet as sdn
from spydrnet.compare.compare_netlists import Comparer


def build():
    netlist = sdn.Netlist(name="design")
    prims = netlist.create_library(name="prims")
    buf = prims.create_definition(name="BUF")
    buf.create_port(name="A", direction=sdn.IN, pins=1)
    buf.create_port(name="Y", direction=sdn.OUT, pins=1)
    work = netlist.create_library(name="work")
    top = work.create_definition(name="top")
    top_instance = sdn.Instance(name="top")
    top_instance.reference = top
    netlist.top_instance = top_instance
    d = top.create_port(name="d", direction=sdn.IN, pins=2)
    y = top.create_port(name="y", direction=sdn.OUT, pins=1)
    u1 = top.create_child(name="u1", reference=buf)
    a_pin, y_pin = (u1.pins[p.pins[0]] for p in buf.ports)
    x = top.create_cable(name="x", wires=1).wires[0]
    x.connect_pin(d.pins[0])
    x.connect_pin(a_pin)
    out = top.create_cable(name="y", wires=1).wires[0]
    out.connect_pin(y_pin)
    out.connect_pin(y.pins[0])
    return netlist


def raises(a, b):
    try:
        Comparer(a, b).compare()
    except Exception:  # the comparer reports differences by raising
        return True
    return False


original = build()
assert not raises(original, original.clone()), "the comparer rejected a faithful clone"

moved = original.clone()
top = next(moved.get_definitions("top"))
d = next(top.get_ports("d"))
x = next(top.get_cables("x")).wires[0]
x.disconnect_pin(d.pins[0])
x.connect_pin(d.pins[1], position=0)
assert d.pins[0].wire is None and d.pins[1].wire is x

assert raises(original, moved), (
    "the comparer accepted a copy in which net 'x' touches bit 1 of port d instead of bit 0 "
    "(one connection moved to another bit)"
)
assert raises(moved, original), "the comparer accepted the moved connection (arguments swapped)"
print("OK: faithful clone accepted, connection moved to another port bit rejected")
