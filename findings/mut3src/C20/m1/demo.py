"""C20 demo: the comparer accepts a faithful copy and rejects a copy in which one connection
was moved to another instance.

top contains two instances u1, u2 of the same cell AND2.  In the clone, net 'b' is moved from
pin B of u1 to pin B of u2 (same port, same bit, other instance).  Comparing the netlist with
the unmodified clone must not raise; comparing it with the modified clone must raise."""
import spydrnet as sdn
from spydrnet.compare.compare_netlists import Comparer


def build():
    netlist = sdn.Netlist(name="design")
    prims = netlist.create_library(name="prims")
    and2 = prims.create_definition(name="AND2")
    for n, d in (("A", sdn.IN), ("B", sdn.IN), ("Y", sdn.OUT)):
        and2.create_port(name=n, direction=d, pins=1)
    work = netlist.create_library(name="work")
    top = work.create_definition(name="top")
    top_instance = sdn.Instance(name="top")
    top_instance.reference = top
    netlist.top_instance = top_instance
    u1 = top.create_child(name="u1", reference=and2)
    u2 = top.create_child(name="u2", reference=and2)
    pa, pb, pc, py = (top.create_port(name=n, direction=d, pins=1) for n, d in
                      (("a", sdn.IN), ("b", sdn.IN), ("c", sdn.IN), ("y", sdn.OUT)))

    def net(name, *pins):
        wire = top.create_cable(name=name, wires=1).wires[0]
        for pin in pins:
            wire.connect_pin(pin)

    port = {p.name: p for p in and2.ports}
    net("a", pa.pins[0], u1.pins[port["A"].pins[0]])
    net("b", pb.pins[0], u1.pins[port["B"].pins[0]])   # u2.B is left unconnected
    net("n", u1.pins[port["Y"].pins[0]], u2.pins[port["A"].pins[0]])
    net("c", pc.pins[0])
    net("y", py.pins[0], u2.pins[port["Y"].pins[0]])
    return netlist


def raises(a, b):
    try:
        Comparer(a, b).compare()
    except Exception:  # the comparer reports differences by raising
        return True
    return False


original = build()
faithful = original.clone()
assert not raises(original, faithful), "the comparer rejected a faithful clone"

moved = original.clone()
top = next(moved.get_definitions("top"))
u1 = next(top.get_instances("u1"))
u2 = next(top.get_instances("u2"))
wire_b = next(top.get_cables("b")).wires[0]
pin_b_of = lambda inst: next(p for p in inst.pins if p.inner_pin.port.name == "B")
wire_b.disconnect_pin(pin_b_of(u1))
wire_b.connect_pin(pin_b_of(u2))
assert [p.instance.name for p in wire_b.pins if isinstance(p, sdn.OuterPin)] == ["u2"]

assert raises(original, moved), (
    "the comparer accepted a copy in which net 'b' touches instance u2 instead of u1 "
    "(one connection moved to another instance)"
)
assert raises(moved, original), "the comparer accepted the moved connection (arguments swapped)"
print("OK: faithful clone accepted, moved connection rejected")
