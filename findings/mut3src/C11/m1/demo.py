"""C11 demo: hierarchical instance references must be enumerated exactly once
(no duplicates), also when the query roots are a mixed collection."""
import sys
import spydrnet as sdn

netlist = sdn.Netlist(name="n")
lib = netlist.create_library(name="work")
leaf = lib.create_definition(name="leaf")
mid = lib.create_definition(name="mid")
top = lib.create_definition(name="top")
mid.create_child(name="l0", reference=leaf)
mid.create_child(name="l1", reference=leaf)
a = top.create_child(name="a", reference=mid)
b = top.create_child(name="b", reference=mid)
netlist.top_instance = sdn.Instance(name="top_inst")
netlist.top_instance.reference = top

for recursive in (False, True):
    expected = set(sdn.get_hinstances(netlist, recursive=recursive))
    # roots: the netlist AND one of the instances that the netlist query returns anyway
    for roots in ([netlist, a], [a, netlist], [netlist, mid], [netlist.top_instance.reference, netlist]):
        result = list(sdn.get_hinstances(list(roots), recursive=recursive))
        names = sorted(x.name for x in result)
        assert all(x.is_valid for x in result), "invalid reference returned"
        assert len(result) == len(set(result)), (
            "get_hinstances(recursive=%s) returned an occurrence more than once "
            "(duplicates): %s" % (recursive, names)
        )
        assert len(set(id(x) for x in result)) == len(result), "same object returned twice: %s" % names
        assert expected <= set(result), "omission: %s" % names
print("OK: every occurrence exactly once")
sys.exit(0)
