"""C11 demo: every hierarchical reference handed out by a query is reported valid,
and references agree with the current netlist after an edit that breaks paths
(here: the definition of the top instance is taken out of its library)."""
import sys
import spydrnet as sdn
from spydrnet.util.hierarchical_reference import HRef

netlist = sdn.Netlist(name="n")
lib = netlist.create_library(name="work")
leaf = lib.create_definition(name="leaf")
leaf.create_port(name="p").create_pins(2)
mid = lib.create_definition(name="mid")
l0 = mid.create_child(name="l0", reference=leaf)
c = mid.create_cable(name="c")
c.create_wires(2)
top = lib.create_definition(name="top")
a = top.create_child(name="a", reference=mid)
b = top.create_child(name="b", reference=mid)
netlist.top_instance = sdn.Instance(name="top_inst")
netlist.top_instance.reference = top

before = list(sdn.get_hinstances(mid))
assert sorted(x.name for x in before) == ["a", "b"] and all(x.is_valid for x in before)

# edit: the top definition leaves the netlist -> no path below the top instance exists any more
lib.remove_definition(top)
assert HRef.from_parent_and_item(None, netlist.top_instance).is_valid is False
assert all(x.is_valid is False for x in before), "old references must now report invalid"

roots = {"definition mid": mid, "instance l0": l0, "instance a": a, "outer pin": next(iter(l0.pins.values())),
         "port": leaf.ports[0], "cable": c, "wire": c.wires[0], "library": lib}
for what, root in roots.items():
    for query in (sdn.get_hinstances, HRef.get_all_hrefs_of_item):
        result = list(query(root))
        bad = [x.name for x in result if x.is_valid is False]
        assert not bad, (
            "%s(%s) returned references that report INVALID (the elaborated design is empty "
            "after the edit): %s" % (query.__name__, what, bad)
        )
        assert result == [], "%s(%s) should be empty, got %s" % (query.__name__, what, [x.name for x in result])
print("OK: no reference is handed out for a design whose top is not part of the netlist")
sys.exit(0)
