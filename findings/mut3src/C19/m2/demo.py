"""C19 demo: every change made through the public editing API to element data is announced to
registered listeners before it takes effect, so a listener that replays the announcements holds
an exact mirror of all elements' data.

The mirror listener below replays dictionary_set / dictionary_delete / dictionary_pop.  A named
definition is then un-named with `definition.name = None` (the documented way to clear a name,
next to `del definition.name`)."""
import spydrnet as sdn
from spydrnet.callback.callback_listener import CallbackListener


class DataMirror(CallbackListener):
    def __init__(self):
        self.data = {}
        super().__init__()

    def dictionary_set(self, element, key, value):
        self.data.setdefault(id(element), {})[key] = value

    def dictionary_delete(self, element, key):
        del self.data[id(element)][key]

    def dictionary_pop(self, element, key):
        del self.data[id(element)][key]


first = DataMirror()
second = DataMirror()  # several listeners, registered one after the other

netlist = sdn.Netlist(name="n")
lib = netlist.create_library(name="work")
cell = lib.create_definition(name="adder")
cell["keep"] = 1
cell.name = "adder2"
cell.name = None  # clear the name

assert cell.name is None and ".NAME" not in cell
for which, mirror in (("first", first), ("second", second)):
    mirrored = mirror.data.get(id(cell), {})
    assert mirrored == dict(cell.data), (
        "%s listener: replaying the announcements gives data %r for the definition, but its data "
        "really is %r - clearing the name was not announced" % (which, mirrored, dict(cell.data))
    )

# the library's own name index is a listener too: with the old name released, it can be re-used
other = lib.create_definition(name="adder2")
assert other.name == "adder2"
del cell.name
print("OK: un-naming an element is announced; mirrors match and the name can be re-used")
