"""C19 demo: listeners are told of every structural change before it happens, so a listener
that merely replays the announcements holds an exact mirror; and no announcement is made for
a change that does not then happen.

A mirror listener tracks the pins of every port and the pins on every wire.  Pins are then
removed from a port with the bulk call Port.remove_pins_from, once with a generator argument
(the usual 'all pins such that ...' idiom) and once with a list that names a pin twice."""
import spydrnet as sdn
from spydrnet.callback.callback_listener import CallbackListener


class Mirror(CallbackListener):
    def __init__(self):
        self.port_pins = {}
        self.wire_pins = {}
        self.log = []
        super().__init__()

    def port_add_pin(self, port, pin):
        self.port_pins.setdefault(port, []).append(pin)

    def port_remove_pin(self, port, pin):
        self.log.append(("port_remove_pin", pin))
        self.port_pins[port].remove(pin)  # replaying a removal that cannot happen raises

    def wire_connect_pin(self, wire, pin):
        self.wire_pins.setdefault(wire, set()).add(pin)

    def wire_disconnect_pin(self, wire, pin):
        self.wire_pins[wire].discard(pin)


mirror = Mirror()

netlist = sdn.Netlist(name="n")
lib = netlist.create_library(name="work")
leaf = lib.create_definition(name="leaf")
bus = leaf.create_port(name="d", direction=sdn.IN, pins=4)
top = lib.create_definition(name="top")
u = top.create_child(name="u", reference=leaf)
cable = top.create_cable(name="c", wires=4)
for wire, inner in zip(cable.wires, bus.pins):
    wire.connect_pin(u.pins[inner])


def check(where):
    assert mirror.port_pins[bus] == list(bus.pins), (
        "%s: mirror of port d has pins %d, the port really has %d: a removal was not announced "
        "(or announced without happening)" % (where, len(mirror.port_pins[bus]), len(bus.pins))
    )
    for wire in cable.wires:
        assert mirror.wire_pins.get(wire, set()) == set(wire.pins), (
            "%s: mirror and netlist disagree on the pins of a wire" % where
        )
    assert set(p.inner_pin for p in u.pins) == set(bus.pins), "%s: instance pins do not follow the port" % where


check("after construction")

# 1. bulk removal, argument is a generator
odd = (p for i, p in enumerate(bus.pins) if i % 2 == 1)
bus.remove_pins_from(odd)
assert len(bus.pins) == 2
check("after remove_pins_from(<generator>)")

# 2. bulk removal, a pin is named twice: exactly one change happens, so exactly one announcement
solo = lib.create_definition(name="solo").create_port(name="p", pins=2)
victim = solo.pins[0]
del mirror.log[:]
solo.remove_pins_from([victim, victim])
announced = [e for e in mirror.log if e == ("port_remove_pin", victim)]
assert len(announced) == 1, (
    "remove_pins_from([p, p]) removed one pin but announced its removal %d times" % len(announced)
)
assert mirror.port_pins[solo] == list(solo.pins)
print("OK: the mirror built from the announcements equals the netlist after bulk pin removals")
