"""C02 demo: outer pins that disappear because their port went away are first taken off
their wire -- for every instance of the definition, children AND top instances."""
import sys
import spydrnet as sdn


def check_mirror(inst, where):
    ref = inst.reference
    assert inst in ref.references, where + ": instance missing from the reference set"
    inner = [p for port in ref.ports for p in port.pins]
    assert len(inst.pins) == len(inner), where + ": outer pins do not mirror the inner pins"
    for ip in inner:
        op = inst.pins[ip]
        assert op.instance is inst and op.inner_pin is ip, where + ": bad outer pin"


def check_wire(w, where):
    for p in w.pins:
        assert p.wire is w, where + ": wire lists a pin that does not report it"
        if isinstance(p, sdn.OuterPin):
            assert p.instance is not None and p.inner_pin is not None, (
                where + ": wire %r still lists an outer pin that disappeared with its port "
                "(it was not taken off its wire first)" % w.cable.name
            )


def main():
    netlist = sdn.Netlist(name="n")
    lib = netlist.create_library(name="work")
    core = lib.create_definition(name="core")
    a = core.create_port(name="a", pins=2, direction=sdn.IN)
    b = core.create_port(name="b", pins=1, direction=sdn.OUT)

    # instances of core: one child, and the top instance of the netlist
    bench = lib.create_definition(name="bench")
    child = bench.create_child(name="dut", reference=core)
    netlist.top_instance = core
    top = netlist.top_instance
    assert top.is_top_instance and top in core.references and child in core.references

    # both instances get their pins of port a wired (a test bench around the top instance)
    cc = bench.create_cable(name="child_net", wires=2)
    tc = bench.create_cable(name="top_net", wires=2)
    for i, ip in enumerate(a.pins):
        cc.wires[i].connect_pin(child.pins[ip])
        tc.wires[i].connect_pin(top.pins[ip])
    gone = [child.pins[ip] for ip in a.pins] + [top.pins[ip] for ip in a.pins]

    core.remove_port(a)

    for inst in (child, top):
        check_mirror(inst, "after remove_port (%s)" % ("top instance" if inst is top else "child"))
    for w in list(cc.wires) + list(tc.wires):
        check_wire(w, "after remove_port")
        assert len(w.pins) == 0, "wire %r still has pins" % w.cable.name
    assert all(op.wire is None for op in gone), "a vanished outer pin still reports a wire"
    print("C02 ok: outer pins of children and top instances were taken off their wires")


if __name__ == "__main__":
    try:
        main()
    except AssertionError as e:
        print("C02 VIOLATION:", e)
        sys.exit(1)
