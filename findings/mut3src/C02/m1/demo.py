"""C02 demo: re-pointing an instance to a shape-compatible definition keeps every
connection on the corresponding pin -- also when the ports/pins of the old definition were
inserted / reordered AFTER the instance had been created."""
import sys
import spydrnet as sdn


def check_mirror(inst, where):
    ref = inst.reference
    assert inst in ref.references, where + ": instance missing from reference set"
    inner = [p for port in ref.ports for p in port.pins]
    assert len(inst.pins) == len(inner), where + ": outer pin count differs from inner pin count"
    for ip in inner:
        assert ip in inst.pins, where + ": no outer pin for an inner pin of the definition"
        op = inst.pins[ip]
        assert op.instance is inst and op.inner_pin is ip, where + ": outer pin names wrong instance/inner pin"


def build_leaf(lib, name, order):
    d = lib.create_definition(name=name)
    for pname, width in order:
        d.create_port(name=pname, pins=width, direction=sdn.IN)
    return d


def main():
    netlist = sdn.Netlist(name="n")
    lib = netlist.create_library(name="work")
    # old definition starts with ports a[2], b[1]; the instance is created now
    leaf = build_leaf(lib, "leaf", [("a", 2), ("b", 1)])
    top = lib.create_definition(name="top")
    inst = top.create_child(name="u0", reference=leaf)
    # later edits of a definition that already has an instance: new port z put in FRONT,
    # and a pin inserted at the front of port b
    z = leaf.create_port(name="z", pins=1, direction=sdn.IN)
    leaf.ports = [z] + [p for p in leaf.ports if p is not z]
    next(leaf.get_ports("b")).add_pin(sdn.InnerPin(), position=0)
    check_mirror(inst, "after definition edits")

    # one wire per pin, named after (port, index) of the pin it is joined to
    expect = {}
    for port in leaf.ports:
        for i, ip in enumerate(port.pins):
            cable = top.create_cable(name="w_%s_%d" % (port.name, i), wires=1)
            cable.wires[0].connect_pin(inst.pins[ip])
            expect[(port.name, i)] = cable.wires[0]

    # shape compatible replacement: z[1], a[2], b[2]
    leaf2 = build_leaf(lib, "leaf2", [("z", 1), ("a", 2), ("b", 2)])
    inst.reference = leaf2
    check_mirror(inst, "after re-pointing")
    assert inst not in leaf.references, "instance still in the old reference set"
    for port in leaf2.ports:
        for i, ip in enumerate(port.pins):
            op = inst.pins[ip]
            want = expect[(port.name, i)]
            assert op.wire is want, (
                "after re-pointing, pin %s[%d] of the instance sits on wire %r instead of %r: "
                "the connection did not stay on the corresponding pin"
                % (port.name, i, op.wire.cable.name if op.wire else None, want.cable.name)
            )
            assert sum(1 for q in want.pins if q is op) == 1
    print("C02 ok: re-pointing kept every connection on the corresponding pin")


if __name__ == "__main__":
    try:
        main()
    except AssertionError as e:
        print("C02 VIOLATION:", e)
        sys.exit(1)
