"""C01 demo: a REFUSED Cable.remove_wires_from call must leave ownership consistent.

Every container must list exactly the elements that name it as their parent: after a
refused bulk removal (the set contains a wire of another cable) every wire still listed by
the cable must still report that cable, and every wire reporting the cable must be listed.
"""
import sys
import spydrnet as sdn


def check_cable(cable, where):
    listed = list(cable.wires)
    assert len(listed) == len(set(map(id, listed))), where + ": a wire is listed twice"
    for i, w in enumerate(listed):
        assert w.cable is cable, (
            "%s: cable lists wire #%d but that wire reports parent %r "
            "(container lists an element that does not name it as parent)" % (where, i, w.cable)
        )


def trial(n_own):
    netlist = sdn.Netlist(name="n")
    lib = netlist.create_library(name="work")
    d = lib.create_definition(name="top")
    cable = d.create_cable(name="bus", wires=n_own)
    other = d.create_cable(name="other", wires=1)
    own = list(cable.wires)
    foreign = other.wires[0]

    refused = False
    try:
        cable.remove_wires_from(own[: n_own // 2] + [foreign] + own[n_own // 2 :])
    except AssertionError:
        refused = True
    assert refused, "removing a wire of another cable must be refused"
    check_cable(cable, "after refused remove_wires_from")
    check_cable(other, "after refused remove_wires_from (other cable)")
    assert list(cable.wires) == own, "refused call changed the members of the cable"
    # an accepted call afterwards behaves normally
    cable.remove_wires_from(own[:2])
    check_cable(cable, "after accepted remove_wires_from")
    assert all(w.cable is None for w in own[:2]), "removed wires must report no parent"
    assert list(cable.wires) == own[2:]


def main():
    for t in range(12):
        trial(16)
    print("C01 ok: refused remove_wires_from left the cable/wire ownership consistent")


if __name__ == "__main__":
    try:
        main()
    except AssertionError as e:
        print("C01 VIOLATION:", e)
        sys.exit(1)
