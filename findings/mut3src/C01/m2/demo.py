"""C01 demo: bulk disconnect through PROXY outer pins keeps pin<->wire links mutual.

"every pin reports exactly the one wire whose pin list contains it, while a wire lists only
pins that report it".  Wire.disconnect_pins_from accepts proxy outer pins built from
(instance, inner pin); afterwards the instance's real outer pin must not report the wire any
more, and must be connectable again.
"""
import sys
import spydrnet as sdn


def check_links(wires, pins, where):
    for w in wires:
        ids = [id(p) for p in w.pins]
        assert len(ids) == len(set(ids)), where + ": a pin is listed twice on a wire"
        for p in w.pins:
            assert p.wire is w, where + ": wire lists a pin that does not report it"
    for p in pins:
        if p.wire is not None:
            n = sum(1 for q in p.wire.pins if q is p)
            assert n == 1, (
                "%s: pin %r reports wire %r but that wire's pin list contains it %d times"
                % (where, p, p.wire, n)
            )


def main():
    netlist = sdn.Netlist(name="n")
    lib = netlist.create_library(name="work")
    leaf = lib.create_definition(name="leaf")
    port = leaf.create_port(name="p", pins=3, direction=sdn.IN)
    top = lib.create_definition(name="top")
    inst = top.create_child(name="u0", reference=leaf)
    cable = top.create_cable(name="c", wires=2)
    w0, w1 = cable.wires
    tport = top.create_port(name="t", pins=1)

    real = [inst.pins[ip] for ip in port.pins]
    all_pins = real + list(tport.pins)
    w0.connect_pin(tport.pins[0])
    for op in real:
        w0.connect_pin(op)
    check_links([w0, w1], all_pins, "after connect")

    # bulk disconnect, naming two of the instance pins through proxies
    proxies = [sdn.OuterPin.from_instance_and_inner_pin(inst, ip) for ip in port.pins[:2]]
    w0.disconnect_pins_from(proxies)
    check_links([w0, w1], all_pins, "after disconnect_pins_from(proxy outer pins)")
    assert real[0].wire is None and real[1].wire is None, "disconnected pins still report a wire"
    assert list(w0.pins) == [tport.pins[0], real[2]]

    # the freed pin can be connected elsewhere (would be refused if it still reported w0)
    w1.connect_pin(real[0])
    check_links([w0, w1], all_pins, "after reconnect")
    print("C01 ok: proxy bulk disconnect kept pin/wire links mutual")


if __name__ == "__main__":
    try:
        main()
    except AssertionError as e:
        print("C01 VIOLATION:", e)
        sys.exit(1)
