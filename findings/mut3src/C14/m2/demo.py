"""C14 demo: a refused edit changes nothing - here the refusal comes from the naming rules:
an element whose EDIF identifier is illegal is added to a netlist under the EDIF naming policy.
The add (and the compound create-and-add) must leave the netlist exactly as before, including
the answers to name lookups, and nothing of the half-built element may remain registered."""
import sys
import spydrnet as sdn

netlist = sdn.Netlist(name="n")
netlist[".NS"] = "EDIF"                      # EDIF naming policy for everything below
lib = netlist.create_library(name="work")
top = lib.create_definition(name="top")
top.create_port(name="a")
top.create_cable(name="a")
leaf = lib.create_definition(name="leaf")
top.create_child(name="a", reference=leaf)
BAD = {"EDIF.identifier": "9 not an identifier"}   # illegal under the EDIF policy

def snapshot():
    snap = [(".NS", netlist[".NS"], lib[".NS"], top[".NS"])]
    snap.append(tuple((l.name, id(l)) for l in netlist.libraries))
    snap.append(tuple((d.name, id(d), frozenset(id(r) for r in d.references)) for d in lib.definitions))
    for group in (top.ports, top.cables, top.children):
        snap.append(tuple((x.name, id(x), tuple(sorted(x.data.items()))) for x in group))
    for name in ("a", "p", "9 not an identifier"):
        for key in (".NAME", "EDIF.identifier"):
            snap.append((name, key,
                         tuple(id(x) for x in sdn.get_ports(top, name, key=key)),
                         tuple(id(x) for x in sdn.get_cables(top, name, key=key)),
                         tuple(id(x) for x in sdn.get_instances(top, name, key=key)),
                         tuple(id(x) for x in sdn.get_definitions(lib, name, key=key)),
                         tuple(id(x) for x in sdn.get_libraries(netlist, name, key=key))))
    return snap

before = snapshot()
refused_calls = {
    "Definition.create_port(name='p', illegal identifier)": lambda: top.create_port(name="p", properties=BAD, pins=2),
    "Definition.create_cable(name='p', illegal identifier)": lambda: top.create_cable(name="p", properties=BAD, wires=2),
    "Definition.create_child(name='p', illegal identifier)": lambda: top.create_child(name="p", properties=BAD, reference=leaf),
    "Library.create_definition(name='p', illegal identifier)": lambda: lib.create_definition(name="p", properties=BAD),
    "Netlist.create_library(name='p', illegal identifier)": lambda: netlist.create_library(name="p", properties=BAD),
    "Definition.add_port(Port 'p' with illegal identifier)": lambda: top.add_port(sdn.Port(name="p", properties=BAD)),
}
for attempt in range(2):                     # singly and repeatedly
    for what, call in refused_calls.items():
        try:
            call()
        except ValueError:
            pass
        else:
            raise SystemExit("%s was expected to be refused" % what)
        after = snapshot()
        diff = [(b, a) for b, a in zip(before, after) if b != a]
        assert after == before, "refused %s changed the netlist / the name lookups: %s" % (what, diff[:2])

# nothing of the half-built elements remains registered: the name 'p' is still free everywhere
for what, call in {
    "create_port('p')": lambda: top.create_port(name="p"),
    "create_cable('p')": lambda: top.create_cable(name="p"),
    "create_child('p')": lambda: top.create_child(name="p"),
    "create_definition('p')": lambda: lib.create_definition(name="p"),
    "create_library('p')": lambda: netlist.create_library(name="p"),
}.items():
    try:
        call()
    except ValueError as e:
        raise AssertionError("after the refused edits the free name 'p' is reported taken by %s: %s" % (what, e))
print("OK: refused edits changed nothing")
sys.exit(0)
