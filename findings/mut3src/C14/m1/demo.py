"""C14 demo: a refused edit changes nothing. Library.remove_definitions_from() with a set that
contains a definition which is NOT a member of the library is refused (precondition 'not a
member'); afterwards the netlist must be exactly as before: same containment and order, same
reference sets, same names and the same answers to name lookups."""
import sys
import spydrnet as sdn

netlist = sdn.Netlist(name="n")
lib = netlist.create_library(name="work")
other_lib = netlist.create_library(name="other")
leaf = lib.create_definition(name="leaf")
mid = lib.create_definition(name="mid")
top = lib.create_definition(name="top")
foreign = other_lib.create_definition(name="foreign")
mid.create_child(name="l", reference=leaf)
top.create_child(name="m", reference=mid)
netlist.top_instance = sdn.Instance(name="top_inst")
netlist.top_instance.reference = top

def snapshot():
    snap = []
    for library in netlist.libraries:
        snap.append(("library", library.name, id(library), id(library.netlist)))
        for d in library.definitions:
            snap.append(("definition", d.name, id(d), id(d.library),
                         tuple(id(c) for c in d.children), frozenset(id(r) for r in d.references)))
        for name in ("leaf", "mid", "top", "foreign"):
            snap.append(("lookup", library.name, name,
                         tuple(id(x) for x in sdn.get_definitions(library, name))))
    snap.append(("hier", tuple(sorted(x.name for x in sdn.get_hinstances(netlist, recursive=True)))))
    return snap

before = snapshot()
for attempt in range(2):     # singly and repeatedly
    try:
        lib.remove_definitions_from([leaf, foreign])   # 'foreign' is not in lib -> must be refused
    except AssertionError:
        pass
    else:
        raise SystemExit("the call was expected to be refused")
    after = snapshot()
    diff = [(b, a) for b, a in zip(before, after) if b != a]
    assert after == before, (
        "the refused remove_definitions_from() changed the netlist (attempt %d): leaf.library=%r, "
        "lookup of 'leaf' in work -> %s; first differences: %s"
        % (attempt + 1, leaf.library, [x.name for x in sdn.get_definitions(lib, "leaf")], diff[:2])
    )
# and the library still behaves: the name 'leaf' is still taken, 'leaf' can still be removed properly
try:
    lib.create_definition(name="leaf")
except ValueError:
    pass
else:
    raise AssertionError("a second definition named 'leaf' was accepted: name lookups changed")
assert snapshot() == before, "refused create_definition left something behind"
print("OK: refused edits changed nothing")
sys.exit(0)
