"""C03 demo: the EDIF file written is always accepted by the reader and gives the same names.

A netlist built through the API whose net / instance / port / cell names START WITH AN
UNDERSCORE (legal names, typical of synthesis tools: _042_, _u1_) must round-trip: EDIF
identifiers have to start with a letter or '&', the original name is kept in a rename."""
import os
import sys
import tempfile
import spydrnet as sdn


def describe(netlist):
    out = [("top", netlist.top_instance.reference.name)]
    for lib in netlist.libraries:
        for d in lib.definitions:
            out.append(("cell", lib.name, d.name))
            out += [("port", d.name, p.name, p.direction, len(p.pins), p.is_array) for p in d.ports]
            out += sorted(("instance", d.name, c.name, c.reference.name, c.reference.library.name) for c in d.children)
            for c in sorted(d.cables, key=lambda c: c.name):
                wires = []
                for w in c.wires:
                    pins = []
                    for p in w.pins:
                        if isinstance(p, sdn.OuterPin):
                            ip = p.inner_pin
                            pins.append((p.instance.name, ip.port.name, ip.port.pins.index(ip)))
                        else:
                            pins.append((None, p.port.name, p.port.pins.index(p)))
                    wires.append(tuple(pins))
                out.append(("net", d.name, c.name, len(c.wires), c.lower_index, tuple(wires)))
    return out


def build():
    netlist = sdn.Netlist(name="design")
    prims = netlist.create_library(name="prims")
    inv = prims.create_definition(name="_INV_")
    a = inv.create_port(name="_a", pins=1, direction=sdn.IN)
    y = inv.create_port(name="y", pins=1, direction=sdn.OUT)
    work = netlist.create_library(name="work")
    top = work.create_definition(name="top")
    din = top.create_port(name="_din", pins=2, direction=sdn.IN)
    dout = top.create_port(name="dout", pins=2, direction=sdn.OUT)
    n_in = top.create_cable(name="_000_", wires=2)
    n_out = top.create_cable(name="_001_", wires=1)
    n_o2 = top.create_cable(name="plain", wires=1)
    for i in range(2):
        u = top.create_child(name="_%d_" % i, reference=inv)
        n_in.wires[i].connect_pin(din.pins[i])
        n_in.wires[i].connect_pin(u.pins[a.pins[0]])
        w = (n_out, n_o2)[i].wires[0]
        w.connect_pin(u.pins[y.pins[0]])
        w.connect_pin(dout.pins[i])
    netlist.top_instance = sdn.Instance(name="design")
    netlist.top_instance.reference = top
    return netlist


def main():
    netlist = build()
    want = describe(netlist)
    path = os.path.join(tempfile.mkdtemp(), "u.edf")
    sdn.compose(netlist, path)
    try:
        back = sdn.parse(path)
    except Exception as e:
        raise AssertionError(
            "the EDIF file written for names starting with '_' is NOT accepted by the reader: %s: %s"
            % (type(e).__name__, e)
        )
    got = describe(back)
    assert got == want, "netlist read back differs: %r" % [(a, b) for a, b in zip(want, got) if a != b][:3]
    print("C03 ok: names starting with an underscore round-trip through EDIF")


if __name__ == "__main__":
    try:
        main()
    except AssertionError as e:
        print("C03 VIOLATION:", e)
        sys.exit(1)
