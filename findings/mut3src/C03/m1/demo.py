"""C03 demo: EDIF write-then-read returns the same netlist for ANY cell declaration order.

A library declares the top cell FIRST and below it a chain of cells x1 -> x2 -> ... -> x6
(x_i instantiates x_{i+1}); the top cell also instantiates every x_i directly.  The file
written must be accepted by the reader and give back the same cells/instances/nets."""
import os
import sys
import tempfile
import spydrnet as sdn


def pin_key(pin):
    if isinstance(pin, sdn.OuterPin):
        ip = pin.inner_pin
        return ("inst", pin.instance.name, ip.port.name, ip.port.pins.index(ip))
    return ("port", pin.port.name, pin.port.pins.index(pin))


def describe(netlist):
    out = {"top": (netlist.top_instance.name, netlist.top_instance.reference.name,
                   netlist.top_instance.reference.library.name)}
    for lib in netlist.libraries:
        for d in lib.definitions:
            out[(lib.name, d.name)] = {
                "ports": [(p.name, p.direction, len(p.pins), p.is_array) for p in d.ports],
                "children": sorted((c.name, c.reference.name, c.reference.library.name) for c in d.children),
                "cables": sorted(
                    (c.name, len(c.wires), c.lower_index, tuple(tuple(pin_key(p) for p in w.pins) for w in c.wires))
                    for c in d.cables
                ),
            }
    return out


def build(chain):
    netlist = sdn.Netlist(name="design")
    work = netlist.create_library(name="work")
    top = work.create_definition(name="top")  # declared first, uses everything below
    cells = [work.create_definition(name="x%d" % i) for i in range(1, chain + 1)]
    for d in cells:
        d.create_port(name="i", pins=1, direction=sdn.IN)
        d.create_port(name="o", pins=1, direction=sdn.OUT)
    top.create_port(name="i", pins=1, direction=sdn.IN)
    top.create_port(name="o", pins=1, direction=sdn.OUT)
    for k, d in enumerate(cells[:-1]):
        sub = d.create_child(name="u_next", reference=cells[k + 1])
        ci = d.create_cable(name="ni", wires=1)
        ci.wires[0].connect_pin(d.ports[0].pins[0])
        ci.wires[0].connect_pin(sub.pins[cells[k + 1].ports[0].pins[0]])
        co = d.create_cable(name="no", wires=1)
        co.wires[0].connect_pin(sub.pins[cells[k + 1].ports[1].pins[0]])
        co.wires[0].connect_pin(d.ports[1].pins[0])
    net_in = top.create_cable(name="net_in", wires=1)
    net_in.wires[0].connect_pin(top.ports[0].pins[0])
    for d in cells:
        inst = top.create_child(name="u_" + d.name, reference=d)
        net_in.wires[0].connect_pin(inst.pins[d.ports[0].pins[0]])
    netlist.top_instance = sdn.Instance(name="design")
    netlist.top_instance.reference = top
    return netlist


def main():
    tmp = tempfile.mkdtemp()
    for trial in range(4):
        netlist = build(6)
        before = describe(netlist)
        path = os.path.join(tmp, "t%d.edf" % trial)
        sdn.compose(netlist, path)
        try:
            back = sdn.parse(path)
        except Exception as e:  # the file written must always be accepted by the reader
            raise AssertionError(
                "the EDIF file written for a top-first cell order is NOT accepted by the reader: %s: %s"
                % (type(e).__name__, e)
            )
        after = describe(back)
        assert after == before, "netlist read back differs from the netlist written"
    print("C03 ok: top-first declaration order round-trips through EDIF")


if __name__ == "__main__":
    try:
        main()
    except AssertionError as e:
        print("C03 VIOLATION:", e)
        sys.exit(1)
