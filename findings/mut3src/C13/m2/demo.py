"""C13 demo: for every root kind the result for a pattern equals the unfiltered result
restricted to the matching elements; several patterns give the union; no element is returned
twice; and the result does not depend on whether the accelerated name lookup is available."""
import sys
import spydrnet as sdn

netlist = sdn.Netlist(name="n")
lib = netlist.create_library(name="work")
cell = lib.create_definition(name="cell")
for name in ("clk", "rst", "d"):
    cell.create_port(name=name).create_pin()
top = lib.create_definition(name="top")
u0 = top.create_child(name="u0", reference=cell)
u1 = top.create_child(name="u1", reference=cell)     # second instance of the same definition
netlist.top_instance = sdn.Instance(name="top_inst")
netlist.top_instance.reference = top

def check(roots, patterns, **kwargs):
    unfiltered = list(sdn.get_ports(list(roots)))
    assert len(unfiltered) == len(set(unfiltered))
    plist = [patterns] if isinstance(patterns, str) else patterns
    expected = {x for x in unfiltered if x.name in plist}
    got = list(sdn.get_ports(list(roots), patterns, **kwargs))
    assert len(got) == len(set(got)), (
        "get_ports(%s, %r) returned an element twice: %s"
        % ([type(r).__name__ + ":" + str(r.name) for r in roots], patterns, [x.name for x in got])
    )
    assert set(got) == expected, "wrong elements: %s" % [x.name for x in got]
    return got

roots_list = [[u0, u1], [cell], [u0], list(top.children), [netlist, cell], [lib, u1],
              [next(sdn.get_hinstances(u0)), next(sdn.get_hinstances(u1))]]
for roots in roots_list:
    for patterns in ("clk", ["clk", "rst"], ["rst", "clk"], ["clk", "clk"]):
        fast = check(roots, patterns)
        # is_case=False makes the exact pattern ineligible for the accelerated lookup: same answer
        slow = check(roots, patterns, is_case=False)
        assert sorted(x.name for x in fast) == sorted(x.name for x in slow), (
            "answer depends on the accelerated lookup: %s vs %s"
            % ([x.name for x in fast], [x.name for x in slow])
        )
print("OK: no element is returned twice, fast and slow paths agree")
sys.exit(0)
