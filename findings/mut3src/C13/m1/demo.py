"""C13 demo: the result for an exact pattern equals the unfiltered result restricted to the
elements whose value under the chosen key equals the pattern (EDIF identifiers compare
case-insensitively), and does not depend on whether the accelerated name lookup is used -
also after an element has been given a new identifier."""
import sys
import spydrnet as sdn

netlist = sdn.Netlist(name="n")
netlist[".NS"] = "EDIF"                       # EDIF naming policy for everything below
lib = netlist.create_library(name="work")
lib["EDIF.identifier"] = "work"
top = lib.create_definition(name="top")
top["EDIF.identifier"] = "top"
KEY = "EDIF.identifier"

elements = {
    "instance": (top.create_child(name="u1"), sdn.get_instances),
    "port": (top.create_port(name="p1"), sdn.get_ports),
    "cable": (top.create_cable(name="c1"), sdn.get_cables),
}
for kind, (element, query) in elements.items():
    element[KEY] = "DataReg_%s" % kind          # mixed-case identifier
    element[KEY] = "renamed_%s" % kind          # ... later replaced by another one

def reference_answer(query, root, pattern):
    """unfiltered result restricted to matching elements (EDIF identifiers: case-insensitive)"""
    return [x for x in query(root) if x.get(KEY, "").lower() == pattern.lower()]

for kind, (element, query) in elements.items():
    for root in (top, lib, netlist):
        for pattern in ("DataReg_%s" % kind, "datareg_%s" % kind, "renamed_%s" % kind, "RENAMED_%s" % kind):
            expected = reference_answer(query, root, pattern)
            got = list(query(root, pattern, key=KEY))
            assert got == expected, (
                "%s(%s, %r, key=%r) returned %s but the elements whose identifier matches are %s"
                % (query.__name__, type(root).__name__, pattern, KEY,
                   [(x.name, x[KEY]) for x in got], [(x.name, x[KEY]) for x in expected])
            )
            # same answer when the pattern is not eligible for the accelerated lookup
            slow = list(query(root, pattern, key=KEY, is_case=False))
            assert slow == expected, "is_case=False answer differs: %s" % slow
print("OK: exact patterns agree with the values present")
sys.exit(0)
