"""C12 demo: selection=ALL returns exactly the electrically connected net, through instance
port boundaries upward and downward to any depth, so every member of a net yields the same
answer - here the net runs out of one cell and through a pass-through cell (a cell that only
wires its input port to its output port)."""
import sys
import spydrnet as sdn

netlist = sdn.Netlist(name="n")
lib = netlist.create_library(name="work")

prim = lib.create_definition(name="prim")                 # leaf cell
prim_o = prim.create_port(name="O", direction=sdn.OUT); prim_o.create_pin()
prim_i = prim.create_port(name="I", direction=sdn.IN); prim_i.create_pin()

src = lib.create_definition(name="src")                   # cell with a child driving its output
src_out = src.create_port(name="out", direction=sdn.OUT); src_out.create_pin()
u = src.create_child(name="u", reference=prim)
src_w = src.create_cable(name="w").create_wire()
src_w.connect_pin(src_out.pins[0])
src_w.connect_pin(u.pins[prim_o.pins[0]])

thru = lib.create_definition(name="thru")                 # pass-through cell: in -> out, no children
thru_in = thru.create_port(name="i", direction=sdn.IN); thru_in.create_pin()
thru_out = thru.create_port(name="o", direction=sdn.OUT); thru_out.create_pin()
thru_w = thru.create_cable(name="feed").create_wire()
thru_w.connect_pin(thru_in.pins[0])
thru_w.connect_pin(thru_out.pins[0])

top = lib.create_definition(name="top")
m = top.create_child(name="m", reference=src)
p = top.create_child(name="p", reference=thru)
sink = top.create_child(name="sink", reference=prim)
A = top.create_cable(name="A").create_wire()
A.connect_pin(m.pins[src_out.pins[0]])
A.connect_pin(p.pins[thru_in.pins[0]])
B = top.create_cable(name="B").create_wire()
B.connect_pin(p.pins[thru_out.pins[0]])
B.connect_pin(sink.pins[prim_i.pins[0]])
netlist.top_instance = sdn.Instance(name="top_inst")
netlist.top_instance.reference = top

net = set(sdn.get_hwires(netlist, recursive=True))
expected = ["A", "B", "m/w", "p/feed"]           # one net: m/w - A - p/feed - B
assert sorted(x.name for x in net) == expected

for start in sorted(net, key=lambda x: x.name):
    got = list(sdn.get_hwires(start, selection="ALL"))
    assert len(got) == len(set(got)), "duplicates"
    assert set(got) == net, (
        "selection=ALL from hierarchical wire '%s' must return the connected net %s, got %s"
        % (start.name, expected, sorted(x.name for x in got))
    )
    for hpin in sdn.get_hpins(start):
        got = set(sdn.get_hwires(hpin, selection=sdn.ALL))
        assert got == net, (
            "selection=ALL from hierarchical pin '%s' must return the connected net %s, got %s"
            % (hpin.name, expected, sorted(x.name for x in got))
        )
print("OK: every member of the net yields the same answer")
sys.exit(0)
