"""C12 demo: get_hwires(..., selection=ALL) returns exactly the electrically connected
net, so EVERY member of a net yields the same answer - also when the net fans out to
two instances of one shared definition."""
import sys
import spydrnet as sdn
from spydrnet.util.hierarchical_reference import HRef

netlist = sdn.Netlist(name="n")
lib = netlist.create_library(name="work")

leaf = lib.create_definition(name="leaf")
leaf_i = leaf.create_port(name="I", direction=sdn.IN)
leaf_i.create_pin()

mid = lib.create_definition(name="mid")
mid_clk = mid.create_port(name="clk", direction=sdn.IN)
mid_clk.create_pin()
ff = mid.create_child(name="ff", reference=leaf)
mid_w = mid.create_cable(name="clk_i").create_wire()
mid_w.connect_pin(mid_clk.pins[0])
mid_w.connect_pin(ff.pins[leaf_i.pins[0]])

top = lib.create_definition(name="top")
top_clk = top.create_port(name="clk", direction=sdn.IN)
top_clk.create_pin()
a = top.create_child(name="a", reference=mid)
b = top.create_child(name="b", reference=mid)   # same definition as a
top_w = top.create_cable(name="clk").create_wire()
top_w.connect_pin(top_clk.pins[0])
top_w.connect_pin(a.pins[mid_clk.pins[0]])
top_w.connect_pin(b.pins[mid_clk.pins[0]])
netlist.top_instance = sdn.Instance(name="top_inst")
netlist.top_instance.reference = top

expected = {"clk", "a/clk_i", "b/clk_i"}
net = set(sdn.get_hwires(netlist, recursive=True))
assert {x.name for x in net} == expected

def names(hrefs):
    return sorted(x.name for x in hrefs)

# every hierarchical wire of the net is a starting point ...
for start in net:
    got = list(sdn.get_hwires(start, selection=sdn.ALL))
    assert len(got) == len(set(got)), "duplicates from %s: %s" % (start.name, names(got))
    assert set(got) == net, (
        "selection=ALL from hierarchical wire '%s' must return the whole connected net %s, got %s"
        % (start.name, sorted(expected), names(got))
    )
# ... and so is every hierarchical pin attached to it
for start in net:
    for hpin in sdn.get_hpins(start):
        got = set(sdn.get_hwires(hpin, selection="ALL"))
        assert got == net, (
            "selection=ALL from hierarchical pin '%s' (on wire '%s') must return the whole net %s, got %s"
            % (hpin.name, start.name, sorted(expected), names(got))
        )
print("OK: every member of the net yields the same answer")
sys.exit(0)
