"""C15 demo: given any text, each reader terminates - it returns a well-formed netlist or raises
an error, it never hangs. The text here is a Verilog netlist in which two modules instantiate
each other (not legal hardware, but it is text a reader can be handed)."""
import io
import signal
import sys
import spydrnet as sdn
from spydrnet.plugins import namespace_manager
from spydrnet.parsers.verilog.parser import VerilogParser

TEXT = """
module top (input a);
  wire w;
endmodule

module ring_a (input i);
  ring_b u_b (.i(i));
  helper u_h (.i(i));
endmodule

module ring_b (input i);
  ring_a u_back (.i(i));
endmodule

module helper (input i);
  top u_top (.a(i));
endmodule
"""
VALID = TEXT.replace("ring_a u_back (.i(i));", "").replace("top u_top (.a(i));", "")

class Hang(Exception):
    pass

def on_alarm(signum, frame):
    raise Hang()

def read(text, seconds=10):
    """returns 'netlist', 'error' or 'hang'"""
    policy = namespace_manager.default
    parser = VerilogParser.from_file_handle(io.StringIO(text))
    signal.signal(signal.SIGALRM, on_alarm)
    signal.alarm(seconds)
    try:
        netlist = parser.parse()
        outcome = "netlist"
    except Hang:
        outcome = "hang"
    except Exception:
        outcome = "error"
    finally:
        signal.alarm(0)
    assert namespace_manager.default == policy, "naming policy not restored"
    if outcome == "netlist":
        # well-formed: a top instance, every instance has a definition that lives in the netlist
        assert netlist.top_instance is not None and netlist.top_instance.reference is not None
        for inst in netlist.get_instances():
            assert inst.reference is not None and inst.reference.library is not None
    return outcome

assert read(VALID) == "netlist", "the valid variant must parse"
outcome = read(TEXT)
assert outcome in ("netlist", "error"), (
    "the Verilog reader did not terminate on a text with mutually instantiating modules "
    "(still running after 10 s): a reader must return a netlist or raise, never hang"
)
assert read(VALID) == "netlist", "a later parse in the same process must behave as in a fresh one"
print("OK: the reader terminated (%s)" % outcome)
sys.exit(0)
