"""C15 demo: after a parse - rejected or successful - the process-wide naming policy is what it
was BEFORE THE CALL, so any later parse or edit behaves exactly as before it."""
import io
import sys
import spydrnet as sdn
from spydrnet.plugins import namespace_manager
from spydrnet.parsers.edif.parser import EdifParser

VALID = """(edif top (edifVersion 2 0 0) (edifLevel 0) (keywordMap (keywordLevel 0))
 (library work (edifLevel 0) (technology (numberDefinition))
  (cell leaf (cellType GENERIC) (view netlist (viewType NETLIST)
    (interface (port I (direction INPUT)))))
  (cell top (cellType GENERIC) (view netlist (viewType NETLIST)
    (interface (port a (direction INPUT)))
    (contents
      (instance u0 (viewRef netlist (cellRef leaf (libraryRef work))))
      (net a (joined (portRef a) (portRef I (instanceRef u0))))))))
 (design top (cellRef top (libraryRef work))))
"""
CORRUPT = {
    "dangling instanceRef": VALID.replace("(instanceRef u0)", "(instanceRef nothere)"),
    "dangling cellRef": VALID.replace("(cellRef leaf", "(cellRef nocell"),
    "truncated": VALID[: VALID.index("(contents")],
}

def parse_text(text, policy_before_call):
    """build the reader first (as an application that queues its inputs does), then call it
    while `policy_before_call` is the active policy"""
    parser = EdifParser.from_file_handle(io.StringIO(text))
    namespace_manager.default = policy_before_call
    try:
        parser.parse()
    except Exception as e:          # rejected input
        return None, type(e).__name__
    return parser.netlist, None

original = namespace_manager.default
assert original == "DEFAULT"
try:
    for policy in ("DEFAULT", "EDIF"):
        for what, text in [("valid file", VALID)] + sorted(CORRUPT.items()):
            namespace_manager.default = original
            netlist, error = parse_text(text, policy)
            assert (netlist is None) != (error is None)
            if what != "valid file":
                assert netlist is None, "%s must be rejected" % what
            outcome = "rejected with %s" % error if error else "parsed"
            assert namespace_manager.default == policy, (
                "naming policy was %r before EdifParser.parse() [%s, %s] but is %r after it"
                % (policy, what, outcome, namespace_manager.default)
            )
            # a later edit behaves as before the call: new elements get the policy that was active
            fresh = sdn.Netlist(name="later")
            assert fresh[".NS"] == policy, "later edit sees policy %r instead of %r" % (fresh[".NS"], policy)
finally:
    namespace_manager.default = original
# the plain one-shot entry point as well
import tempfile, os
with tempfile.TemporaryDirectory() as d:
    for what, text in [("valid file", VALID)] + sorted(CORRUPT.items()):
        path = os.path.join(d, "t.edf")
        with open(path, "w") as f:
            f.write(text)
        try:
            sdn.parse(path)
        except Exception:
            pass
        assert namespace_manager.default == original, "sdn.parse(%s) left policy %r" % (what, namespace_manager.default)
print("OK: the naming policy after each parse is the one before the call")
sys.exit(0)
