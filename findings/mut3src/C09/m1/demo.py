"""C09 demo: flattening keeps leaf-level connectivity "including nets that ... stop at an unconnected
port; the netlist stays well-formed".

Cell `blk` has an output port DBG that is driven inside (net `n1` joins the two leaf BUFs and DBG)
but is left unconnected where `blk` is instantiated in the top.  After flattening, net `u0/n1`
must join exactly the two leaf pins, and every wire of the (flat) top definition may only be joined
to pins that exist in the flat netlist: pins of top-level ports and pins of the remaining instances.
"""
import spydrnet as sdn
from spydrnet.uniquify import uniquify
from spydrnet.flatten import flatten

netlist = sdn.Netlist(name="design")
lib = netlist.create_library(name="work")

buf = lib.create_definition(name="BUF")
b_i = buf.create_port(name="I", direction=sdn.IN)
b_o = buf.create_port(name="O", direction=sdn.OUT)
b_i.create_pin()
b_o.create_pin()


def connect(definition, cable_name, pins):
    wire = definition.create_cable(name=cable_name).create_wire()
    for pin in pins:
        wire.connect_pin(pin)


blk = lib.create_definition(name="blk")
k_i = blk.create_port(name="I", direction=sdn.IN)
k_o = blk.create_port(name="O", direction=sdn.OUT)
k_dbg = blk.create_port(name="DBG", direction=sdn.OUT)
for p in (k_i, k_o, k_dbg):
    p.create_pin()
x = blk.create_child(name="x", reference=buf)
y = blk.create_child(name="y", reference=buf)
connect(blk, "n0", [k_i.pins[0], x.pins[b_i.pins[0]]])
connect(blk, "n1", [x.pins[b_o.pins[0]], y.pins[b_i.pins[0]], k_dbg.pins[0]])
connect(blk, "n2", [y.pins[b_o.pins[0]], k_o.pins[0]])

top = lib.create_definition(name="top")
t_i = top.create_port(name="I", direction=sdn.IN)
t_o = top.create_port(name="O", direction=sdn.OUT)
t_i.create_pin()
t_o.create_pin()
u0 = top.create_child(name="u0", reference=blk)
connect(top, "a", [t_i.pins[0], u0.pins[k_i.pins[0]]])
connect(top, "b", [u0.pins[k_o.pins[0]], t_o.pins[0]])
# u0.DBG is left unconnected on the outside
top_i = sdn.Instance(name="top_i")
top_i.reference = top
netlist.top_instance = top_i

uniquify(netlist)
flatten(netlist)

top = netlist.top_instance.reference
names = sorted(c.name for c in top.children)
assert names == ["u0/x", "u0/y"], "flat instances: %r" % names
assert all(c.reference is buf for c in top.children)


def describe(pin):
    if isinstance(pin, sdn.OuterPin):
        return "%s.%s" % (pin.instance.name, pin.inner_pin.port.name)
    owner = pin.port.definition.name if pin.port is not None and pin.port.definition else None
    return "port %s.%s" % (owner, pin.port.name if pin.port else None)


legal_pins = set()
for port in top.ports:
    legal_pins.update(id(p) for p in port.pins)
for child in top.children:
    legal_pins.update(id(p) for p in child.pins.values())

nets = {}
for cable in top.cables:
    for wire in cable.wires:
        if wire.pins:
            nets[cable.name] = sorted(describe(p) for p in wire.pins)
        for pin in wire.pins:
            assert id(pin) in legal_pins, (
                "C09 violated: after flattening the netlist is not well-formed - net '%s' of the "
                "top definition is joined to '%s', a pin that is no part of the flat design "
                "(inner pin of the dissolved cell's unconnected port)" % (cable.name, describe(pin))
            )
            assert pin.wire is wire
print(nets)
assert nets.get("u0/n1") == ["u0/x.O", "u0/y.I"], (
    "C09 violated: the net that stops at the unconnected port DBG should join exactly u0/x.O and "
    "u0/y.I, got %r" % nets.get("u0/n1")
)
assert nets.get("a") == ["port top.I", "u0/x.I"] and nets.get("b") == ["port top.O", "u0/y.O"], nets
print("OK")
