"""C09 demo: "Two endpoints (leaf pin bits, top-level port bits) are electrically connected after
flattening if and only if they were before, including nets that ... feed through a cell from one
port to another".

Cell `thru` ties its input port I to its output port O with an inner net that also feeds a leaf
(`mon`).  In the top, the source `src.O` drives `u0.I` and `u0.O` drives `dst.I` and the top-level
port `OUT`: so src.O, u0/mon.I, dst.I and OUT are one electrical net in the hierarchical design.
"""
import spydrnet as sdn
from spydrnet.uniquify import uniquify
from spydrnet.flatten import flatten

netlist = sdn.Netlist(name="design")
lib = netlist.create_library(name="work")

buf = lib.create_definition(name="BUF")
b_i = buf.create_port(name="I", direction=sdn.IN)
b_o = buf.create_port(name="O", direction=sdn.OUT)
b_i.create_pin()
b_o.create_pin()


def connect(definition, cable_name, pins):
    wire = definition.create_cable(name=cable_name).create_wire()
    for pin in pins:
        wire.connect_pin(pin)


thru = lib.create_definition(name="thru")
h_i = thru.create_port(name="I", direction=sdn.IN)
h_o = thru.create_port(name="O", direction=sdn.OUT)
h_i.create_pin()
h_o.create_pin()
mon = thru.create_child(name="mon", reference=buf)
connect(thru, "feed", [h_i.pins[0], mon.pins[b_i.pins[0]], h_o.pins[0]])

top = lib.create_definition(name="top")
t_in = top.create_port(name="IN", direction=sdn.IN)
t_out = top.create_port(name="OUT", direction=sdn.OUT)
t_in.create_pin()
t_out.create_pin()
src = top.create_child(name="src", reference=buf)
dst = top.create_child(name="dst", reference=buf)
u0 = top.create_child(name="u0", reference=thru)
connect(top, "n_in", [t_in.pins[0], src.pins[b_i.pins[0]]])
connect(top, "a", [src.pins[b_o.pins[0]], u0.pins[h_i.pins[0]]])
connect(top, "b", [u0.pins[h_o.pins[0]], dst.pins[b_i.pins[0]], t_out.pins[0]])
top_i = sdn.Instance(name="top_i")
top_i.reference = top
netlist.top_instance = top_i

uniquify(netlist)
flatten(netlist)

top = netlist.top_instance.reference
assert sorted(c.name for c in top.children) == ["dst", "src", "u0/mon"]
assert all(c.reference.is_leaf() for c in top.children), "a hierarchical instance remains"


def endpoint(pin):
    if isinstance(pin, sdn.OuterPin):
        return "%s.%s" % (pin.instance.name, pin.inner_pin.port.name)
    assert pin.port.definition is top, "dangling pin of %s" % pin.port.definition.name
    return "top:%s" % pin.port.name


nets = set()
for cable in top.cables:
    for wire in cable.wires:
        if wire.pins:
            nets.add(frozenset(endpoint(p) for p in wire.pins))
print(sorted(sorted(n) for n in nets))

expected = {
    frozenset(["top:IN", "src.I"]),
    frozenset(["src.O", "u0/mon.I", "dst.I", "top:OUT"]),
}
together = [n for n in nets if "src.O" in n]
assert together and {"dst.I", "top:OUT", "u0/mon.I"} <= set(together[0]), (
    "C09 violated: src.O fed dst.I and the top-level port OUT through cell u0 (port I to port O) "
    "before flattening, but after flattening src.O is only connected to %r" % sorted(together[0])
)
assert nets == expected, "C09 violated: nets after flattening are %r" % sorted(sorted(n) for n in nets)
print("OK")
