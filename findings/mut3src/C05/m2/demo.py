"""C05 demo: instances carry exactly the properties the text declares (identifier, original
name if renamed, typed value) and nothing else.

An instance (and a cell) declares a RENAMED property followed by plain properties."""
import os
import sys
import tempfile
import spydrnet as sdn

EDIF = """(edif d
  (edifVersion 2 0 0)
  (edifLevel 0)
  (keywordMap (keywordLevel 0))
  (library work
    (edifLevel 0)
    (technology (numberDefinition))
    (cell LUT2 (cellType GENERIC)
      (view netlist (viewType NETLIST)
        (interface (port I0 (direction INPUT)) (port I1 (direction INPUT)) (port O (direction OUTPUT))))
      (property (rename CELL_KIND "cell.kind") (string "lut"))
      (property AREA (integer 2))
    )
    (cell top (cellType GENERIC)
      (view netlist (viewType NETLIST)
        (interface (port a (direction INPUT)) (port y (direction OUTPUT)))
        (contents
          (instance u0 (viewRef netlist (cellRef LUT2))
            (property INIT (string "4'h8"))
            (property (rename BOX_TYPE "box.type") (string "PRIMITIVE") (owner "tool"))
            (property WIDTH (integer 2))
            (property IS_INVERTED (boolean (false)))
            (property (rename X_LOC "x:loc") (integer -3))
            (property KEEP (boolean (true)))
          )
          (instance u1 (viewRef netlist (cellRef LUT2))
            (property INIT (string "4'h1"))
          )
          (net n_a (joined (portRef a) (portRef I0 (instanceRef u0)) (portRef I1 (instanceRef u1))))
          (net n_y (joined (portRef O (instanceRef u0)) (portRef y)))
        )))
  )
  (design d (cellRef top (libraryRef work)))
)
"""

EXPECTED_U0 = [
    {"identifier": "INIT", "value": "4'h8"},
    {"identifier": "BOX_TYPE", "original_identifier": "box.type", "value": "PRIMITIVE"},
    {"identifier": "WIDTH", "value": 2},
    {"identifier": "IS_INVERTED", "value": False},
    {"identifier": "X_LOC", "original_identifier": "x:loc", "value": -3},
    {"identifier": "KEEP", "value": True},
]


def typed(props):
    return [dict(p, value=(type(p["value"]).__name__, p["value"])) for p in props]


def main():
    path = os.path.join(tempfile.mkdtemp(), "p.edf")
    with open(path, "w") as fh:
        fh.write(EDIF)
    netlist = sdn.parse(path)
    top = netlist.top_instance.reference
    u0 = next(top.get_instances("u0"))
    u1 = next(top.get_instances("u1"))
    got = u0["EDIF.properties"]
    assert typed(got) == typed(EXPECTED_U0), (
        "instance u0 does not carry exactly the declared properties: declared %r, parsed %r"
        % ([p for p, q in zip(EXPECTED_U0, got) if p != q], [q for p, q in zip(EXPECTED_U0, got) if p != q])
    )
    assert u1["EDIF.properties"] == [{"identifier": "INIT", "value": "4'h1"}]
    lut = next(netlist.get_definitions("LUT2"))
    assert lut["EDIF.properties"] == [
        {"identifier": "CELL_KIND", "original_identifier": "cell.kind", "value": "lut"},
        {"identifier": "AREA", "value": 2},
    ], "cell LUT2 does not carry exactly the declared properties: %r" % lut["EDIF.properties"]
    # nothing but netlist data is left on the objects (no parser scratch keys)
    for obj in (u0, u1, lut):
        stray = [k for k in obj if k.startswith("EDIF.properties.")]
        assert not stray, "parser scratch data left on %s: %r" % (obj.name, stray)
    print("C05 ok: properties (renamed and plain, string/integer/boolean) are exactly the declared ones")


if __name__ == "__main__":
    try:
        main()
    except AssertionError as e:
        print("C05 VIOLATION:", e)
        sys.exit(1)
