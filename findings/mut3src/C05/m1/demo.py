"""C05 demo: the design construct selects the top cell -- the cell of THAT library.

Multi-library EDIF in which several libraries (one before, one after the design's library)
declare a cell with the same name (legal: cell names are scoped by library).  (design d (cellRef core (libraryRef work))) must select work.core."""
import os
import sys
import tempfile
import spydrnet as sdn

EDIF = """(edif chip
  (edifVersion 2 0 0)
  (edifLevel 0)
  (keywordMap (keywordLevel 0))
  (library vendor
    (edifLevel 0)
    (technology (numberDefinition))
    (cell BUF (cellType GENERIC)
      (view netlist (viewType NETLIST)
        (interface (port I (direction INPUT)) (port O (direction OUTPUT)))))
    (comment "a vendor cell that happens to be called like the user's top cell")
    (cell core (cellType GENERIC)
      (view netlist (viewType NETLIST)
        (interface (port clk (direction INPUT)))))
  )
  (library work
    (edifLevel 0)
    (technology (numberDefinition))
    (cell core (cellType GENERIC)
      (view netlist (viewType NETLIST)
        (interface
          (port din (direction INPUT))
          (port dout (direction OUTPUT)))
        (contents
          (instance u_buf (viewRef netlist (cellRef BUF (libraryRef vendor))))
          (instance u_vcore (viewRef netlist (cellRef core (libraryRef vendor))))
          (net n_in (joined (portRef din) (portRef I (instanceRef u_buf))))
          (net n_out (joined (portRef O (instanceRef u_buf)) (portRef dout)))
        )))
  )
  (library spare
    (edifLevel 0)
    (technology (numberDefinition))
    (cell core (cellType GENERIC)
      (view netlist (viewType NETLIST)
        (interface (port a (direction INPUT)) (port b (direction INPUT)) (port z (direction OUTPUT)))))
  )
  (design (rename CHIP "chip_top") (cellRef CORE (libraryRef WORK)))
)
"""


def main():
    path = os.path.join(tempfile.mkdtemp(), "chip.edf")
    with open(path, "w") as fh:
        fh.write(EDIF)
    netlist = sdn.parse(path)
    assert [l.name for l in netlist.libraries] == ["vendor", "work", "spare"]
    work = netlist.libraries[1]
    vendor = netlist.libraries[0]
    top = netlist.top_instance
    assert top is not None and top.reference is not None, "no top instance"
    # renamed design: identifier and original name
    assert top["EDIF.identifier"] == "CHIP" and top.name == "chip_top", (top["EDIF.identifier"], top.name)
    ref = top.reference
    assert ref.library is work and ref is next(work.get_definitions("core")), (
        "the design construct says (cellRef CORE (libraryRef WORK)) but the top cell selected is "
        "%s.%s (ports %s) instead of work.core" % (ref.library.name, ref.name, [p.name for p in ref.ports])
    )
    assert top in ref.references and [p.name for p in ref.ports] == ["din", "dout"]
    # instance references still resolve per library
    kids = dict((c.name, c.reference) for c in ref.children)
    assert kids["u_vcore"] is next(vendor.get_definitions("core")) and kids["u_buf"].name == "BUF"
    print("C05 ok: the design construct selected work.core")


if __name__ == "__main__":
    try:
        main()
    except AssertionError as e:
        print("C05 VIOLATION:", e)
        sys.exit(1)
