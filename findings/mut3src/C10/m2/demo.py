"""C10 demo (EDIF naming policy, clones): "Asking a parent for a child by exact name or identifier
returns precisely the children a linear scan finds, for netlists built by hand, by the readers, or
by cloning", and identifiers "compared case-insensitively ... remain unique after any history".

An EDIF-policy netlist whose elements carry both a name and an EDIF identifier (as the EDIF reader
produces them for `(rename id "name")`) is cloned - as a whole netlist, as a library and as a
definition.  In every scope of every clone, lookup by name and by identifier must agree with a scan,
and adding a sibling whose identifier is a case variant of an existing one must be refused.
"""
import spydrnet as sdn

original_default = sdn.namespace_manager.default
sdn.namespace_manager.default = "EDIF"
try:
    netlist = sdn.Netlist(name="design", properties={"EDIF.identifier": "design"})
    prims = netlist.create_library(name="prims", properties={"EDIF.identifier": "Prims"})
    work = netlist.create_library(name="work lib", properties={"EDIF.identifier": "Work_Lib"})
    leaf = prims.create_definition(name="LEAF", properties={"EDIF.identifier": "Leaf"})
    top = work.create_definition(name="top[0]", properties={"EDIF.identifier": "Top_0"})
    top.create_port(name="in[1]", properties={"EDIF.identifier": "In_1"}).create_pin()
    top.create_port(properties={"EDIF.identifier": "OnlyId"}).create_pin()     # unnamed port
    top.create_cable(name="net<3>", properties={"EDIF.identifier": "Net_3"}).create_wire()
    top.create_cable(name="plain").create_wire()                               # no identifier
    top.create_child(name="u/0", reference=leaf, properties={"EDIF.identifier": "U_0"})
    netlist.top_instance = sdn.Instance(name="top_i")
    netlist.top_instance.reference = top

    def scan(children, key, value):
        out = []
        for child in children:
            if key in child:
                if key == "EDIF.identifier":
                    if child[key].lower() == value.lower():
                        out.append(child)
                elif child[key] == value:
                    out.append(child)
        return out

    def check_scope(label, children, get, cls, add):
        children = list(children)
        for child in children:
            for key in (".NAME", "EDIF.identifier"):
                if key not in child:
                    continue
                value = child[key]
                found = list(get(value, key=key))
                expect = scan(children, key, value)
                assert found == expect, (
                    "C10 violated in %s: exact lookup of %s=%r returns %r but a linear scan of the "
                    "children finds %r" % (label, key, value, found, expect)
                )
        # identifiers stay unique (case-insensitively): a colliding sibling must be refused
        for child in children:
            if "EDIF.identifier" in child:
                dup = cls(properties={"EDIF.identifier": child["EDIF.identifier"].swapcase()})
                try:
                    add(dup)
                except ValueError:
                    continue
                raise AssertionError(
                    "C10 violated in %s: a sibling with identifier %r was accepted although %r "
                    "exists - identifiers are no longer unique"
                    % (label, dup["EDIF.identifier"], child["EDIF.identifier"])
                )

    def check_definition(label, d):
        check_scope(label + " ports", d.ports, d.get_ports, sdn.Port, d.add_port)
        check_scope(label + " cables", d.cables, d.get_cables, sdn.Cable, d.add_cable)
        check_scope(label + " instances", d.children, d.get_instances, sdn.Instance, d.add_child)

    def check_library(label, lib):
        check_scope(label + " definitions", lib.definitions, lib.get_definitions, sdn.Definition,
                    lib.add_definition)
        for d in lib.definitions:
            check_definition("%s/%s" % (label, d.name), d)

    def check_netlist(label, n):
        check_scope(label + " libraries", n.libraries, n.get_libraries, sdn.Library, n.add_library)
        for lib in n.libraries:
            check_library("%s/%s" % (label, lib.name), lib)

    check_netlist("original", netlist)            # sanity: the hand-built netlist is consistent
    check_definition("clone of definition top", top.clone())
    check_library("clone of library work", work.clone())
    check_netlist("clone of netlist", netlist.clone())
    print("OK")
finally:
    sdn.namespace_manager.default = original_default
