"""C10 demo (EDIF naming policy): "an edit is refused exactly when it would create a duplicate or an
illegal identifier", and "asking a parent for a child by exact name or identifier returns precisely
the children a linear scan finds".

A cable whose NAME collides with a sibling (but whose EDIF identifier is new) is rightly refused by
add_cable.  The refused cable never became a child, so its identifier must not be remembered by the
scope: identifier lookup must agree with a scan and a later sibling using that identifier (here a
case variant of it) must be accepted.  The same is checked for ports, instances, definitions and
libraries.
"""
import spydrnet as sdn

original_default = sdn.namespace_manager.default
sdn.namespace_manager.default = "EDIF"
try:
    netlist = sdn.Netlist(name="design")
    library = netlist.create_library(name="work", properties={"EDIF.identifier": "work"})
    definition = library.create_definition(name="top", properties={"EDIF.identifier": "top"})

    def scan(children, key, value):
        value = value.lower() if key == "EDIF.identifier" else value
        result = []
        for child in children:
            if key in child:
                have = child[key].lower() if key == "EDIF.identifier" else child[key]
                if have == value:
                    result.append(child)
        return result

    cases = [
        # (what, class, add, children, exact lookup)
        ("cable", sdn.Cable, definition.add_cable, lambda: definition.cables, definition.get_cables),
        ("port", sdn.Port, definition.add_port, lambda: definition.ports, definition.get_ports),
        ("instance", sdn.Instance, definition.add_child, lambda: definition.children,
         definition.get_instances),
        ("definition", sdn.Definition, library.add_definition, lambda: library.definitions,
         library.get_definitions),
        ("library", sdn.Library, netlist.add_library, lambda: netlist.libraries,
         netlist.get_libraries),
    ]
    for what, cls, add, children, get in cases:
        first = cls(name="n", properties={"EDIF.identifier": "a"})
        add(first)

        clash = cls(name="n", properties={"EDIF.identifier": "fresh"})  # duplicate NAME
        try:
            add(clash)
        except ValueError:
            pass
        else:
            raise AssertionError("%s: duplicate name was accepted" % what)
        assert clash not in children()

        # exact lookup by identifier == linear scan (the refused element is no child)
        found = list(get("fresh", key="EDIF.identifier"))
        scanned = scan(children(), "EDIF.identifier", "fresh")
        assert found == scanned == [], (
            "C10 violated (%s scope): lookup by identifier 'fresh' returns %r but a linear scan of "
            "the children finds %r - the refused element is remembered by the scope"
            % (what, found, scanned)
        )

        # a new sibling may use that identifier (case variant): nothing in the scope collides
        later = cls(name="m", properties={"EDIF.identifier": "FRESH"})
        try:
            add(later)
        except ValueError as e:
            raise AssertionError(
                "C10 violated (%s scope): adding a child with identifier 'FRESH' was refused (%s) "
                "although no sibling has that identifier - it collides only with an element whose "
                "add was refused earlier" % (what, e)
            )
        assert list(get("fresh", key="EDIF.identifier")) == [later]
        assert list(get("m")) == [later] and list(get("n")) == [first]
    print("OK")
finally:
    sdn.namespace_manager.default = original_default
