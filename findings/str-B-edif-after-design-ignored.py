"""C05 (found by the widened EDIF generator, style design_pos='free'): the EDIF reader stops reading at the (design ...) construct.

EDIF 2 0 0:  edif ::= (edif name edifVersion edifLevel keywordMap {status | external | library | design | comment | userData})
-- the design may stand anywhere after the library of the cell it names; libraries, comments and a status may follow it.
EdifParser.parse_design() reads the cellRef/libraryRef names with raw tokenizer.next() calls and leaves the parenthesis depth two
levels too deep; parse_body()/parse_edif() then take the closing parentheses of libraryRef and cellRef for the end of the body and
of the file.  Whatever follows is never read: a library declared after the design is silently missing from the netlist, comments
after the design are not kept, and text that is not EDIF at all is accepted without complaint.

Property C05: "the parsed netlist has exactly the libraries, cells, ports, instances and nets the text declares".
run: PYTHONPATH=/repo /venv/bin/python /verif/findings/str-B-edif-after-design-ignored.py     (exit 1 = defect present)
"""
import os, sys, tempfile
import spydrnet as sdn

HEAD = """(edif demo (edifVersion 2 0 0) (edifLevel 0) (keywordMap (keywordLevel 0))
  (library work (edifLevel 0) (technology (numberDefinition))
    (cell top (cellType GENERIC) (view netlist (viewType NETLIST) (interface (port a (direction INPUT))))))
"""
DESIGN = "  (design top (cellRef top (libraryRef work)))\n"
EXTRA = """  (comment "written after the design")
  (library extra (edifLevel 0) (technology (numberDefinition))
    (cell spare (cellType GENERIC) (view netlist (viewType NETLIST) (interface (port z (direction OUTPUT))))))
"""


def parse(text):
    d = tempfile.mkdtemp()
    p = os.path.join(d, 'x.edf')
    open(p, 'w').write(text)
    try:
        return sdn.parse(p)
    finally:
        os.remove(p); os.rmdir(d)


problems = []
a = parse(HEAD + EXTRA + DESIGN + ")\n")          # design last: the usual layout
b = parse(HEAD + DESIGN + EXTRA + ")\n")          # same constructs, design before the unrelated library
la, lb = [l.name for l in a.libraries], [l.name for l in b.libraries]
print('design last : libraries', la, 'comments', a.data.get('EDIF.comments'))
print('design early: libraries', lb, 'comments', b.data.get('EDIF.comments'))
if la != ['work', 'extra'] or a.data.get('EDIF.comments') != [('written after the design',)]:
    problems.append('unexpected result for the usual layout')
if lb != la:
    problems.append('library "extra" (declared after the design) is missing from the parsed netlist: %r' % lb)
if b.data.get('EDIF.comments') != a.data.get('EDIF.comments'):
    problems.append('the comment after the design is not kept: %r' % b.data.get('EDIF.comments'))
try:
    parse(HEAD + DESIGN + "  this is ((( not EDIF at all\n")
    problems.append('text that is not EDIF after the design (unbalanced parentheses, no closing parenthesis) is accepted silently')
except Exception as e:
    print('garbage after the design rejected:', type(e).__name__)
for p in problems:
    print('DEFECT:', p)
sys.exit(1 if problems else 0)
