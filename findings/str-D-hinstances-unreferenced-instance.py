"""C11 finding (str-D): get_hinstances(instance) omits the occurrences of an instance that has no reference.

Property C11: "asking for the occurrences of a given element returns exactly the paths that end in it".
An instance whose reference was set to None still sits in its parent definition: get_hinstances(netlist) lists the path and the
reference reports is_valid True, but get_hinstances(instance) returns nothing, because HRef.get_all_hrefs_of_instances finds the
netlist through instance.reference.library.netlist (spydrnet/util/hierarchical_reference.py).  In a collection the answer depends
on which instance the set iterator yields first.

run: PYTHONPATH=/repo /venv/bin/python /verif/findings/str-D-hinstances-unreferenced-instance.py     (exit 1 = defect present)
"""
import sys
import spydrnet as sdn

n = sdn.Netlist(name='n')
lib = n.create_library(name='work')
leaf = lib.create_definition(name='leaf')
top = lib.create_definition(name='top')
u0 = top.create_child(name='u0', reference=leaf)
n.set_top_instance(top, instance_name='top')
assert [h.name for h in sdn.get_hinstances(u0)] == ['u0']

u0.reference = None              # same for an instance created without a reference: top.create_child(name='u1')
within = list(sdn.get_hinstances(n))
print('get_hinstances(netlist)  -> %r  is_valid %r' % (within, [h.is_valid for h in within]))
occurrences = list(sdn.get_hinstances(u0))
print('get_hinstances(u0)       -> %r  (expected the one path top/u0)' % occurrences)
bad = [h.name for h in within] == ['u0'] and within[0].is_valid and occurrences == []
print('DEFECT: the occurrence of an instance without reference is omitted' if bad else 'OK')
sys.exit(1 if bad else 0)
