"""Stand-alone reproducer (unchanged /repo): uniquify gives the copy of a definition an EDIF identifier that another
definition of the same library already carries.

    cd /repo && PYTHONPATH=/repo /venv/bin/python /verif/findings/str-C-uniquify-identifier-taken.py     -> exit 1, four findings (2 inputs x 2 naming policies)

spydrnet/uniquify.py:_make_instance_unique skips suffixes whose *name* <name>_sdn_unique_<k> is taken (fix 5244205) and then
appends the same suffix to EDIF.identifier without looking at the identifiers in the library. Identifiers need not equal names
(EDIF `(rename id "name")`; identifiers compare ignoring case), so a well-formed netlist can hold a cell whose identifier is
<identifier>_sdn_unique_<k> under a name that is not <name>_sdn_unique_<k>:

  * EDIF naming policy (what the EDIF parser builds): uniquify raises ValueError ("Adding this element would result in a naming
    conflict") in the middle of the walk - the netlist is left half-uniquified, the rejected copy stays registered in the
    reference sets of the definitions its children instantiate.
  * DEFAULT naming policy: uniquify returns normally and the library holds two cells with the same EDIF identifier; the EDIF
    composer writes both cells under that one identifier.

C08: "The netlist stays well-formed, newly created definitions have fresh unique names in the original's library ... for all
well-formed netlists with a top instance".
"""
import io
import os
import sys
import tempfile

import spydrnet as sdn
import spydrnet.uniquify as uq
from spydrnet.plugins import namespace_manager as NM


def build(policy, other_name, other_ident):
    saved = NM.default
    NM.default = policy
    try:
        n = sdn.Netlist(name='design')
        n['EDIF.identifier'] = 'design'
        lib = n.create_library(name='work')
        lib['EDIF.identifier'] = 'work'

        def cell(name, ident):
            d = lib.create_definition(name=name)
            d['EDIF.identifier'] = ident
            return d
        leaf = cell('leaf', 'leaf')
        leaf.create_port(name='i', direction=sdn.IN, pins=1)
        mid = cell('Mod', 'Mod')
        p = mid.create_port(name='i', direction=sdn.IN, pins=1)
        w = mid.create_cable(name='n', wires=1).wires[0]
        w.connect_pin(p.pins[0])
        w.connect_pin(mid.create_child(name='l', reference=leaf).pins[leaf.ports[0].pins[0]])
        other = cell(other_name, other_ident)            # an unrelated cell; names differ from every name uniquify will try
        other.create_port(name='i', direction=sdn.IN, pins=1)
        other.create_cable(name='n', wires=1).wires[0].connect_pin(other.ports[0].pins[0])
        top = cell('top', 'top')
        for name, ref in (('a', mid), ('b', mid), ('c', other)):
            top.create_child(name=name, reference=ref)
        ti = sdn.Instance(name='top_i')
        ti.reference = top
        n.top_instance = ti
        return n
    finally:
        NM.default = saved


def main():
    bad = 0
    for policy in ('EDIF', 'DEFAULT'):
        for other_name, other_ident in (('other', 'Mod_sdn_unique_0'),              # renamed cell
                                        ('mod_sdn_unique_0', 'mod_sdn_unique_0')):   # name differs from 'Mod_sdn_unique_0' in case only
            uq.MOD_NAME_UID = 0          # a fresh process
            n = build(policy, other_name, other_ident)
            lib = n.libraries[0]
            before = [(d.name, d['EDIF.identifier']) for d in lib.definitions]
            assert len(set(x[0] for x in before)) == len(before) and len(set(x[1].lower() for x in before)) == len(before)
            try:
                uq.uniquify(n)
            except Exception as e:
                bad += 1
                shared = len(next(n.get_definitions('Mod')).references)
                print('FINDING (%s policy, other cell %r/%r): uniquify raised %s: %s; Mod still has %d instances, leaf has %d references for 1 visible instance'
                      % (policy, other_name, other_ident, type(e).__name__, e, shared, len(next(n.get_definitions('leaf')).references)))
                continue
            idents = [d['EDIF.identifier'].lower() for d in lib.definitions]
            dup = sorted(set(x for x in idents if idents.count(x) > 1))
            if dup:
                bad += 1
                with tempfile.TemporaryDirectory() as td:
                    path = os.path.join(td, 'out.edf')
                    sdn.compose(n, path)
                    text = open(path).read()
                print('FINDING (%s policy, other cell %r/%r): after uniquify two cells of library work carry the identifier %r: %r; the composed EDIF declares %d cells with the identifier %s'
                      % (policy, other_name, other_ident, dup[0], [(d.name, d['EDIF.identifier']) for d in lib.definitions],
                         text.lower().count('(cell ' + dup[0]) + text.lower().count('(cell (rename ' + dup[0]), dup[0]))
    print('%d finding(s)' % bad)
    return 1 if bad else 0


if __name__ == '__main__':
    sys.exit(main())
