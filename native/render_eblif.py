"""Independent flat BLIF/EBLIF writer: seeded flat abstract design + style -> text, and the canonical structure the text describes.

Written from the Berkeley BLIF description and the VTR "Extended BLIF" page referenced by docs/source/reference/eblif_support.rst
(and property C18), not from spydrnet's composer:
  .model name / .inputs a b[0] b[1] / .outputs y / statements / .end ;  '#' starts a comment, a trailing '\\' continues the line
  .subckt model formal=actual ...   .gate model formal=actual ...   (formal, actual: name or name[index]; actual 'unconn' = open)
  .names in... out  followed by single-output-cover rows            .latch input output type control init
  .cname name / .attr key value / .param key value  attach to the statement above them;  .conn a b joins two nets
  .model M / .inputs .. / .outputs .. / .blackbox / .end  declares a black box
What the reader is expected to build (C18): one instance per .subckt/.gate/.names/.latch whose definition is the named model
(.names -> logic-gate_<inputs>, ports in_0.. out; .latch -> generic-latch, ports input output type control init-val), data attached,
model inputs/outputs as ports with that direction, every formal=actual joined to the named net bit, .conn merging, black boxes
(declared or only used) leaf primitives in hdi_primitives, the first model the top.

Flat abstract design: {"name", "ports":[{"name","direction","width"}], "models":[{"name","ports":[...], "declared":bool}],
  "instances":[{"kind","model","cname","attr","param","pins":[[port,idx|None,net,idx|None] | [port,idx|None,"unconn",None]],
               "inputs":[[net,idx]], "output":[net,idx], "covers":[str], "latch":[in,out,type,control,init]}], "conns":[[[n,i],[n,i]]]}

Net names: 30% from an adversarial alphabet; on top of that 35% of the designs get 1-3 of their nets (top ports included) renamed to
names that contain a reserved word of the format as a prefix / suffix / infix / case variant (unconn - the "open" actual -, the
constant names $true $false $undef, statement keywords, latch type words) or that look like an indexed bit without being one
(reserved_word_names); the oracle stays literal: only the exact actual `unconn` is open, every other actual is a net.

style: seed, bb_pos ('after'|'before'|'mixed'), comments ('none'|'line'|'tight' between statements|'trailing' on statement lines|
  'after-model' between .model and .inputs|'inner' between a statement and its .cname/.attr/.param), header_gap (blank/comment line
  between .inputs and .outputs), continuation (probability),
  order ('as-is'|'shuffle'), conn_pos ('end'|'random'), io ('one-line'|'split'|'outputs-first'), blank (probability of blank lines),
  info_order ('cname-first'|'shuffle'), latch ('five'|'mixed')
"""
import random, json

W = ['a', 'b', 'c', 'd', 'q', 'x', 'y', 'clk', 'rst', 'din', 'dout', 'sig', 'n', 'data', 'sel', 'en', 't', 'lut', 'ff', 'cnt']


def nm(r, used, adversarial=0.3):
    for k in range(200):
        w = r.choice(W) + (str(r.randint(0, 9)) if r.random() < 0.5 else '')
        if r.random() < adversarial:
            w = r.choice(['$' + w, w + '$' + str(r.randint(0, 99)), '$abc$' + str(r.randint(100, 999)) + '$' + w, w + '.' + r.choice(W), w + ':' + str(r.randint(1, 99)),
                          w + '~' + str(r.randint(0, 9)), w.upper(), '$0\\' + w, w + '_' + r.choice(W), w + '^' + r.choice(W)])
        if k > 50:
            w += '_%d' % k
        if w not in used:
            used.add(w)
            return w
    raise RuntimeError('names exhausted')


def gen_flat(seed):
    r = random.Random('flat:%s' % seed)
    used = set(['unconn'])
    ad = {'name': nm(r, used, 0.1), 'flavor': 'eblif', 'ports': [], 'models': [], 'instances': [], 'conns': []}
    nets = []          # (name, idx or None)
    for _ in range(r.randint(1, 4)):
        w = r.choice([1, 1, 1, 2, 3])
        p = {'name': nm(r, used, 0.1), 'direction': r.choice(['IN', 'IN', 'OUT']), 'width': w}
        ad['ports'].append(p)
        nets += [(p['name'], None)] if w == 1 else [(p['name'], b) for b in range(w)]
    for _ in range(r.randint(3, 8)):
        nets.append((nm(r, used), None))
    for _ in range(r.choice([0, 1, 1, 2])):
        n, w = nm(r, used), r.randint(2, 4)
        nets += [(n, b) for b in range(w)]
    mused = set(used)
    for _ in range(r.randint(1, 3)):
        pu = set()
        m = {'name': nm(r, mused, 0.1), 'ports': [], 'declared': r.random() < 0.7}
        for j in range(r.randint(1, 4)):
            m['ports'].append({'name': nm(r, pu, 0.05), 'direction': 'OUT' if j == 0 else r.choice(['IN', 'IN', 'OUT']), 'width': r.choice([1, 1, 1, 2, 3])})
        ad['models'].append(m)
    driven = set((p['name'], (None if p['width'] == 1 else b)) for p in ad['ports'] if p['direction'] == 'IN' for b in range(p['width']))
    cn = used        # instance names and net names share one namespace here: the reader names an instance after the net it drives

    def free_out():
        c = [x for x in nets if x not in driven]
        if not c:
            x = (nm(r, used), None)
            nets.append(x)
            c = [x]
        x = r.choice(c)
        driven.add(x)
        return list(x)
    for _ in range(r.randint(2, 7)):
        kind = r.choice(['subckt'] * 5 + ['gate'] + ['names'] * 3 + ['latch'] * 2)
        i = {'kind': kind, 'cname': nm(r, cn) if r.random() < 0.7 else None, 'attr': {}, 'param': {}}
        for k in r.sample(['src', 'keep', 'LOC', 'module_not_derived'], r.choice([0, 0, 1, 2])):
            i['attr'][k] = r.choice(['"top.v:12.3-14.5"', '1', '00000000000000000000000000000001', '"X0Y1"'])
        for k in r.sample(['INIT', 'WIDTH', 'IS_C_INVERTED', 'MODE'], r.choice([0, 0, 1, 2])):
            i['param'][k] = r.choice(['1010', '00000000000000011000000000000000', "1'b0", '"TRUE"', '4'])
        if kind in ('subckt', 'gate'):
            m = r.choice(ad['models'])
            i['model'] = m['name']
            i['pins'] = []
            for p in m['ports']:
                for b in range(p['width']):
                    idx = None if p['width'] == 1 else b
                    x = r.random()
                    if x < 0.8:
                        t = free_out() if p['direction'] == 'OUT' else list(r.choice(nets))     # every net has one driver
                        i['pins'].append([p['name'], idx, t[0], t[1]])
                    elif x < 0.9:
                        i['pins'].append([p['name'], idx, 'unconn', None])
        elif kind == 'names':
            i['inputs'] = [list(r.choice(nets)) for _ in range(r.choice([0, 1, 2, 2, 3]))]
            i['output'] = free_out()
            k = len(i['inputs'])
            i['covers'] = [(''.join(r.choice('01-') for _ in range(k)) + ' 1') if k else '1' for _ in range(r.randint(0 if not k else 1, 2))][:2 if k else 1]
        else:
            i['latch'] = [list(r.choice(nets)), free_out(), r.choice(['re', 'fe', 'ah', 'al', 'as']), list(r.choice(nets)), r.choice(['0', '1', '2', '3'])]
            i['short'] = r.random() < 0.3            # may be written as ".latch input output" when the style allows
        ad['instances'].append(i)
    for _ in range(r.choice([0, 0, 0, 1, 2])):
        a, b = r.sample(nets, 2)
        ad['conns'].append([list(a), list(b)])
    # a wide .names (more than ten inputs, so that in_10.. exist beside in_1, in_2), drawn from a generator of its own so
    # that the designs above stay what they were for a given seed
    rw = random.Random('flat-wide:%s' % seed)
    if rw.random() < 0.12:
        k = rw.randint(11, 13)
        pool = [x for x in nets]
        rw.shuffle(pool)
        ins = pool[:k]
        while len(ins) < k:
            x = (nm(rw, used), None)
            nets.append(x)
            ins.append(x)
        out = (nm(rw, used), None)
        nets.append(out)
        ad['instances'].append({'kind': 'names', 'cname': nm(rw, used) if rw.random() < 0.7 else None, 'attr': {}, 'param': {},
                                'inputs': [list(x) for x in ins], 'output': list(out),
                                'covers': [''.join(rw.choice('01-') for _ in range(k)) + ' 1' for _ in range(rw.randint(1, 2))]})
    ad['nets'] = [list(x) for x in nets]
    # net names that contain reserved words of the format, again from a generator of their own
    reserved_word_names(ad, random.Random('flat-resv:%s' % seed))
    return ad


# reserved words of BLIF/EBLIF as they may turn up inside ordinary net names (none of these names IS the open actual `unconn`)
UNCONN_LIKE = ['unconnected_%s', 'unconn_%s', 'unconn%s', '%s_unconn', 'dbg_unconn_%s', '%s.unconn', 'UNCONN', 'Unconn', 'unconn$%s', '$unconn', 'xunconn',
               'unconn_', '_unconn', 'unconnx']
CONST_LIKE = ['$true', '$false', '$undef', '$true_%s', '%s$false', '$undef.%s', 'n$true$%s', '$TRUE', '$falsey']
WORD_LIKE = ['names', 'latch_%s', 'subckt', 'end', '%s.end', 'model_%s', 'conn', 'conn_%s', 'cname', 'blackbox', 'inputs', 'gate%s', '%s.names', 're', 'fe', 'ah_%s',
             'nil', 'NIL_%s']
BIT_LIKE = ['%s[0]_x', '%s_0_', '%s[1]q', '%s<1>', '%s(2)', 'b[%s', '%s]x']


def reserved_name(r, used):
    for k in range(200):
        fam = r.choice([UNCONN_LIKE] * 5 + [CONST_LIKE] * 2 + [WORD_LIKE] * 2 + [BIT_LIKE])
        t = r.choice(fam)
        w = (t % (r.choice(W) + (str(r.randint(0, 9)) if r.random() < 0.5 else ''))) if '%s' in t else t
        if k > 50:
            w += '_%d' % k
        if w not in used and w != 'unconn' and not w.endswith(']'):
            used.add(w)
            return w
    raise RuntimeError('names exhausted')


def all_names(ad):
    s = set(['unconn', ad['name']])
    s.update(n for n, i in ad['nets'])
    s.update(p['name'] for p in ad['ports'])
    s.update(m['name'] for m in ad['models'])
    s.update(i['cname'] for i in ad['instances'] if i.get('cname'))
    return s


def rename_net(ad, old, new):
    """rename the net (scalar or bus) `old`, and the top port of that name if there is one, everywhere in the flat design"""
    def fix(x):
        if x[0] == old:
            x[0] = new
    for p in ad['ports']:
        if p['name'] == old:
            p['name'] = new
    for x in ad['nets']:
        fix(x)
    for i in ad['instances']:
        for p in i.get('pins', []):
            if p[2] == old:
                p[2] = new
        for x in i.get('inputs', []):
            fix(x)
        if 'output' in i:
            fix(i['output'])
        if 'latch' in i:
            fix(i['latch'][0]); fix(i['latch'][1]); fix(i['latch'][3])
    for c in ad['conns']:
        fix(c[0]); fix(c[1])


def used_nets(ad):
    """names of the nets that are the actual of at least one .subckt/.gate/.names/.latch pin, in order of first use"""
    out = []
    for i in ad['instances']:
        for p in i.get('pins', []):
            out.append(p[2])
        out += [x[0] for x in i.get('inputs', [])]
        if 'output' in i:
            out.append(i['output'][0])
        if 'latch' in i:
            out += [i['latch'][0][0], i['latch'][1][0], i['latch'][3][0]]
    seen, res = set(), []
    for n in out:
        if n != 'unconn' and n not in seen:
            seen.add(n); res.append(n)
    return res


def reserved_word_names(ad, r, p=0.35, force=False):
    """Give 1-3 nets that are used as actuals (scalar nets, buses, nets of top ports) a name that contains a reserved word."""
    if r.random() >= p and not force:
        return False
    cands = used_nets(ad)
    if not cands:
        return False
    used = all_names(ad)
    for old in r.sample(cands, min(len(cands), r.choice([1, 1, 2, 3]))):
        rename_net(ad, old, reserved_name(r, used))
    return True


def corner_ads():
    """fixed corner designs that run on every invocation (name, flat abstract design)"""
    k = 13
    ins = ['i%d' % j for j in range(k)]
    wide = {'name': 'wide', 'flavor': 'eblif', 'ports': [{'name': n, 'direction': 'IN', 'width': 1} for n in ins] + [{'name': 'o', 'direction': 'OUT', 'width': 1}],
            'models': [], 'conns': [], 'nets': [[n, None] for n in ins] + [['o', None]],
            'instances': [{'kind': 'names', 'cname': 'wide_and', 'attr': {}, 'param': {}, 'inputs': [[n, None] for n in ins], 'output': ['o', None],
                           'covers': ['1' * k + ' 1', '0-1' + '-' * (k - 3) + ' 1']}]}
    # reserved words of the format inside ordinary net names, on every kind of statement; only the actual `unconn` is open
    def sub(kind, model, cname, pins):
        return {'kind': kind, 'model': model, 'cname': cname, 'attr': {}, 'param': {}, 'pins': pins}
    resv = {'name': 'resv', 'flavor': 'eblif',
            'ports': [{'name': 'a', 'direction': 'IN', 'width': 1}, {'name': 'unconnected_in', 'direction': 'IN', 'width': 1},
                      {'name': '$true', 'direction': 'IN', 'width': 1}, {'name': 'y', 'direction': 'OUT', 'width': 1},
                      {'name': 'unconn_o', 'direction': 'OUT', 'width': 2}],
            'models': [{'name': 'BUF', 'declared': True, 'ports': [{'name': 'O', 'direction': 'OUT', 'width': 1}, {'name': 'I', 'direction': 'IN', 'width': 1}]},
                       {'name': 'OR2', 'declared': False, 'ports': [{'name': 'Y', 'direction': 'OUT', 'width': 1}, {'name': 'A', 'direction': 'IN', 'width': 1},
                                                                    {'name': 'B', 'direction': 'IN', 'width': 1}]}],
            'conns': [],
            'instances': [sub('subckt', 'BUF', 'u_buf', [['I', None, 'unconnected_in', None], ['O', None, 'unconn', None]]),
                          sub('subckt', 'OR2', 'u_or', [['A', None, 'a', None], ['B', None, 'unconnected_in', None], ['Y', None, 'dbg_unconn_2', None]]),
                          sub('gate', 'BUF', None, [['I', None, 'dbg_unconn_2', None], ['O', None, 'unconn_3', 1]]),
                          sub('subckt', 'BUF', 'u_b2', [['I', None, 'unconn_3', 1], ['O', None, 'unconn_o', 0]]),
                          sub('subckt', 'BUF', 'u_b3', [['I', None, '$true', None], ['O', None, '$false', None]]),
                          {'kind': 'names', 'cname': 'u_lut', 'attr': {}, 'param': {}, 'inputs': [['$false', None], ['UNCONN', None], ['unconn_3', 0]],
                           'output': ['$undef', None], 'covers': ['1-0 1']},
                          {'kind': 'names', 'cname': None, 'attr': {}, 'param': {}, 'inputs': [['$undef', None]], 'output': ['unconn_', None], 'covers': ['1 1']},
                          {'kind': 'latch', 'cname': 'u_ff', 'attr': {}, 'param': {}, 'short': False,
                           'latch': [['unconn_', None], ['xunconn', None], 're', ['unconnected_in', None], '0']},
                          {'kind': 'latch', 'cname': None, 'attr': {}, 'param': {}, 'short': False,
                           'latch': [['xunconn', None], ['unconn_o', 1], 'fe', ['a', None], '2']},
                          sub('subckt', 'BUF', 'u_b4', [['I', None, 'xunconn', None], ['O', None, 'UNCONN', None]]),
                          sub('subckt', 'BUF', 'u_b5', [['I', None, 'unconn_o', 1], ['O', None, 'unconn_3', 0]]),
                          sub('subckt', 'BUF', 'u_b6', [['I', None, 'unconn_o', 0], ['O', None, 'y', None]])]}
    resv['nets'] = [[p['name'], None if p['width'] == 1 else b] for p in resv['ports'] for b in range(p['width'])] + \
                   [['dbg_unconn_2', None], ['unconn_3', 0], ['unconn_3', 1], ['$false', None], ['$undef', None], ['UNCONN', None], ['unconn_', None], ['xunconn', None]]
    return [('names-with-13-inputs', wide), ('reserved-words-inside-net-names', resv)]


def features(ad):
    return {'insts': len(ad['instances']), 'kinds': sorted(set(i['kind'] for i in ad['instances'])), 'conns': len(ad['conns']),
            'bus_nets': len(set(n for n, i in ad['nets'] if i is not None)), 'undeclared': sum(1 for m in ad['models'] if not m['declared']),
            'cnames': sum(1 for i in ad['instances'] if i['cname'])}


def make_style(seed, variant=0):
    r = random.Random('eblif-style:%s:%s' % (seed, variant))
    return {'seed': r.randint(0, 10 ** 9), 'bb_pos': r.choice(['after', 'after', 'before', 'mixed']),
            'comments': r.choice(['none', 'line', 'line', 'tight', 'trailing', 'after-model', 'inner']), 'header_gap': r.random() < 0.15,
            'continuation': r.choice([0, 0, 0.3]),
            'order': r.choice(['as-is', 'shuffle']), 'conn_pos': r.choice(['end', 'end', 'random']), 'io': r.choice(['one-line', 'one-line', 'split', 'outputs-first']),
            'blank': r.choice([0, 0.2]), 'info_order': r.choice(['cname-first', 'shuffle']), 'latch': r.choice(['five', 'five', 'mixed'])}


def ref(n, i):
    return n if i is None else '%s[%d]' % (n, i)


def item_order(ad, style):
    """the order in which instance statements and .conn lines appear in the text (a semantic decision only in so far as
    instances without .cname are identified by their position among the instances without .cname)"""
    r = random.Random('eblif-order:%s' % style['seed'])
    items = [('inst', k) for k in range(len(ad['instances']))]
    if style['order'] == 'shuffle':
        r.shuffle(items)
    conns = [('conn', k) for k in range(len(ad['conns']))]
    if style['conn_pos'] == 'end':
        items += conns
    else:
        for c in conns:
            items.insert(r.randint(0, len(items)), c)
    return items


class Writer:
    def __init__(self, ad, style):
        self.ad, self.style = ad, style
        self.r = random.Random('eblif-render:%s' % style['seed'])
        self.lines = []

    def stmt(self, words, comment_ok=True):
        r, st = self.r, self.style
        out, cur = [], []
        for k, w in enumerate(words):
            cur.append(w)
            if 1 <= k < len(words) - 1 and r.random() < st['continuation']:
                out.append(' '.join(cur) + ' \\')
                cur = []
        line = ' '.join(cur)
        if comment_ok and st['comments'] == 'trailing' and r.random() < 0.3:
            line += ' # trailing remark'
        out.append(line)
        self.lines += out

    def filler(self, where='between'):
        """blank / comment lines: 'between' two statements (after the .cname/.attr/.param lines of the previous one),
        'header' between the .inputs/.outputs lines, 'inner' between a statement and its .cname/.attr/.param lines"""
        r, st = self.r, self.style
        if where == 'header':
            if st.get('header_gap'):
                self.lines.append(r.choice(['', '# the outputs follow']))
            return
        if where == 'inner':
            if st['comments'] == 'inner' and r.random() < 0.4:
                self.lines.append('# remark about the cell above')
            return
        if r.random() < st['blank']:
            self.lines.append('')
        if st['comments'] in ('line', 'inner') and r.random() < 0.25:
            self.lines.append('# a comment .subckt X a=b')
        if st['comments'] == 'tight' and r.random() < 0.25:
            self.lines.append('#tight comment')

    def ports_header(self, ports):
        st, r = self.style, self.r
        ins = [ref(p['name'], None if p['width'] == 1 else b) for p in ports if p['direction'] == 'IN' for b in range(p['width'])]
        outs = [ref(p['name'], None if p['width'] == 1 else b) for p in ports if p['direction'] == 'OUT' for b in range(p['width'])]
        groups = [('.inputs', ins), ('.outputs', outs)]
        if st['io'] == 'outputs-first':
            groups.reverse()
        for kw, names in groups:
            if st['io'] == 'split' and len(names) > 1:
                k = r.randint(1, len(names) - 1)
                self.stmt([kw] + names[:k], comment_ok=False)
                self.stmt([kw] + names[k:], comment_ok=False)
            else:
                self.stmt([kw] + names, comment_ok=False)
            if kw == groups[0][0]:
                self.filler('header')

    def blackbox(self, m):
        self.lines.append('.model ' + m['name'])
        self.ports_header(m['ports'])
        self.lines.append('.blackbox')
        self.lines.append('.end')
        self.lines.append('')

    def render(self):
        ad, st, r = self.ad, self.style, self.r
        decl = [m for m in ad['models'] if m['declared'] and any(i.get('model') == m['name'] for i in ad['instances'])]
        before = [m for m in decl if st['bb_pos'] == 'before' or (st['bb_pos'] == 'mixed' and r.random() < 0.5)]
        after = [m for m in decl if m not in before]
        self.lines.append('# written by the independent EBLIF writer')
        for m in before:
            self.blackbox(m)
        self.lines.append('.model ' + ad['name'])
        if st['comments'] == 'after-model':
            self.lines.append('# ports follow')
        self.ports_header(ad['ports'])
        items = [(kind, ad['instances'][k] if kind == 'inst' else ad['conns'][k]) for kind, k in item_order(ad, st)]
        for kind, x in items:
            if kind == 'conn':
                self.stmt(['.conn', ref(*x[0]), ref(*x[1])])
                self.filler()
                continue
            if x['kind'] in ('subckt', 'gate'):
                pins = list(x['pins'])
                if st['order'] == 'shuffle':
                    r.shuffle(pins)
                self.stmt(['.' + x['kind'], x['model']] + ['%s=%s' % (ref(p[0], p[1]), ref(p[2], p[3])) for p in pins])
            elif x['kind'] == 'names':
                self.stmt(['.names'] + [ref(*n) for n in x['inputs']] + [ref(*x['output'])], comment_ok=False)
                for row in x['covers']:
                    self.lines.append(row)
            else:
                l = x['latch']
                if st['latch'] == 'mixed' and x.get('short'):
                    self.stmt(['.latch', ref(*l[0]), ref(*l[1])])
                else:
                    self.stmt(['.latch', ref(*l[0]), ref(*l[1]), l[2], ref(*l[3]), l[4]])
            self.filler('inner')
            info = []
            if x['cname']:
                info.append(['.cname', x['cname']])
            info += [['.attr', k, v] for k, v in x['attr'].items()]
            info += [['.param', k, v] for k, v in x['param'].items()]
            if st['info_order'] == 'shuffle':
                r.shuffle(info)
            for w in info:
                self.lines.append(' '.join(w))
            self.filler()
        self.lines.append('.end')
        self.lines.append('')
        for m in after:
            self.blackbox(m)
        return '\n'.join(self.lines) + '\n'


def render(ad, style):
    return Writer(ad, style).render()


def ad_canon(ad, style):
    """Structure the text describes (shape of rtcommon.net_canon_eblif)."""
    c = {'top': ad['name'], 'models': {}, 'insts': {}, 'parts': [], 'named': {}}
    c['models'][ad['name']] = {'lib': 'work', 'leaf': False, 'ports': {p['name']: {'dir': p['direction'], 'width': p['width']} for p in ad['ports']}}
    short_latch = style.get('latch') == 'mixed'
    usage = {}
    conn_usage = {}
    uf = {}

    def find(x):
        uf.setdefault(x, x)
        while uf[x] != x:
            uf[x] = uf[uf[x]]
            x = uf[x]
        return x
    pins_of = {}

    def join(net, idx, pin):
        k = (net, 0 if idx is None else idx)
        find(k)
        pins_of.setdefault(k, []).append(pin)
    for p in ad['ports']:
        for b in range(p['width']):
            join(p['name'], b, ['port', p['name'], b])
    un = 0
    for i in [ad['instances'][k] for kind, k in item_order(ad, style) if kind == 'inst']:
        if i['cname']:
            key = i['cname']
        else:
            key = '#%d' % un
            un += 1
        rec = {'type': 'EBLIF.' + i['kind'], 'cname': i['cname'], 'attr': dict(i['attr']), 'param': dict(i['param'])}
        if i['kind'] in ('subckt', 'gate'):
            rec['ref'] = i['model']
            u = usage.setdefault(i['model'], {})
            uc = conn_usage.setdefault(i['model'], {})
            for p in i['pins']:
                idx = 0 if p[1] is None else p[1]
                u[p[0]] = max(u.get(p[0], 0), idx + 1)
                uc[p[0]] = max(uc.get(p[0], 1), idx + 1 if p[2] != 'unconn' else 1)
                if p[2] != 'unconn':
                    join(p[2], p[3], ['inst', key, p[0], idx])
        elif i['kind'] == 'names':
            k = len(i['inputs'])
            rec['ref'] = 'logic-gate_%d' % k
            rec['covers'] = [row.split() for row in i['covers']]
            c['models'].setdefault(rec['ref'], {'lib': 'hdi_primitives', 'leaf': True, 'ports': dict(
                [('in_%d' % j, {'dir': 'IN', 'width': 1}) for j in range(k)] + [('out', {'dir': 'OUT', 'width': 1})])})
            for j, n in enumerate(i['inputs']):
                join(n[0], n[1], ['inst', key, 'in_%d' % j, 0])
            join(i['output'][0], i['output'][1], ['inst', key, 'out', 0])
        else:
            rec['ref'] = 'generic-latch'
            l = i['latch']
            join(l[0][0], l[0][1], ['inst', key, 'input', 0])
            join(l[1][0], l[1][1], ['inst', key, 'output', 0])
            if not (short_latch and i.get('short')):
                join(l[3][0], l[3][1], ['inst', key, 'control', 0])
            c['models'].setdefault('generic-latch', {'lib': 'hdi_primitives', 'leaf': True, 'ports': None})
        c['insts'][key] = rec
    for m in ad['models']:
        used = m['name'] in usage
        if m['declared'] and used:
            c['models'][m['name']] = {'lib': 'hdi_primitives', 'leaf': True, 'ports': {p['name']: {'dir': p['direction'], 'width': p['width']} for p in m['ports']}}
        elif used:
            # never-declared model: ports as used; the property does not state their width, any width that covers every
            # connected formal and no more than every mentioned formal is accepted (minwidth .. width)
            c['models'][m['name']] = {'lib': 'hdi_primitives', 'leaf': True, 'ports': {pn: {'dir': 'UNDEFINED', 'width': w, 'minwidth': conn_usage[m['name']][pn]}
                                                                                        for pn, w in usage[m['name']].items()}}
    touched = set()
    for a, b in ad['conns']:
        ka, kb = (a[0], 0 if a[1] is None else a[1]), (b[0], 0 if b[1] is None else b[1])
        uf[find(ka)] = find(kb)
        touched.add(ka); touched.add(kb)
    groups = {}
    for k, pins in pins_of.items():
        groups.setdefault(find(k), []).extend(pins)
    c['parts'] = sorted([sorted(g, key=json.dumps) for g in groups.values() if g], key=json.dumps)
    conn_classes = set(find(k) for k in touched)
    for k, pins in pins_of.items():
        if find(k) not in conn_classes:
            c['named']['%s[%d]' % k] = sorted(pins, key=json.dumps)
    return c
