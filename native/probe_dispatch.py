"""Behavioural probe of the callback dispatcher (spydrnet/global_state/global_callback.py), used when a `_call_K` function no longer has
the syntactic shape the wiring rule recognises: for each requested kind K, with every container emptied,
    register_K(f1); register_K(f2)   ->  _call_K(a, b, key=c) calls f1 then f2, each exactly once, with exactly (a, b, key=c),
                                          and calls no listener registered for any other kind;
    deregister_K(f1)                 ->  only f2 is called afterwards.
The dispatcher is parametric in its arguments (it only forwards them), so one call with fresh sentinel objects is a faithful test.
stdin: {"kinds": [...]}   stdout: '\\n@@JSON@@\\n' + {"K": "" (ok) | "what failed"}"""
import sys, json
import spydrnet.global_state.global_callback as gc

cfg = json.load(sys.stdin)
kinds = cfg['kinds']
conts = {n[len('_container_'):]: getattr(gc, n) for n in dir(gc) if n.startswith('_container_')}
saved = {k: list(v) for k, v in conts.items()}
out = {}
try:
    for k in kinds:
        why = ''
        try:
            for v in conts.values(): del v[:]
            log = []
            mk = lambda tag: (lambda *a, **kw: log.append((tag, a, kw)))
            f1, f2 = mk('f1'), mk('f2')
            others = {}
            for o in conts:
                if o != k:
                    others[o] = mk('other:' + o); conts[o].append(others[o])
            getattr(gc, 'register_' + k)(f1); getattr(gc, 'register_' + k)(f2)
            a, b, c = object(), object(), object()
            getattr(gc, '_call_' + k)(a, b, key=c)
            if [x[0] for x in log] != ['f1', 'f2']: why = 'listeners called: %r' % [x[0] for x in log]
            elif any(x[1] != (a, b) or x[2] != {'key': c} for x in log): why = 'arguments were not forwarded unchanged'
            else:
                del log[:]
                getattr(gc, 'deregister_' + k)(f1)
                getattr(gc, '_call_' + k)(a)
                if [x[0] for x in log] != ['f2']: why = 'after deregistering the first listener: %r' % [x[0] for x in log]
                elif log[0][1] != (a,) or log[0][2] != {}: why = 'arguments were not forwarded unchanged'
        except Exception as e:
            why = 'probe raised %s: %s' % (type(e).__name__, e)
        out[k] = why
finally:
    for k, v in conts.items():
        v[:] = saved[k]
sys.stdout.write('\n@@JSON@@\n' + json.dumps(out))
