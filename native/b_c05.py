"""Bounded stand-in for C05: the EDIF reader builds exactly the design the file describes.

stdin : {"seeds":[...], "styles": k, "files":[bundled archives], "tier": ...}  or {"replay": {...}}
stdout: @@JSON@@ {"evaluations", "hashes", "samples", "failures":[{check, site, detail, replay}]}
A case = (abstract design, style): render with the independent writer -> sdn.parse -> canonical structure must equal the
structure the text describes; Inv (I1-I4) and self-containment of the result.  Bundled .edf examples: parse + Inv.
"""
import sys, json, os
import rtcommon as R
import render_edif as E

PID = 'C05'


def check_generated(run, ad, style, ext='.edf'):
    text, plan = E.render(ad, style)
    path = run.path(ext)
    with open(path, 'w') as f:
        f.write(text)
    n, fail = R.try_parse(path, PID)
    if fail:
        return [fail]
    fails = []
    exp = E.ad_canon(ad, plan, ordered=False)
    try:
        got = R.net_canon_edif(n, ids=True, ordered=False)
    except Exception as e:
        return [(PID + '.malformed', type(e).__name__, 'the returned netlist cannot be walked: %r' % e)]
    exp.pop('name'); got.pop('name')          # the property speaks of identifier + original name of renamed *objects*; kept under 'id'
    fails += R.failures_from_diff(PID, R.diff(exp, got), exp=exp, got=got)
    fails += R.wellformed(n, PID)
    return fails


def check_file(run, z):
    n, fail = R.try_parse(z, PID, 'bundled-rejected')
    if fail:
        return [fail]
    return R.wellformed(n, PID)


def nontrivial(ad, style):
    f = R.ad_features(ad)
    return f['insts'] >= 1 and f['nets'] >= 1 and (f['bus_nets'] >= 1 or f['bus_ports'] >= 1)


def main():
    cfg = json.load(sys.stdin)
    run = R.Runner(PID, limit=cfg.get('limit', 20), all_failures=bool(cfg.get('all_failures')))
    if 'replay' in cfg:
        rp = cfg['replay']
        if rp.get('file'):
            run.case(R.jhash(rp['file']), True, None, lambda: check_file(run, rp['file']), rp, limit=120)
        else:
            run.case(R.jhash(rp['ad'], rp['style']), True, None, lambda: check_generated(run, rp['ad'], rp['style']), rp)
            if cfg.get('show'):
                run.out['text'] = E.render(rp['ad'], rp['style'])[0]
        return run.finish()
    for seed in cfg.get('seeds', []):
        ad = R.gen_hier(seed, 'edif')
        for v in range(cfg.get('styles', 2)):
            style = E.make_style(seed, v)
            run.case(R.jhash(ad, style), nontrivial(ad, style), {'seed': seed, 'style': style, 'features': R.ad_features(ad)},
                     lambda: check_generated(run, ad, style), {'kind': 'edif-read', 'seed': seed, 'ad': ad, 'style': style})
    if cfg.get('corners'):
        for name, ad in R.corner_ads('edif'):
            for v in range(4):
                style = E.make_style('corner', v)
                run.case(R.jhash('corner', name, style), True, None, lambda: check_generated(run, ad, style),
                         {'kind': 'edif-read', 'corner': name, 'ad': ad, 'style': style})
    for z in cfg.get('files', []):
        run.case(R.jhash(os.path.basename(z)), True, {'file': os.path.basename(z)}, lambda: check_file(run, z),
                 {'kind': 'edif-file', 'file': z}, limit=cfg.get('file_limit', 60))
    run.finish()


if __name__ == '__main__':
    main()
