"""Bounded stand-in for C05: the EDIF reader builds exactly the design the file describes.

stdin : {"seeds":[...], "styles": k, "files":[bundled archives], "tier": ...}  or {"replay": {...}}
stdout: @@JSON@@ {"evaluations", "hashes", "samples", "failures":[{check, site, detail, replay}]}
A case = (abstract design, style): render with the independent writer -> sdn.parse -> canonical structure must equal the
structure the text describes; every comment kept as the tuple of its strings; Inv (I1-I4) and self-containment of the result.
Bundled .edf examples: parse + Inv.
"""
import sys, json, os
import rtcommon as R
import render_edif as E

PID = 'C05'


def comments_of(el):
    """(comments under EDIF.comments in order, every comment kept anywhere on the element sorted); each must be a tuple of str"""
    direct, every, bad = [], [], []
    for k, v in el.data.items():
        if isinstance(k, str) and k.split('.')[-1] == 'comments':
            for t in (v if isinstance(v, list) else [v]):
                if not (isinstance(t, tuple) and all(isinstance(x, str) for x in t)):
                    bad.append((k, t))
                    continue
                every.append(list(t))
                if k == 'EDIF.comments':
                    direct.append(list(t))
    return direct, sorted(every), bad


def check_comments(n, ad, plan, prefix=''):
    """Every (comment "s1" ... "sk") of the text, k >= 0, is kept as the tuple of its strings: under EDIF.comments of the netlist /
    library / cell / port / instance / one-bit net it is written directly in (in text order), and somewhere on that object (a key
    ending in .comments) when it is written inside its status / written / keywordMap / view / interface / contents.
    Comments of the bits of a bus and inside (design ..) are not looked at."""
    P, fails = plan, []
    objs = [(('netlist',), n)]
    libs = {}
    for l in n.libraries:
        libs.setdefault(l.name, l)
    for l in ad['libraries']:
        L = libs.get(l['name'])
        if L is None:
            continue
        objs.append((('lib', l['name']), L))
        defs = {}
        for d in L.definitions:
            defs.setdefault(d.name, d)
        for d in l['definitions']:
            D = defs.get(d['name'])
            if D is None:
                continue
            key = (l['name'], d['name'])
            objs.append((('cell',) + key, D))
            byname = {}
            for x in D.ports:
                byname.setdefault(('port', x.name), x)
            for x in D.children:
                byname.setdefault(('inst', x.name), x)
            for x in D.cables:
                byname.setdefault(('net', x.name), x)
            for p in d['ports']:
                o = byname.get(('port', P.portname[key + (p['name'],)]))
                if o is not None:
                    objs.append((('port',) + key + (p['name'],), o))
            for i in d['instances']:
                o = byname.get(('inst', i['name']))
                if o is not None:
                    objs.append((('inst',) + key + (i['name'],), o))
            for c in d['cables']:
                if c['width'] == 1 and c['base'] == 0 and key + (c['name'], 0) not in P.omit:
                    o = byname.get(('net', c['name']))
                    if o is not None and len(o.wires) == 1:
                        objs.append((('net',) + key + (c['name'],), o))
    for owner, el in objs:
        exp = P.comments.get(owner, {'direct': [], 'nested': []})
        direct, every, bad = comments_of(el)
        where = '/'.join(map(str, owner))
        if bad:
            fails.append((PID + '.' + prefix + 'comments', owner[0] + ':not-a-tuple-of-strings', 'at %s: %r' % (where, bad[:2])))
        if direct != exp['direct']:
            fails.append((PID + '.' + prefix + 'comments', owner[0] + ':direct',
                          'at %s: the text has the comments %s directly inside this %s, EDIF.comments holds %s' % (
                              where, json.dumps(exp['direct']), owner[0], json.dumps(direct))))
        elif every != sorted(exp['direct'] + exp['nested']):
            fails.append((PID + '.' + prefix + 'comments', owner[0] + ':nested',
                          'at %s: the text has the comments %s inside this %s (status / written / keywordMap / view / interface / contents included), '
                          'the keys ending in .comments hold %s' % (where, json.dumps(sorted(exp['direct'] + exp['nested'])), owner[0], json.dumps(every))))
    return fails


def check_generated(run, ad, style, ext='.edf'):
    text, plan = E.render(ad, style)
    path = run.path(ext)
    with open(path, 'w') as f:
        f.write(text)
    # features of the text with a key of their own, so that one cause does not hide behind another: a comment inside keywordMap,
    # anything (library / comment / status) after the design construct
    n, fail = R.try_parse(path, PID)
    if fail:
        if 'keywordmap-comment' in plan.flags:
            fail = (fail[0], fail[1] + ':keywordMap-comment', fail[2])
        return [fail]
    prefix = 'after-design.' if plan.after_design else ''
    fails = []
    exp = E.ad_canon(ad, plan, ordered=False)
    try:
        got = R.net_canon_edif(n, ids=True, ordered=False)
    except Exception as e:
        return [(PID + '.malformed', type(e).__name__, 'the returned netlist cannot be walked: %r' % e)]
    exp.pop('name'); got.pop('name')          # the property speaks of identifier + original name of renamed *objects*; kept under 'id'
    fails += R.failures_from_diff(PID, R.diff(exp, got), prefix=prefix, exp=exp, got=got)
    try:
        fails += check_comments(n, ad, plan, prefix)
    except Exception as e:
        fails.append((PID + '.malformed', type(e).__name__, 'the data of the returned netlist cannot be walked: %r' % e))
    fails += R.wellformed(n, PID)
    if prefix and fails:
        # one key for the whole case (as b_c18.tag does for its known triggers): what differs is in the detail
        fails = [(PID + '.after-design', 'not-read', '%s [%s] %s  [the text has after its (design ..): %s]' % (a, b, c, ', '.join(plan.after_design[:4])))
                 for a, b, c in fails if a != 'HARNESS'] + [f for f in fails if f[0] == 'HARNESS']
    return fails


def check_file(run, z):
    n, fail = R.try_parse(z, PID, 'bundled-rejected')
    if fail:
        return [fail]
    return R.wellformed(n, PID)


def nontrivial(ad, style):
    f = R.ad_features(ad)
    return f['insts'] >= 1 and f['nets'] >= 1 and (f['bus_nets'] >= 1 or f['bus_ports'] >= 1)


def main():
    cfg = json.load(sys.stdin)
    run = R.Runner(PID, limit=cfg.get('limit', 20), all_failures=bool(cfg.get('all_failures')))
    if 'replay' in cfg:
        rp = cfg['replay']
        if rp.get('file'):
            run.case(R.jhash(rp['file']), True, None, lambda: check_file(run, rp['file']), rp, limit=120)
        else:
            run.case(R.jhash(rp['ad'], rp['style']), True, None, lambda: check_generated(run, rp['ad'], rp['style']), rp)
            if cfg.get('show'):
                run.out['text'] = E.render(rp['ad'], rp['style'])[0]
        return run.finish()
    for seed in cfg.get('seeds', []):
        ad = R.gen_hier(seed, 'edif')
        for v in range(cfg.get('styles', 2)):
            style = E.make_style(seed, v)
            run.case(R.jhash(ad, style), nontrivial(ad, style), {'seed': seed, 'style': style, 'features': R.ad_features(ad)},
                     lambda: check_generated(run, ad, style), {'kind': 'edif-read', 'seed': seed, 'ad': ad, 'style': style})
    if cfg.get('corners'):
        for name, ad in R.corner_ads('edif'):
            styles = [E.make_style('corner', v) for v in range(4)]
            # fixed corner styles: a comment of zero to three strings at every place a comment may stand (and every optional
            # construct more often than not), once pretty-printed and once dense
            for v, layout in enumerate(['pretty', 'dense']):
                styles.append(dict(E.make_style('corner-comments', v), comments=1.0, comment_strings='varied', comment_places='all', status='varied',
                                   optional=0.6, nodir=0.3, design_pos='last', keywordmap_comment=False, layout=layout))
            for style in styles:
                run.case(R.jhash('corner', name, style), True, None, lambda: check_generated(run, ad, style),
                         {'kind': 'edif-read', 'corner': name, 'ad': ad, 'style': style})
    for z in cfg.get('files', []):
        run.case(R.jhash(os.path.basename(z)), True, {'file': os.path.basename(z)}, lambda: check_file(run, z),
                 {'kind': 'edif-file', 'file': z}, limit=cfg.get('file_limit', 60))
    run.finish()


if __name__ == '__main__':
    main()
