"""Bounded stand-in for C18: EBLIF files are read faithfully and survive write-then-read.

stdin : {"seeds":[...], "styles": k, "files":[bundled .eblif archives]}  or {"replay": {...}}
read   : flat abstract design + style -> text of the independent writer (render_eblif.py) -> sdn.parse: one instance per
         .subckt/.gate/.names/.latch with the named model, data attached, model ports with direction, every formal=actual joined
         to the named net bit, .conn merging, black boxes leaf primitives, top; Inv + self-containment
         (net names include names that merely contain a reserved word of the format - unconn, $true/$false/$undef, statement
         keywords, latch type words - or look like an indexed bit; only the exact actual `unconn` is open: render_eblif.reserved_word_names
         and the fixed corner 'reserved-words-inside-net-names')
rt     : the netlist returned by the reader (generated text or bundled archive) -> sdn.compose(.eblif) -> sdn.parse: same instances
         (by name), types, data, model ports, nets as sets of pins; written file accepted
"""
import sys, json, os
import rtcommon as R
import render_eblif as B

PID = 'C18'


def triggers(ad, style):
    """features of a case, in a fixed priority order, that are known to matter to the reader / writer; the first one present is
    appended to the site of a failure so that different causes get different keys ('plain' when none is present)"""
    t = []
    if ad['conns']:
        ports = set(p['name'] for p in ad['ports'])
        if style['conn_pos'] != 'end':
            t.append('conn-early')
        if len(ad['conns']) > 1:
            t.append('conn-several')
        if any(x[1] is not None for c in ad['conns'] for x in c):
            t.append('conn-bus')
        if any(x[0] in ports for c in ad['conns'] for x in c):
            t.append('conn-port')
        t.append('conn')
    if style['comments'] == 'after-model':
        t.append('comment-after-model')
    if style['io'] == 'outputs-first':
        t.append('outputs-first')
    if style.get('header_gap'):
        t.append('header-gap')
    if style['comments'] == 'trailing':
        t.append('comment-trailing')
    order = [ad['instances'][k] for kind, k in B.item_order(ad, style) if kind == 'inst']
    latches = [i for i in order if i['kind'] == 'latch']
    if style.get('latch') == 'mixed' and latches and latches[0].get('short') and any(not l.get('short') for l in latches):
        t.append('latch-short-first')
    if style['comments'] == 'inner':
        t.append('comment-inner')
    sub = [i for i in ad['instances'] if i['kind'] in ('subckt', 'gate')]
    if any(not i['cname'] and sum(1 for j in sub if j['model'] == i['model']) > 1 for i in sub):
        t.append('uncnamed-siblings')          # an instance that keeps a default name <model>_instance_<k> beside another of its model
    return t or ['plain']


def tag(fails, ad, style):
    """With a known trigger present the failure is keyed by (part, trigger) - one key per cause instead of one per damaged
    field; without one ('plain') by the full category and kind of difference."""
    p = triggers(ad, style)[0]
    out = []
    for a, b, c in fails:
        if p == 'plain' or a == 'HARNESS':
            out.append((a, b + '@' + p, c))
        else:
            out.append(('.'.join(a.split('.')[:2]), p, '%s [%s] %s' % (a, b, c)))
    return out


def check_read(run, ad, style):
    text = B.render(ad, style)
    path = run.path('.eblif')
    with open(path, 'w') as f:
        f.write(text)
    n, fail = R.try_parse(path, PID)
    if fail:
        return [fail], None
    exp = B.ad_canon(ad, style)
    try:
        got = R.net_canon_eblif(n)
    except Exception as e:
        return [(PID + '.malformed', type(e).__name__, 'the returned netlist cannot be walked: %r' % e)], None
    # nets that a .conn touches are compared as pin sets only; other nets also by (name, index)
    got['named'] = {k: v for k, v in got['named'].items() if k in exp['named']}
    for m, rec in exp['models'].items():
        if rec['ports'] is None and m in got['models']:
            got['models'][m]['ports'] = None
    for m, rec in exp['models'].items():
        for pn, p in (rec['ports'] or {}).items():
            mw = p.pop('minwidth', None)
            g = ((got['models'].get(m) or {}).get('ports') or {}).get(pn)
            if mw is not None and g is not None and mw <= g['width'] <= p['width']:
                p['width'] = g['width']
    fails = R.failures_from_diff(PID, R.diff(exp, got), prefix='read.')
    fails += R.wellformed(n, PID)
    return fails, n


def roundtrip(run, n):
    c0 = R.net_canon_eblif(n, by_name=True)
    path = run.path('.eblif')
    f = R.try_compose(n, path, PID)
    if f:
        return [f]
    m, f = R.try_parse(path, PID, 'written-file-rejected')
    if f:
        return [f]
    try:
        c1 = R.net_canon_eblif(m, by_name=True)
    except Exception as e:
        return [(PID + '.malformed', type(e).__name__, 'the re-read netlist cannot be walked: %r' % e)]
    for c in (c0, c1):
        c.pop('named')                       # "nets (as sets of pins)"
        c.pop('models')                      # "same instances, types, data and nets": the type of an instance is under insts/ref
    fails = R.failures_from_diff(PID, R.diff(c0, c1), prefix='rt.')
    # "the same instances ... and data": the record of an instance's deliberately open pins (`unconn` actuals) survives: whatever was
    # recorded before is recorded afterwards (the writer marks every open pin, so the record may grow; it must not shrink)
    def open_pins(net, existing_only):
        top = net.top_instance.reference if net.top_instance is not None else None
        out = {}
        for i in (top.children if top is not None else []):
            unc = i.data.get('unconn')
            # only pins the instance really has: an undeclared model gets no pin for an open actual above its widest connected bit
            # (documented latitude), and what has no pin cannot be written
            have = set('%s[%d]' % (q.inner_pin.port.name, q.inner_pin.port.pins.index(q.inner_pin)) for q in i.pins
                       if q.inner_pin is not None and q.inner_pin.port is not None)
            out[i.name] = set(x for x in map(str, unc) if (x in have or not existing_only)) if isinstance(unc, (list, tuple, set)) else set()
        return out
    try:
        p0, p1 = open_pins(n, True), open_pins(m, False)
        for name in sorted(set(p0) & set(p1), key=str):
            if not p0[name] <= p1[name]:
                fails.append((PID + '.rt.data', 'unconn', 'instance %r: pins recorded as deliberately open %r before, %r after write-then-read' % (
                    name, sorted(p0[name]), sorted(p1[name]))))
                break
    except Exception as e:
        fails.append(('HARNESS', 'open_pins', repr(e)))
    fails += R.wellformed(m, PID)
    return fails


def case_generated(run, ad, style, part):
    if part == 'read':
        return tag(check_read(run, ad, style)[0], ad, style)
    text = B.render(ad, style)
    path = run.path('.eblif')
    with open(path, 'w') as f:
        f.write(text)
    n, fail = R.try_parse(path, PID)
    if fail:
        return []            # counted under the read part
    # the round trip starts from whatever the reader returned: its known triggers are the .conn statements of the source and
    # instances that kept a default name <model>_instance_<k> (no .cname, no driven net to be named after)
    import re
    trig = [t for t in triggers(ad, style) if t.startswith('conn')]
    top = n.top_instance.reference if n.top_instance is not None else None
    if top is not None and any(re.search(r'_instance_\d+$', i.name or '') for i in top.children):
        trig.append('default-named-instance')
    p = (trig or ['plain'])[0]
    out = []
    for a, b, c in roundtrip(run, n):
        out.append((a, b + '@plain', c) if (p == 'plain' or a == 'HARNESS') else ('.'.join(a.split('.')[:2]), p, '%s [%s] %s' % (a, b, c)))
    return out


def case_file(run, z):
    n, fail = R.try_parse(z, PID, 'bundled-rejected')
    if fail:
        return [fail]
    return R.wellformed(n, PID) + roundtrip(run, n)


def nontrivial(ad):
    f = B.features(ad)
    return f['insts'] >= 2 and len(f['kinds']) >= 2


def main():
    cfg = json.load(sys.stdin)
    run = R.Runner(PID, limit=cfg.get('limit', 20), all_failures=bool(cfg.get('all_failures')))
    if 'replay' in cfg:
        rp = cfg['replay']
        if rp.get('file'):
            run.case(R.jhash(rp['file']), True, None, lambda: case_file(run, rp['file']), rp, limit=240)
        else:
            run.case(R.jhash(rp['ad'], rp['style'], rp['part']), True, None, lambda: case_generated(run, rp['ad'], rp['style'], rp['part']), rp)
            if cfg.get('show'):
                run.out['text'] = B.render(rp['ad'], rp['style'])
        return run.finish()
    for seed in cfg.get('seeds', []):
        ad = B.gen_flat(seed)
        for v in range(cfg.get('styles', 2)):
            style = B.make_style(seed, v)
            style.update(cfg.get('style_override') or {})
            for part in ('read', 'rt'):
                run.case(R.jhash(ad, style, part), nontrivial(ad), {'seed': seed, 'style': style, 'features': B.features(ad)} if part == 'read' else None,
                         lambda: case_generated(run, ad, style, part), {'kind': 'eblif', 'seed': seed, 'ad': ad, 'style': style, 'part': part})
    if cfg.get('corners'):
        plain = {'seed': 1, 'bb_pos': 'after', 'comments': 'none', 'header_gap': False, 'continuation': 0, 'order': 'as-is', 'conn_pos': 'end',
                 'io': 'one-line', 'blank': 0, 'info_order': 'cname-first', 'latch': 'five'}
        for name, ad in B.corner_ads():
            for style in (plain, dict(plain, continuation=0.3, order='shuffle', seed=2)):
                for part in ('read', 'rt'):
                    run.case(R.jhash('corner', name, style, part), True, None, lambda: case_generated(run, ad, style, part),
                             {'kind': 'eblif', 'corner': name, 'ad': ad, 'style': style, 'part': part})
    for z in cfg.get('files', []):
        run.case(R.jhash(os.path.basename(z)), True, {'file': os.path.basename(z)}, lambda: case_file(run, z),
                 {'kind': 'eblif-file', 'file': z}, limit=cfg.get('file_limit', 60))
    run.finish()


if __name__ == '__main__':
    main()
