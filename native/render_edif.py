"""Independent EDIF 2 0 0 writer: abstract design + style -> text, and the canonical structure the text describes.

Written from the EDIF 2 0 0 netlist-view grammar and the property text (C05), not from spydrnet's composer:
  (edif name (edifVersion 2 0 0) (edifLevel 0) (keywordMap (keywordLevel 0)) {status|library|external|design|comment})
  (library name (edifLevel 0) (technology (numberDefinition)) {cell|comment})
  (cell name (cellType GENERIC) (view name (viewType NETLIST) (interface {port}) [(contents {instance|net|comment})]))
  (port name | (rename id "n") | (array nameDef size)  (direction INPUT|OUTPUT|INOUT))
  (instance nameDef (viewRef view (cellRef cell [(libraryRef lib)])) {property|comment})
  (net nameDef (joined {(portRef name | (member name k) [(instanceRef inst)])}))
  (property nameDef (string "s") | (integer n) | (boolean (true)|(false)) [(owner "o")])
  (comment {"s"})  in edif, keywordMap, status, written, library, cell, view, interface, port, contents, instance, net, design
  (status {(written (timeStamp y m d h m s) {(author "a") | (program "p" [(version "v")]) | property | comment}) | comment})
       in edif, library, cell, view, design
Not written (outside the subset the reader documents or implements): comment inside technology / property, userData, dataOrigin,
multi-valued (string ..) / (integer ..), (number ..), several views per cell, array nets.
Identifiers are case-insensitive, cells are defined before they are referenced, buses are written bit by bit as
(rename id_i_ "name[i]") in any order, empty bits may be left out.

style (chosen from the seed; JSON-able, part of the replay):
  seed            drives the purely syntactic draws (orders, spacing, comments)
  ids             'natural' | 'amp' | 'opaque' | 'always'   how identifiers are derived from names
  ref_case        'same' | 'lower' | 'upper' | 'swap' | 'mixed'    case of identifiers where they are *referenced*
  kw_case         'lower' | 'camel' | 'upper'
  bit_order       'asc' | 'desc' | 'shuffle' | 'interleave'
  omit_empty      probability that an empty bit net is left out
  range_names     bus ports renamed "p[hi:lo]" (what Vivado writes)
  array1          probability that a 1-bit port is declared (array p 1)
  view            'netlist' | 'cell' | 'odd'
  libref          'always' | 'omit-same'
  comments        probability of a (comment ...) at each place the style uses
  comment_strings 'one': every comment holds exactly one string | 'varied': zero to three (comment ::= (comment {string}))
  comment_places  'classic': between libraries / cells / ports / instances / nets and after an instance property |
                  'all': also inside status and written, directly inside cell, view, port, instance (with or without properties)
                  and net, inside design, and after the last item of edif, library, interface and contents
  status          'classic': absent or one fixed (status (written timeStamp program+version comment)) before the libraries |
                  'varied': absent, empty, comment only, written with only a timeStamp / author / program without version / all of
                  them in any order / a property, two written, anywhere among the libraries (after the design when design_pos is free)
  optional        probability of each optional construct that carries no structure: status inside library / cell / view / design,
                  properties (string / integer / boolean, renamed, with owner) on cell, view, interface, port, net and written,
                  (designator ..) in an interface, a (scale ..) inside numberDefinition, cellType TIE / RIPPER on a leaf cell
  nodir           probability that a port is declared without (direction ..)  (then its direction is UNDEFINED)
  design_pos      'last' | 'free': the design stands anywhere after the library of its cell; libraries, comments, status may follow
  keywordmap_comment   a comment inside keywordMap  (keywordMap ::= (keywordMap keywordLevel {comment}))
  layout          'pretty' | 'dense'
  external        the first (primitive) library is written as (external ...)
  design_props    properties inside (design ...)
  lib_order / cell_order  'topo-random' (any order EDIF allows)
"""
import random, re, json

KW = ['edif', 'edifVersion', 'edifLevel', 'keywordMap', 'keywordLevel', 'status', 'written', 'timeStamp', 'program', 'version',
      'library', 'external', 'technology', 'numberDefinition', 'cell', 'cellType', 'view', 'viewType', 'interface', 'port', 'array',
      'direction', 'contents', 'instance', 'viewRef', 'cellRef', 'libraryRef', 'net', 'joined', 'portRef', 'member', 'instanceRef',
      'property', 'string', 'integer', 'boolean', 'true', 'false', 'owner', 'rename', 'design', 'comment', 'GENERIC', 'NETLIST',
      'INPUT', 'OUTPUT', 'INOUT', 'author', 'scale', 'e', 'unit', 'TIME', 'designator', 'TIE', 'RIPPER']


def make_style(seed, variant=0):
    r = random.Random('edif-style:%s:%s' % (seed, variant))
    style = {'seed': r.randint(0, 10 ** 9), 'ids': r.choice(['natural', 'natural', 'amp', 'opaque', 'always']),
            'ref_case': r.choice(['same', 'same', 'lower', 'upper', 'swap', 'mixed']), 'kw_case': r.choice(['lower', 'camel', 'camel', 'upper']),
            'bit_order': r.choice(['asc', 'desc', 'shuffle', 'interleave']), 'omit_empty': r.choice([0, 0.3, 0.7, 1.0]),
            'range_names': r.random() < 0.5, 'array1': r.choice([0, 0, 0.3]), 'view': r.choice(['netlist', 'cell', 'odd']),
            'libref': r.choice(['always', 'always', 'omit-same']), 'comments': r.choice([0, 0.1, 0.3]), 'layout': r.choice(['pretty', 'dense']),
            'external': r.random() < 0.15, 'design_props': r.random() < 0.4, 'lib_order': 'topo-random', 'cell_order': 'topo-random'}
    # newer keys, drawn from a generator of their own so that the keys above stay what they were for a given (seed, variant);
    # a style without them (older replay files) is rendered the way it always was
    r2 = random.Random('edif-style2:%s:%s' % (seed, variant))
    style.update({'comment_strings': r2.choice(['one', 'varied', 'varied']), 'comment_places': r2.choice(['classic', 'all', 'all']),
                  'status': r2.choice(['classic', 'varied', 'varied']), 'optional': r2.choice([0, 0.15, 0.3]), 'nodir': r2.choice([0, 0, 0, 0.2]),
                  'design_pos': r2.choice(['last'] * 7 + ['free']), 'keywordmap_comment': r2.random() < 0.04})
    return style


def legal(name):
    return re.fullmatch(r'[A-Za-z][A-Za-z0-9_]*', name) is not None and len(name) <= 255


class Plan:
    """Every decision that changes what the text *means*: identifiers, written names, omitted bits, 1-bit arrays."""

    def __init__(self, ad, style):
        self.ad, self.style = ad, style
        r = random.Random('edif-plan:%s' % style['seed'])
        self.r = r
        self.counter = 0
        self.netlist_id = self.ident(ad['name'], set())
        self.design_id = self.ident(ad['top_instance_name'], set())
        self.lib = {}; self.cell = {}; self.port = {}; self.inst = {}; self.cable = {}; self.prop = {}
        self.omit = set(); self.arr1 = set(); self.portname = {}
        self.nodir = set()                     # ports declared without (direction ..): the direction is optional in EDIF 2 0 0
        r2 = random.Random('edif-plan2:%s' % style['seed'])
        self.comments = {}; self.after_design = []; self.flags = set()      # filled in by the Writer
        used_l = set()
        for l in ad['libraries']:
            self.lib[l['name']] = self.ident(l['name'], used_l)
            used_c = set()
            for d in l['definitions']:
                key = (l['name'], d['name'])
                self.cell[key] = self.ident(d['name'], used_c)
                used_p = set()
                for p in d['ports']:
                    self.port[key + (p['name'],)] = self.ident(p['name'], used_p)
                    wn = p['name']
                    if p['width'] > 1 and style['range_names']:
                        hi, lo = p['base'] + p['width'] - 1, p['base']
                        wn = '%s[%d:%d]' % (p['name'], hi, lo) if p['downto'] else '%s[%d:%d]' % (p['name'], lo, hi)
                    self.portname[key + (p['name'],)] = wn
                    if p['width'] == 1 and r.random() < style['array1']:
                        self.arr1.add(key + (p['name'],))
                    if style.get('nodir') and r2.random() < style['nodir']:
                        self.nodir.add(key + (p['name'],))
                used_i = set()
                for i in d['instances']:
                    self.inst[key + (i['name'],)] = self.ident(i['name'], used_i)
                    used_pr = set()
                    for k in (i.get('properties') or {}):
                        self.prop[key + (i['name'], k)] = self.ident(k, used_pr, force=False if legal(k) else None)
                used_n = set()
                connected = set((n['cable'], n['bit']) for n in d['nets'] if n['endpoints'])
                for c in d['cables']:
                    bus = c['width'] > 1 or c['base'] != 0
                    cid = self.ident(c['name'], used_n, reserve=[('_%d_' % (c['base'] + b)) for b in range(c['width'])] if bus else ())
                    self.cable[key + (c['name'],)] = cid
                    if bus:
                        for b in range(c['width']):
                            if (c['name'], c['base'] + b) not in connected and r.random() < style['omit_empty']:
                                self.omit.add(key + (c['name'], c['base'] + b))
                    elif (c['name'], c['base']) not in connected and r.random() < style['omit_empty'] * 0.5:
                        self.omit.add(key + (c['name'], c['base']))

    def ident(self, name, used, force=None, reserve=()):
        """an EDIF identifier for name, unique (case-insensitively) in `used`; reserve: suffixes that must stay free too"""
        mode = self.style['ids']
        r = self.r
        cand = None
        if legal(name) and force is not True and mode not in ('opaque', 'always'):
            cand = name
        elif legal(name) and mode == 'always' and r.random() < 0.5:
            cand = name
        if cand is None or not self.free(cand, used, reserve):
            if mode == 'opaque':
                base = 'n'
            else:
                base = re.sub(r'[^A-Za-z0-9_]', '_', name)[:200] or 'x'
                if not base[0].isalpha():
                    base = ('&' + base) if mode in ('amp', 'always') else ('id' + base)
            cand = base if (mode != 'opaque' and base != name) else None
            while cand is None or not self.free(cand, used, reserve):
                self.counter += 1
                cand = '%s_HDI_%d' % (base, self.counter) if mode != 'opaque' else 'n%d' % self.counter
        used.add(cand.lower())
        for s in reserve:
            used.add((cand + s).lower())
        return cand

    @staticmethod
    def free(cand, used, reserve):
        if cand.lower() in used or cand.lower() in ('', ):
            return False
        return all((cand + s).lower() not in used for s in reserve)


CSTR = ['generated', 'a (nested) looking ) comment', 'x', 'Reference To The Cell', '', '(net n (joined))', 'comment', ' two  spaces ', '1 2 3',
        "it's", 'a;b,c', 'rename', ')', '((', 'line 1']
NL = ('netlist',)


class Writer:
    def __init__(self, ad, style, plan=None):
        self.ad, self.style = ad, style
        self.plan = plan or Plan(ad, style)
        self.r = random.Random('edif-render:%s' % style['seed'])
        self.x = random.Random('edif-render2:%s' % style['seed'])      # draws of the newer style keys (old styles never touch it)
        self.out = []
        self.idx = {(l['name'], d['name']): d for l in ad['libraries'] for d in l['definitions']}
        self.all_places = style.get('comment_places', 'classic') == 'all'
        self.optional = style.get('optional', 0)
        self.design_done = False
        # what the text says beyond the structure: owner -> {'direct': [[str..]..] comments written directly inside the owner's own
        # construct, in order; 'nested': comments inside its status / written / keywordMap / view / interface / contents}
        self.plan.comments = {}
        self.plan.after_design = []          # what the text has after the (design ...) construct
        self.plan.flags = set()              # 'keywordmap-comment'

    # -------------------------------------------------------------- lexical helpers
    def kw(self, k):
        c = self.style['kw_case']
        if c == 'lower':
            return k.lower()
        if c == 'upper':
            return k.upper()
        return k

    def ref(self, ident):
        c = self.style['ref_case']
        if c == 'mixed':
            c = self.r.choice(['same', 'lower', 'upper', 'swap'])
        return {'same': ident, 'lower': ident.lower(), 'upper': ident.upper(), 'swap': ident.swapcase()}[c]

    def namedef(self, ident, name):
        if ident == name:
            return ident
        return '(%s %s "%s")' % (self.kw('rename'), ident, name)

    def emit(self, depth, text):
        if not text:
            return
        if self.style['layout'] == 'pretty':
            self.out.append('  ' * depth + text + '\n')
        else:
            self.out.append(text + self.r.choice([' ', '\n', '\t ', '']) if not text.endswith('"') else text + ' ')

    # -------------------------------------------------------------- comments, status, optional constructs
    def note(self, owner, direct, strings):
        if self.design_done and owner == NL:
            self.plan.after_design.append('comment')
        if owner is not None:
            self.plan.comments.setdefault(owner, {'direct': [], 'nested': []})['direct' if direct else 'nested'].append(list(strings))

    def strings(self):
        """the strings of one comment: exactly one (style comment_strings 'one') or zero to three"""
        if self.style.get('comment_strings', 'one') == 'one':
            return [self.r.choice(['generated', 'a (nested) looking ) comment', 'x', 'Reference To The Cell', ''])]
        return [self.x.choice(CSTR) for _ in range(self.x.choice([0, 1, 1, 2, 2, 3]))]

    def comment_form(self, owner, direct, strings):
        self.note(owner, direct, strings)
        return '(%s%s)' % (self.kw('comment'), ''.join(' "%s"' % s for s in strings))

    def comment_text(self, owner=None, direct=True, extra=False):
        """'' or a comment construct.  owner: the object the comment belongs to (None: nothing is expected of it), direct: written
        directly inside the owner's construct.  extra: one of the places only the style comment_places 'all' uses."""
        if extra and not self.all_places:
            return ''
        if self.r.random() >= self.style['comments']:
            return ''
        return self.comment_form(owner, direct, self.strings())

    def comment(self, depth, owner=None, direct=True, extra=False):
        self.emit(depth, self.comment_text(owner, direct, extra))

    def opt(self, p=1.0):
        return self.optional > 0 and self.x.random() < self.optional * p

    def prop_text(self):
        """a property on something other than an instance (cell, view, interface, port, net, written): must not disturb the reader"""
        kw, x = self.kw, self.x
        nd = x.choice(['LOC', 'KEEP', 'weight', 'X_INTERFACE_INFO', '(%s a_b "a.b")' % kw('rename')])
        tv = x.choice(['(%s "")' % kw('string'), '(%s "xilinx.com:signal:clock:1.0 clk CLK")' % kw('string'), '(%s 3)' % kw('integer'), '(%s -1)' % kw('integer'),
                       '(%s (%s))' % (kw('boolean'), kw('true')), '(%s (%s))' % (kw('boolean'), kw('false'))])
        own = ' (%s "Xilinx")' % kw('owner') if x.random() < 0.3 else ''
        return '(%s %s %s%s)' % (kw('property'), nd, tv, own)

    def status_text(self, owner, shapes=None):
        """a (status ...) construct in one of the shapes the grammar allows:
        status ::= (status {written | comment}),  written ::= (written timeStamp {author | program | property | comment}),
        program ::= (program string [version])"""
        kw, x = self.kw, self.x
        shape = x.choice(shapes or ['empty', 'comment-only', 'ts', 'author', 'program', 'program-version', 'full', 'two-written', 'property', 'comments'])
        ts = '(%s %d %d %d %d %d %d)' % (kw('timeStamp'), x.randint(1990, 2030), x.randint(1, 12), x.randint(1, 28), x.randint(0, 23), x.randint(0, 59), x.randint(0, 59))
        au = '(%s "%s")' % (kw('author'), x.choice(['me', '', 'A. N. Other']))
        pg = '(%s "%s")' % (kw('program'), x.choice(['indep', 'Vivado', '']))
        pv = '(%s "indep" (%s "%s"))' % (kw('program'), kw('version'), x.choice(['1.0', '2024.1', '']))

        def cm():
            return self.comment_form(owner, False, self.strings())
        if shape == 'empty':
            body = []
        elif shape == 'comment-only':
            body = [cm()]
        elif shape == 'ts':
            body = ['(%s %s)' % (kw('written'), ts)]
        elif shape == 'author':
            body = ['(%s %s %s)' % (kw('written'), ts, au)]
        elif shape == 'program':
            body = ['(%s %s %s)' % (kw('written'), ts, pg)]
        elif shape == 'program-version':
            body = ['(%s %s %s)' % (kw('written'), ts, pv)]
        elif shape == 'full':
            parts = [au, pv, cm()]
            x.shuffle(parts)
            body = ['(%s %s %s)' % (kw('written'), ts, ' '.join(parts))]
        elif shape == 'two-written':
            body = ['(%s %s %s)' % (kw('written'), ts, au), cm(), '(%s %s %s %s)' % (kw('written'), ts, pg, cm())]
        elif shape == 'property':
            body = ['(%s %s %s %s)' % (kw('written'), ts, self.prop_text(), cm())]
        else:
            body = [cm(), '(%s %s %s %s %s)' % (kw('written'), ts, cm(), pv, cm()), cm()]
        return '(%s%s)' % (kw('status'), ''.join(' ' + b for b in body))

    # -------------------------------------------------------------- structure
    def topo(self, items, deps):
        """a random order of items in which every item comes after its dependencies"""
        items = list(items)
        done, out = set(), []
        while len(out) < len(items):
            ready = [x for x in items if x not in done and all(y in done or y not in items for y in deps(x))]
            x = self.r.choice(ready)
            done.add(x); out.append(x)
        return out

    def render(self):
        ad, P, kw, st = self.ad, self.plan, self.kw, self.style
        self.emit(0, '(%s %s' % (kw('edif'), self.namedef(P.netlist_id, ad['name'])))
        self.emit(1, '(%s 2 0 0)' % kw('edifVersion'))
        self.emit(1, '(%s 0)' % kw('edifLevel'))
        if st.get('keywordmap_comment'):
            # keywordMap ::= (keywordMap keywordLevel {comment})
            P.flags.add('keywordmap-comment')
            self.emit(1, '(%s (%s 0) %s)' % (kw('keywordMap'), kw('keywordLevel'), self.comment_form(NL, False, self.strings())))
        else:
            self.emit(1, '(%s (%s 0))' % (kw('keywordMap'), kw('keywordLevel')))
        varied = st.get('status', 'classic') == 'varied'
        free = st.get('design_pos', 'last') == 'free'
        status, status_at = None, 0
        if not varied:
            if self.r.random() < 0.6:
                self.emit(1, '(%s (%s (%s 2024 1 2 3 4 5) (%s "indep" (%s "1.0")) (%s "independent writer")))' % (
                    kw('status'), kw('written'), kw('timeStamp'), kw('program'), kw('version'), kw('comment')))
                self.note(NL, False, ['independent writer'])
        libnames = [l['name'] for l in ad['libraries']]
        libdeps = {l['name']: set(i['ref'][0] for d in l['definitions'] for i in d['instances'] if i['ref'][0] != l['name']) for l in ad['libraries']}
        order = self.topo(libnames, lambda x: libdeps[x])
        top = tuple(ad['top'])
        # edif ::= (edif name edifVersion edifLevel keywordMap {status | external | library | design | comment}): the design may
        # stand anywhere after the library of the cell it names, the status anywhere
        design_at = len(order)
        if free:
            design_at = self.x.randint(order.index(top[0]) + 1, len(order))
        if varied and self.x.random() < 0.8:
            status_at = self.x.choice([0, 0, self.x.randint(0, len(order)), len(order) + 1 if free else 0])
            status = True
        for k, ln in enumerate(order + [None]):
            if status and status_at == k:
                if self.design_done:
                    P.after_design.append('status')
                self.emit(1, self.status_text(NL)); status = None
            if k == design_at:
                self.comment(1, NL)
                self.design(top)
            if ln is not None:
                self.comment(1, NL)
                if self.design_done:
                    P.after_design.append('library ' + ln)
                self.library([l for l in ad['libraries'] if l['name'] == ln][0], external=self.style['external'] and ln == libnames[0])
        if free:
            self.comment(1, NL, extra=True)
            if status:
                P.after_design.append('status')
                self.emit(1, self.status_text(NL))
            self.comment(1, NL, extra=True)
        self.emit(0, ')')
        return ''.join(self.out)

    def design(self, top):
        P, kw = self.plan, self.kw
        self.emit(1, '(%s %s' % (kw('design'), self.namedef(P.design_id, self.ad['top_instance_name'])))
        self.emit(2, '(%s %s (%s %s))' % (kw('cellRef'), self.ref(P.cell[top]), kw('libraryRef'), self.ref(P.lib[top[0]])))
        # design ::= (design name cellRef {status | property | comment})
        self.comment(2, None, extra=True)
        if self.opt():
            self.emit(2, self.status_text(None))
        if self.style['design_props']:
            self.emit(2, '(%s part (%s "xc7a100tcsg324-1"))' % (kw('property'), kw('string')))
            self.comment(2, None, extra=True)
            self.emit(2, '(%s (%s XLNX_PROJ_DIR "XLNX.PROJ/DIR") (%s "C:/x y/z"))' % (kw('property'), kw('rename'), kw('string')))
        self.emit(1, ')')
        self.design_done = True

    def library(self, l, external=False):
        P, kw = self.plan, self.kw
        owner = ('lib', l['name'])
        self.emit(1, '(%s %s' % (kw('external' if external else 'library'), self.namedef(P.lib[l['name']], l['name'])))
        self.emit(2, '(%s 0)' % kw('edifLevel'))
        nd = ' (%s 1 (%s 1 -12) (%s %s))' % (kw('scale'), kw('e'), kw('unit'), kw('TIME')) if self.opt() else ''
        self.emit(2, '(%s (%s%s))' % (kw('technology'), kw('numberDefinition'), nd))
        # library ::= (library name edifLevel technology {status | cell | comment})
        names = [d['name'] for d in l['definitions']]
        deps = {d['name']: set(i['ref'][1] for i in d['instances'] if i['ref'][0] == l['name']) for d in l['definitions']}
        order = self.topo(names, lambda x: deps[x])
        status_at = self.x.randint(0, len(order)) if self.opt() else None
        for k, dn in enumerate(order):
            if status_at == k:
                self.emit(2, self.status_text(owner))
            self.comment(2, owner)
            self.cell(l['name'], self.idx[(l['name'], dn)])
        if status_at == len(order):
            self.emit(2, self.status_text(owner))
        self.comment(2, owner, extra=True)
        self.emit(1, ')')

    def viewname(self, key):
        v = self.style['view']
        if v == 'netlist':
            return 'netlist'
        if v == 'cell':
            return self.plan.cell[key]
        return 'v_' + self.plan.cell[key].replace('&', 'a')

    def cell(self, ln, d):
        P, kw = self.plan, self.kw
        key = (ln, d['name'])
        owner = ('cell',) + key
        leaf = not (d['cables'] or d['instances'])
        ct = self.x.choice(['TIE', 'RIPPER']) if leaf and self.opt(0.3) else 'GENERIC'
        # cell ::= (cell name cellType {status | view | property | comment})
        self.emit(2, '(%s %s (%s %s)' % (kw('cell'), self.namedef(P.cell[key], d['name']), kw('cellType'), kw(ct)))
        self.comment(3, owner, extra=True)
        late_status = self.x.random() < 0.5
        if self.opt() and not late_status:
            self.emit(3, self.status_text(owner))
        if self.opt():
            self.emit(3, self.prop_text())
        # view ::= (view name viewType interface {status | contents | comment | property})
        self.emit(3, '(%s %s (%s %s)' % (kw('view'), self.viewname(key), kw('viewType'), kw('NETLIST')))
        # interface ::= (interface {port | designator | property | comment})
        self.emit(4, '(%s' % kw('interface'))
        for p in d['ports']:
            self.comment(5, owner, direct=False)
            self.port(key, p)
        self.comment(5, owner, direct=False, extra=True)
        if self.opt():
            self.emit(5, '(%s "%s")' % (kw('designator'), self.x.choice(['U1', ''])))
        if self.opt():
            self.emit(5, self.prop_text())
            self.comment(5, owner, direct=False, extra=True)
        self.emit(4, ')')
        self.comment(4, owner, direct=False, extra=True)
        if self.opt():
            self.emit(4, self.status_text(owner))
        if self.opt():
            self.emit(4, self.prop_text())
        if d['cables'] or d['instances'] or self.r.random() < 0.2:
            # contents ::= (contents {instance | net | comment}); instances must precede the nets that reference them
            self.emit(4, '(%s' % kw('contents'))
            for i in d['instances']:
                self.comment(5, owner, direct=False)
                self.instance(key, i)
            for item in self.net_items(key, d):
                self.comment(5, owner, direct=False)
                self.net(key, d, *item)
            self.comment(5, owner, direct=False, extra=True)
            self.emit(4, ')')
        self.comment(4, owner, direct=False, extra=True)
        if self.opt():
            self.emit(4, self.prop_text())
        self.emit(3, ')')
        self.comment(3, owner, extra=True)
        if self.opt() and late_status:
            self.emit(3, self.status_text(owner))
        if self.opt():
            self.emit(3, self.prop_text())
            self.comment(3, owner, extra=True)
        self.emit(2, ')')

    def port(self, key, p):
        """port ::= (port nameDef | (array nameDef size) {direction | property | comment}); the direction is optional"""
        P, kw = self.plan, self.kw
        pk = key + (p['name'],)
        owner = ('port',) + pk
        nd = self.namedef(P.port[pk], P.portname[pk])
        if p['width'] > 1 or pk in P.arr1:
            nd = '(%s %s %d)' % (kw('array'), nd, p['width'])
        parts = [self.comment_text(owner, extra=True)]
        if pk not in P.nodir:
            parts.append('(%s %s)' % (kw('direction'), kw({'IN': 'INPUT', 'OUT': 'OUTPUT', 'INOUT': 'INOUT'}[p['direction']])))
        if self.opt():
            parts.append(self.prop_text())
        parts.append(self.comment_text(owner, extra=True))
        self.emit(5, '(%s %s%s)' % (kw('port'), nd, ''.join(' ' + x for x in parts if x)))

    def instance(self, key, i):
        """instance ::= (instance nameDef viewRef {property | comment})"""
        P, kw = self.plan, self.kw
        rk = tuple(i['ref'])
        owner = ('inst',) + key + (i['name'],)
        lr = ' (%s %s)' % (kw('libraryRef'), self.ref(P.lib[rk[0]])) if (self.style['libref'] == 'always' or rk[0] != key[0]) else ''
        head = '(%s %s (%s %s (%s %s%s))' % (kw('instance'), self.namedef(P.inst[key + (i['name'],)], i['name']), kw('viewRef'),
                                              self.ref(self.viewname(rk)), kw('cellRef'), self.ref(P.cell[rk]), lr)
        props = i.get('properties') or {}
        first = self.comment_text(owner, extra=True)
        if not props and not first:
            self.emit(5, head + ')')
            return
        self.emit(5, head)
        self.emit(6, first)
        for k, v in props.items():
            if isinstance(v, bool):
                tv = '(%s (%s))' % (kw('boolean'), kw('true' if v else 'false'))
            elif isinstance(v, int):
                tv = '(%s %d)' % (kw('integer'), v)
            else:
                tv = '(%s "%s")' % (kw('string'), v)
            own = ' (%s "Xilinx")' % kw('owner') if self.r.random() < 0.2 else ''
            self.emit(6, '(%s %s %s%s)' % (kw('property'), self.namedef(P.prop[key + (i['name'], k)], k), tv, own))
            self.comment(6, owner)
        self.emit(5, ')')

    def net_items(self, key, d):
        """(cable, bit or None) in the order the style asks for; omitted bits left out"""
        P = self.plan
        per = []
        for c in d['cables']:
            bus = c['width'] > 1 or c['base'] != 0
            bits = [c['base'] + b for b in range(c['width'])]
            bits = [b for b in bits if key + (c['name'], b) not in P.omit]
            o = self.style['bit_order']
            if o == 'desc':
                bits.reverse()
            elif o in ('shuffle', 'interleave'):
                self.r.shuffle(bits)
            per.append([(c, b if bus else None) for b in bits])
        if self.style['bit_order'] == 'interleave':
            flat = [x for p in per for x in p]
            self.r.shuffle(flat)
            return flat
        self.r.shuffle(per)
        return [x for p in per for x in p]

    def net(self, key, d, c, bit):
        """net ::= (net nameDef joined {property | comment})"""
        P, kw = self.plan, self.kw
        cid = P.cable[key + (c['name'],)]
        if bit is None:
            nd = self.namedef(cid, c['name'])
            b = c['base']
            owner = ('net',) + key + (c['name'],)
        else:
            nd = '(%s %s_%d_ "%s[%d]")' % (kw('rename'), cid, bit, c['name'], bit)
            b = bit
            owner = None            # what becomes of the comments of the bits of a bus is not stated anywhere
        eps = []
        for n in d['nets']:
            if n['cable'] == c['name'] and n['bit'] == b:
                eps = n['endpoints']
        self.emit(5, '(%s %s (%s' % (kw('net'), nd, kw('joined')))
        pdef = {p['name']: p for p in d['ports']}
        for ep in eps:
            if ep[0] == 'port':
                p = pdef[ep[1]]; pk = key + (p['name'],); iref = ''
                bitno = ep[2]
            else:
                inst = [i for i in d['instances'] if i['name'] == ep[1]][0]
                rk = tuple(inst['ref'])
                p = [q for q in self.idx[rk]['ports'] if q['name'] == ep[2]][0]; pk = rk + (p['name'],)
                iref = ' (%s %s)' % (kw('instanceRef'), self.ref(P.inst[key + (inst['name'],)]))
                bitno = ep[3]
            if p['width'] > 1 or pk in P.arr1:
                pr = '(%s %s %d)' % (kw('member'), self.ref(P.port[pk]), bitno - p['base'])
            else:
                pr = self.ref(P.port[pk])
            self.emit(6, '(%s %s%s)' % (kw('portRef'), pr, iref))
        tail = [self.comment_text(owner, extra=True)]
        if self.opt():
            tail.append(self.prop_text())
            tail.append(self.comment_text(owner, extra=True))
        tail = [t for t in tail if t]
        if not tail:
            self.emit(5, '))')
        else:
            self.emit(5, ')')
            for t in tail:
                self.emit(6, t)
            self.emit(5, ')')


def render(ad, style):
    w = Writer(ad, style)
    return w.render(), w.plan


def ad_canon(ad, plan, ordered=True):
    """The canonical structure (shape of rtcommon.net_canon_edif with ids=True) that the rendered text describes."""
    P = plan
    idx = {(l['name'], d['name']): d for l in ad['libraries'] for d in l['definitions']}
    c = {'name': ad['name'], 'id': P.netlist_id, 'libs': {}, 'top': list(ad['top']), 'design': ad['top_instance_name']}
    for l in ad['libraries']:
        L = c['libs'][l['name']] = {'id': P.lib[l['name']], 'defs': {}}
        for d in l['definitions']:
            key = (l['name'], d['name'])
            D = L['defs'][d['name']] = {'id': P.cell[key], 'ports': [], 'cables': {}, 'insts': {}, 'nets': {}}
            pb = {p['name']: p for p in d['ports']}
            D['ports'] = {}
            D['portorder'] = [P.portname[key + (p['name'],)] for p in d['ports']]
            for p in d['ports']:
                pk = key + (p['name'],)
                D['ports'][P.portname[pk]] = {'id': P.port[pk], 'dir': 'UNDEFINED' if pk in P.nodir else p['direction'], 'width': p['width'], 'array': p['width'] > 1 or pk in P.arr1}
            rb = {}
            for i in d['instances']:
                props = []
                for k, v in (i.get('properties') or {}).items():
                    pid = P.prop[key + (i['name'], k)]
                    props.append({'id': pid, 'orig': k if pid != k else None, 'type': type(v).__name__, 'value': v})
                D['insts'][i['name']] = {'id': P.inst[key + (i['name'],)], 'ref': list(i['ref']), 'props': props}
                rb[i['name']] = tuple(i['ref'])
            nets = {(n['cable'], n['bit']): n['endpoints'] for n in d['nets']}
            for cb in d['cables']:
                bits = [cb['base'] + b for b in range(cb['width']) if key + (cb['name'], cb['base'] + b) not in P.omit]
                if not bits:
                    continue                          # nothing of this cable is in the file
                lo, hi = min(bits), max(bits)
                D['cables'][cb['name']] = {'id': P.cable[key + (cb['name'],)], 'width': hi - lo + 1, 'base': lo}
                for b in range(lo, hi + 1):
                    eps = []
                    for ep in nets.get((cb['name'], b), []):
                        if ep[0] == 'port':
                            eps.append(['port', P.portname[key + (ep[1],)], ep[2] - pb[ep[1]]['base']])
                        else:
                            rk = rb[ep[1]]
                            rp = [q for q in idx[rk]['ports'] if q['name'] == ep[2]][0]
                            eps.append(['inst', ep[1], P.portname[rk + (ep[2],)], ep[3] - rp['base']])
                    if not ordered:
                        eps.sort(key=json.dumps)
                    D['nets']['%s[%d]' % (cb['name'], b)] = eps
    return c
