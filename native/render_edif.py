"""Independent EDIF 2 0 0 writer: abstract design + style -> text, and the canonical structure the text describes.

Written from the EDIF 2 0 0 netlist-view grammar and the property text (C05), not from spydrnet's composer:
  (edif name (edifVersion 2 0 0) (edifLevel 0) (keywordMap (keywordLevel 0)) {status|library|external|design|comment})
  (library name (edifLevel 0) (technology (numberDefinition)) {cell|comment})
  (cell name (cellType GENERIC) (view name (viewType NETLIST) (interface {port}) [(contents {instance|net|comment})]))
  (port name | (rename id "n") | (array nameDef size)  (direction INPUT|OUTPUT|INOUT))
  (instance nameDef (viewRef view (cellRef cell [(libraryRef lib)])) {property|comment})
  (net nameDef (joined {(portRef name | (member name k) [(instanceRef inst)])}))
  (property nameDef (string "s") | (integer n) | (boolean (true)|(false)) [(owner "o")])
Identifiers are case-insensitive, cells are defined before they are referenced, buses are written bit by bit as
(rename id_i_ "name[i]") in any order, empty bits may be left out.

style (chosen from the seed; JSON-able, part of the replay):
  seed            drives the purely syntactic draws (orders, spacing, comments)
  ids             'natural' | 'amp' | 'opaque' | 'always'   how identifiers are derived from names
  ref_case        'same' | 'lower' | 'upper' | 'swap' | 'mixed'    case of identifiers where they are *referenced*
  kw_case         'lower' | 'camel' | 'upper'
  bit_order       'asc' | 'desc' | 'shuffle' | 'interleave'
  omit_empty      probability that an empty bit net is left out
  range_names     bus ports renamed "p[hi:lo]" (what Vivado writes)
  array1          probability that a 1-bit port is declared (array p 1)
  view            'netlist' | 'cell' | 'odd'
  libref          'always' | 'omit-same'
  comments        probability of a (comment "...") at each legal place
  layout          'pretty' | 'dense'
  external        the first (primitive) library is written as (external ...)
  design_props    properties inside (design ...)
  lib_order / cell_order  'topo-random' (any order EDIF allows)
"""
import random, re, json

KW = ['edif', 'edifVersion', 'edifLevel', 'keywordMap', 'keywordLevel', 'status', 'written', 'timeStamp', 'program', 'version',
      'library', 'external', 'technology', 'numberDefinition', 'cell', 'cellType', 'view', 'viewType', 'interface', 'port', 'array',
      'direction', 'contents', 'instance', 'viewRef', 'cellRef', 'libraryRef', 'net', 'joined', 'portRef', 'member', 'instanceRef',
      'property', 'string', 'integer', 'boolean', 'true', 'false', 'owner', 'rename', 'design', 'comment', 'GENERIC', 'NETLIST',
      'INPUT', 'OUTPUT', 'INOUT']


def make_style(seed, variant=0):
    r = random.Random('edif-style:%s:%s' % (seed, variant))
    return {'seed': r.randint(0, 10 ** 9), 'ids': r.choice(['natural', 'natural', 'amp', 'opaque', 'always']),
            'ref_case': r.choice(['same', 'same', 'lower', 'upper', 'swap', 'mixed']), 'kw_case': r.choice(['lower', 'camel', 'camel', 'upper']),
            'bit_order': r.choice(['asc', 'desc', 'shuffle', 'interleave']), 'omit_empty': r.choice([0, 0.3, 0.7, 1.0]),
            'range_names': r.random() < 0.5, 'array1': r.choice([0, 0, 0.3]), 'view': r.choice(['netlist', 'cell', 'odd']),
            'libref': r.choice(['always', 'always', 'omit-same']), 'comments': r.choice([0, 0.1, 0.3]), 'layout': r.choice(['pretty', 'dense']),
            'external': r.random() < 0.15, 'design_props': r.random() < 0.4, 'lib_order': 'topo-random', 'cell_order': 'topo-random'}


def legal(name):
    return re.fullmatch(r'[A-Za-z][A-Za-z0-9_]*', name) is not None and len(name) <= 255


class Plan:
    """Every decision that changes what the text *means*: identifiers, written names, omitted bits, 1-bit arrays."""

    def __init__(self, ad, style):
        self.ad, self.style = ad, style
        r = random.Random('edif-plan:%s' % style['seed'])
        self.r = r
        self.counter = 0
        self.netlist_id = self.ident(ad['name'], set())
        self.design_id = self.ident(ad['top_instance_name'], set())
        self.lib = {}; self.cell = {}; self.port = {}; self.inst = {}; self.cable = {}; self.prop = {}
        self.omit = set(); self.arr1 = set(); self.portname = {}
        used_l = set()
        for l in ad['libraries']:
            self.lib[l['name']] = self.ident(l['name'], used_l)
            used_c = set()
            for d in l['definitions']:
                key = (l['name'], d['name'])
                self.cell[key] = self.ident(d['name'], used_c)
                used_p = set()
                for p in d['ports']:
                    self.port[key + (p['name'],)] = self.ident(p['name'], used_p)
                    wn = p['name']
                    if p['width'] > 1 and style['range_names']:
                        hi, lo = p['base'] + p['width'] - 1, p['base']
                        wn = '%s[%d:%d]' % (p['name'], hi, lo) if p['downto'] else '%s[%d:%d]' % (p['name'], lo, hi)
                    self.portname[key + (p['name'],)] = wn
                    if p['width'] == 1 and r.random() < style['array1']:
                        self.arr1.add(key + (p['name'],))
                used_i = set()
                for i in d['instances']:
                    self.inst[key + (i['name'],)] = self.ident(i['name'], used_i)
                    used_pr = set()
                    for k in (i.get('properties') or {}):
                        self.prop[key + (i['name'], k)] = self.ident(k, used_pr, force=False if legal(k) else None)
                used_n = set()
                connected = set((n['cable'], n['bit']) for n in d['nets'] if n['endpoints'])
                for c in d['cables']:
                    bus = c['width'] > 1 or c['base'] != 0
                    cid = self.ident(c['name'], used_n, reserve=[('_%d_' % (c['base'] + b)) for b in range(c['width'])] if bus else ())
                    self.cable[key + (c['name'],)] = cid
                    if bus:
                        for b in range(c['width']):
                            if (c['name'], c['base'] + b) not in connected and r.random() < style['omit_empty']:
                                self.omit.add(key + (c['name'], c['base'] + b))
                    elif (c['name'], c['base']) not in connected and r.random() < style['omit_empty'] * 0.5:
                        self.omit.add(key + (c['name'], c['base']))

    def ident(self, name, used, force=None, reserve=()):
        """an EDIF identifier for name, unique (case-insensitively) in `used`; reserve: suffixes that must stay free too"""
        mode = self.style['ids']
        r = self.r
        cand = None
        if legal(name) and force is not True and mode not in ('opaque', 'always'):
            cand = name
        elif legal(name) and mode == 'always' and r.random() < 0.5:
            cand = name
        if cand is None or not self.free(cand, used, reserve):
            if mode == 'opaque':
                base = 'n'
            else:
                base = re.sub(r'[^A-Za-z0-9_]', '_', name)[:200] or 'x'
                if not base[0].isalpha():
                    base = ('&' + base) if mode in ('amp', 'always') else ('id' + base)
            cand = base if (mode != 'opaque' and base != name) else None
            while cand is None or not self.free(cand, used, reserve):
                self.counter += 1
                cand = '%s_HDI_%d' % (base, self.counter) if mode != 'opaque' else 'n%d' % self.counter
        used.add(cand.lower())
        for s in reserve:
            used.add((cand + s).lower())
        return cand

    @staticmethod
    def free(cand, used, reserve):
        if cand.lower() in used or cand.lower() in ('', ):
            return False
        return all((cand + s).lower() not in used for s in reserve)


class Writer:
    def __init__(self, ad, style, plan=None):
        self.ad, self.style = ad, style
        self.plan = plan or Plan(ad, style)
        self.r = random.Random('edif-render:%s' % style['seed'])
        self.out = []
        self.idx = {(l['name'], d['name']): d for l in ad['libraries'] for d in l['definitions']}

    # -------------------------------------------------------------- lexical helpers
    def kw(self, k):
        c = self.style['kw_case']
        if c == 'lower':
            return k.lower()
        if c == 'upper':
            return k.upper()
        return k

    def ref(self, ident):
        c = self.style['ref_case']
        if c == 'mixed':
            c = self.r.choice(['same', 'lower', 'upper', 'swap'])
        return {'same': ident, 'lower': ident.lower(), 'upper': ident.upper(), 'swap': ident.swapcase()}[c]

    def namedef(self, ident, name):
        if ident == name:
            return ident
        return '(%s %s "%s")' % (self.kw('rename'), ident, name)

    def emit(self, depth, text):
        if self.style['layout'] == 'pretty':
            self.out.append('  ' * depth + text + '\n')
        else:
            self.out.append(text + self.r.choice([' ', '\n', '\t ', '']) if not text.endswith('"') else text + ' ')

    def comment(self, depth):
        if self.r.random() < self.style['comments']:
            self.emit(depth, '(%s "%s")' % (self.kw('comment'), self.r.choice(['generated', 'a (nested) looking ) comment', 'x', 'Reference To The Cell', ''])))

    # -------------------------------------------------------------- structure
    def topo(self, items, deps):
        """a random order of items in which every item comes after its dependencies"""
        items = list(items)
        done, out = set(), []
        while len(out) < len(items):
            ready = [x for x in items if x not in done and all(y in done or y not in items for y in deps(x))]
            x = self.r.choice(ready)
            done.add(x); out.append(x)
        return out

    def render(self):
        ad, P, kw = self.ad, self.plan, self.kw
        self.emit(0, '(%s %s' % (kw('edif'), self.namedef(P.netlist_id, ad['name'])))
        self.emit(1, '(%s 2 0 0)' % kw('edifVersion'))
        self.emit(1, '(%s 0)' % kw('edifLevel'))
        self.emit(1, '(%s (%s 0))' % (kw('keywordMap'), kw('keywordLevel')))
        if self.r.random() < 0.6:
            self.emit(1, '(%s (%s (%s 2024 1 2 3 4 5) (%s "indep" (%s "1.0")) (%s "independent writer")))' % (
                kw('status'), kw('written'), kw('timeStamp'), kw('program'), kw('version'), kw('comment')))
        libnames = [l['name'] for l in ad['libraries']]
        libdeps = {l['name']: set(i['ref'][0] for d in l['definitions'] for i in d['instances'] if i['ref'][0] != l['name']) for l in ad['libraries']}
        first = True
        for ln in self.topo(libnames, lambda x: libdeps[x]):
            self.comment(1)
            self.library([l for l in ad['libraries'] if l['name'] == ln][0], external=self.style['external'] and ln == libnames[0])
        self.comment(1)
        top = tuple(ad['top'])
        self.emit(1, '(%s %s' % (kw('design'), self.namedef(P.design_id, ad['top_instance_name'])))
        self.emit(2, '(%s %s (%s %s))' % (kw('cellRef'), self.ref(P.cell[top]), kw('libraryRef'), self.ref(P.lib[top[0]])))
        if self.style['design_props']:
            self.emit(2, '(%s part (%s "xc7a100tcsg324-1"))' % (kw('property'), kw('string')))
            self.emit(2, '(%s (%s XLNX_PROJ_DIR "XLNX.PROJ/DIR") (%s "C:/x y/z"))' % (kw('property'), kw('rename'), kw('string')))
        self.emit(1, ')')
        self.emit(0, ')')
        return ''.join(self.out)

    def library(self, l, external=False):
        P, kw = self.plan, self.kw
        self.emit(1, '(%s %s' % (kw('external' if external else 'library'), self.namedef(P.lib[l['name']], l['name'])))
        self.emit(2, '(%s 0)' % kw('edifLevel'))
        self.emit(2, '(%s (%s))' % (kw('technology'), kw('numberDefinition')))
        names = [d['name'] for d in l['definitions']]
        deps = {d['name']: set(i['ref'][1] for i in d['instances'] if i['ref'][0] == l['name']) for d in l['definitions']}
        for dn in self.topo(names, lambda x: deps[x]):
            self.comment(2)
            self.cell(l['name'], self.idx[(l['name'], dn)])
        self.emit(1, ')')

    def viewname(self, key):
        v = self.style['view']
        if v == 'netlist':
            return 'netlist'
        if v == 'cell':
            return self.plan.cell[key]
        return 'v_' + self.plan.cell[key].replace('&', 'a')

    def cell(self, ln, d):
        P, kw = self.plan, self.kw
        key = (ln, d['name'])
        self.emit(2, '(%s %s (%s %s)' % (kw('cell'), self.namedef(P.cell[key], d['name']), kw('cellType'), kw('GENERIC')))
        self.emit(3, '(%s %s (%s %s)' % (kw('view'), self.viewname(key), kw('viewType'), kw('NETLIST')))
        self.emit(4, '(%s' % kw('interface'))
        for p in d['ports']:
            self.comment(5)
            pk = key + (p['name'],)
            nd = self.namedef(P.port[pk], P.portname[pk])
            if p['width'] > 1 or pk in P.arr1:
                nd = '(%s %s %d)' % (kw('array'), nd, p['width'])
            self.emit(5, '(%s %s (%s %s))' % (kw('port'), nd, kw('direction'), kw({'IN': 'INPUT', 'OUT': 'OUTPUT', 'INOUT': 'INOUT'}[p['direction']])))
        self.emit(4, ')')
        if d['cables'] or d['instances'] or self.r.random() < 0.2:
            self.emit(4, '(%s' % kw('contents'))
            # instances must precede the nets that reference them; comments anywhere
            for i in d['instances']:
                self.comment(5)
                self.instance(key, i)
            for item in self.net_items(key, d):
                self.comment(5)
                self.net(key, d, *item)
            self.emit(4, ')')
        self.emit(3, ')')
        self.emit(2, ')')

    def instance(self, key, i):
        P, kw = self.plan, self.kw
        rk = tuple(i['ref'])
        lr = ' (%s %s)' % (kw('libraryRef'), self.ref(P.lib[rk[0]])) if (self.style['libref'] == 'always' or rk[0] != key[0]) else ''
        head = '(%s %s (%s %s (%s %s%s))' % (kw('instance'), self.namedef(P.inst[key + (i['name'],)], i['name']), kw('viewRef'),
                                              self.ref(self.viewname(rk)), kw('cellRef'), self.ref(P.cell[rk]), lr)
        props = i.get('properties') or {}
        if not props:
            self.emit(5, head + ')')
            return
        self.emit(5, head)
        for k, v in props.items():
            if isinstance(v, bool):
                tv = '(%s (%s))' % (kw('boolean'), kw('true' if v else 'false'))
            elif isinstance(v, int):
                tv = '(%s %d)' % (kw('integer'), v)
            else:
                tv = '(%s "%s")' % (kw('string'), v)
            own = ' (%s "Xilinx")' % kw('owner') if self.r.random() < 0.2 else ''
            self.emit(6, '(%s %s %s%s)' % (kw('property'), self.namedef(P.prop[key + (i['name'], k)], k), tv, own))
            self.comment(6)
        self.emit(5, ')')

    def net_items(self, key, d):
        """(cable, bit or None) in the order the style asks for; omitted bits left out"""
        P = self.plan
        per = []
        for c in d['cables']:
            bus = c['width'] > 1 or c['base'] != 0
            bits = [c['base'] + b for b in range(c['width'])]
            bits = [b for b in bits if key + (c['name'], b) not in P.omit]
            o = self.style['bit_order']
            if o == 'desc':
                bits.reverse()
            elif o in ('shuffle', 'interleave'):
                self.r.shuffle(bits)
            per.append([(c, b if bus else None) for b in bits])
        if self.style['bit_order'] == 'interleave':
            flat = [x for p in per for x in p]
            self.r.shuffle(flat)
            return flat
        self.r.shuffle(per)
        return [x for p in per for x in p]

    def net(self, key, d, c, bit):
        P, kw = self.plan, self.kw
        cid = P.cable[key + (c['name'],)]
        if bit is None:
            nd = self.namedef(cid, c['name'])
            b = c['base']
        else:
            nd = '(%s %s_%d_ "%s[%d]")' % (kw('rename'), cid, bit, c['name'], bit)
            b = bit
        eps = []
        for n in d['nets']:
            if n['cable'] == c['name'] and n['bit'] == b:
                eps = n['endpoints']
        self.emit(5, '(%s %s (%s' % (kw('net'), nd, kw('joined')))
        pdef = {p['name']: p for p in d['ports']}
        for ep in eps:
            if ep[0] == 'port':
                p = pdef[ep[1]]; pk = key + (p['name'],); iref = ''
                bitno = ep[2]
            else:
                inst = [i for i in d['instances'] if i['name'] == ep[1]][0]
                rk = tuple(inst['ref'])
                p = [q for q in self.idx[rk]['ports'] if q['name'] == ep[2]][0]; pk = rk + (p['name'],)
                iref = ' (%s %s)' % (kw('instanceRef'), self.ref(P.inst[key + (inst['name'],)]))
                bitno = ep[3]
            if p['width'] > 1 or pk in P.arr1:
                pr = '(%s %s %d)' % (kw('member'), self.ref(P.port[pk]), bitno - p['base'])
            else:
                pr = self.ref(P.port[pk])
            self.emit(6, '(%s %s%s)' % (kw('portRef'), pr, iref))
        self.emit(5, '))')


def render(ad, style):
    w = Writer(ad, style)
    return w.render(), w.plan


def ad_canon(ad, plan, ordered=True):
    """The canonical structure (shape of rtcommon.net_canon_edif with ids=True) that the rendered text describes."""
    P = plan
    idx = {(l['name'], d['name']): d for l in ad['libraries'] for d in l['definitions']}
    c = {'name': ad['name'], 'id': P.netlist_id, 'libs': {}, 'top': list(ad['top']), 'design': ad['top_instance_name']}
    for l in ad['libraries']:
        L = c['libs'][l['name']] = {'id': P.lib[l['name']], 'defs': {}}
        for d in l['definitions']:
            key = (l['name'], d['name'])
            D = L['defs'][d['name']] = {'id': P.cell[key], 'ports': [], 'cables': {}, 'insts': {}, 'nets': {}}
            pb = {p['name']: p for p in d['ports']}
            D['ports'] = {}
            D['portorder'] = [P.portname[key + (p['name'],)] for p in d['ports']]
            for p in d['ports']:
                pk = key + (p['name'],)
                D['ports'][P.portname[pk]] = {'id': P.port[pk], 'dir': p['direction'], 'width': p['width'], 'array': p['width'] > 1 or pk in P.arr1}
            rb = {}
            for i in d['instances']:
                props = []
                for k, v in (i.get('properties') or {}).items():
                    pid = P.prop[key + (i['name'], k)]
                    props.append({'id': pid, 'orig': k if pid != k else None, 'type': type(v).__name__, 'value': v})
                D['insts'][i['name']] = {'id': P.inst[key + (i['name'],)], 'ref': list(i['ref']), 'props': props}
                rb[i['name']] = tuple(i['ref'])
            nets = {(n['cable'], n['bit']): n['endpoints'] for n in d['nets']}
            for cb in d['cables']:
                bits = [cb['base'] + b for b in range(cb['width']) if key + (cb['name'], cb['base'] + b) not in P.omit]
                if not bits:
                    continue                          # nothing of this cable is in the file
                lo, hi = min(bits), max(bits)
                D['cables'][cb['name']] = {'id': P.cable[key + (cb['name'],)], 'width': hi - lo + 1, 'base': lo}
                for b in range(lo, hi + 1):
                    eps = []
                    for ep in nets.get((cb['name'], b), []):
                        if ep[0] == 'port':
                            eps.append(['port', P.portname[key + (ep[1],)], ep[2] - pb[ep[1]]['base']])
                        else:
                            rk = rb[ep[1]]
                            rp = [q for q in idx[rk]['ports'] if q['name'] == ep[2]][0]
                            eps.append(['inst', ep[1], P.portname[rk + (ep[2],)], ep[3] - rp['base']])
                    if not ordered:
                        eps.sort(key=json.dumps)
                    D['nets']['%s[%d]' % (cb['name'], b)] = eps
    return c
