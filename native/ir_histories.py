"""Bounded stand-in for C01/C02/C14/C19 (and the replay search behind failed proof obligations):
random histories over the public IR mutator alphabet, valid and invalid arguments, several netlists,
proxy outer pins; after every step Inv (I1-I4) is evaluated, every refused call is compared field by
field with the state before it (C14), and a listener that only replays announcements is compared with
the real netlists (C19).

stdin : {"seeds":[...], "steps":N, "focus":[op names], "checks":[...], "records": optional explicit history}
stdout: @@JSON@@ {"runs":n, "steps":n, "failures":[{seed, step, check, detail, history}], "op_counts":{}, "hashes":[...]}
"""
import sys, json, random, hashlib, collections, traceback
import spydrnet as sdn
from spydrnet.ir import OuterPin, InnerPin
from spydrnet.callback.callback_listener import CallbackListener
from spydrnet.plugins import namespace_manager as NM
import irlib

NAMES = ['a', 'b', 'A', 'a_b', None]
KEYS = ['.NAME', 'EDIF.identifier', 'user', 'VERILOG.x']
EXC = (AssertionError, ValueError, KeyError, AttributeError, TypeError, RuntimeError, IndexError, NotImplementedError)


class Mirror(CallbackListener):
    """Replays announcements only. State is keyed by id()."""
    def __init__(self):
        self.kids = collections.defaultdict(collections.Counter)   # (rel, id(parent)) -> Counter(id(child))
        self.parent = {}                                           # (rel, id(child)) -> id(parent)
        self.conn = collections.defaultdict(set)                   # id(wire) -> pin keys
        self.ref = {}
        self.top = {}
        self.data = collections.defaultdict(dict)
        self.early = []                                            # announce-before-effect problems
        self.log = []
        self.keep = []                                             # strong references: id() must never be reused
        super().__init__()

    @staticmethod
    def key(p):
        if isinstance(p, OuterPin):
            return ('o', id(p._instance), id(p._inner_pin))
        return ('i', id(p))

    def _add(self, rel, pf, c, x):
        self.log.append((rel + '+', id(c), id(x))); self.keep += [c, x]
        if getattr(x, pf, None) is c and self.parent.get((rel, id(x)), None) != id(c):
            self.early.append('%s add announced after the parent pointer was set' % rel)
        self.kids[(rel, id(c))][id(x)] += 1
        self.parent[(rel, id(x))] = id(c)

    def _rem(self, rel, pf, c, x):
        self.log.append((rel + '-', id(c), id(x))); self.keep += [c, x]
        if getattr(x, pf, None) is not c and self.parent.get((rel, id(x)), None) == id(c):
            self.early.append('%s remove announced after the parent pointer was cleared' % rel)
        k = self.kids[(rel, id(c))]
        if k[id(x)] > 0:
            k[id(x)] -= 1
            if not k[id(x)]:
                del k[id(x)]
        self.parent[(rel, id(x))] = None

    def create_netlist(self, x): self.keep.append(x); self.data.setdefault(id(x), {})
    def create_library(self, x): self.keep.append(x); self.data.setdefault(id(x), {})
    def create_definition(self, x): self.keep.append(x); self.data.setdefault(id(x), {})
    def create_port(self, x): self.keep.append(x); self.data.setdefault(id(x), {})
    def create_cable(self, x): self.keep.append(x); self.data.setdefault(id(x), {})
    def create_instance(self, x): self.keep.append(x); self.data.setdefault(id(x), {})
    def netlist_add_library(self, c, x): self._add('libraries', '_netlist', c, x)
    def netlist_remove_library(self, c, x): self._rem('libraries', '_netlist', c, x)
    def library_add_definition(self, c, x): self._add('definitions', '_library', c, x)
    def library_remove_definition(self, c, x): self._rem('definitions', '_library', c, x)
    def definition_add_port(self, c, x): self._add('ports', '_definition', c, x)
    def definition_remove_port(self, c, x): self._rem('ports', '_definition', c, x)
    def definition_add_cable(self, c, x): self._add('cables', '_definition', c, x)
    def definition_remove_cable(self, c, x): self._rem('cables', '_definition', c, x)
    def definition_add_child(self, c, x): self._add('children', '_parent', c, x)
    def definition_remove_child(self, c, x): self._rem('children', '_parent', c, x)
    def port_add_pin(self, c, x): self._add('pins', '_port', c, x)
    def port_remove_pin(self, c, x): self._rem('pins', '_port', c, x)
    def cable_add_wire(self, c, x): self._add('wires', '_cable', c, x)
    def cable_remove_wire(self, c, x): self._rem('wires', '_cable', c, x)

    def wire_connect_pin(self, w, p):
        self.log.append(('conn+', id(w))); self.keep += [w, p]
        stored = p
        if isinstance(p, OuterPin) and p._instance is not None and hasattr(p._instance, '_pins'):
            stored = p._instance._pins.get(p._inner_pin, p)
        if getattr(stored, '_wire', None) is w and any(x is stored for x in getattr(w, '_pins', [])) and self.key(p) not in self.conn[id(w)]:
            self.early.append('connect announced after the connection was made')
        self.conn[id(w)].add(self.key(p))

    def wire_disconnect_pin(self, w, p):
        self.log.append(('conn-', id(w))); self.keep += [w, p]
        stored = p
        if isinstance(p, OuterPin) and p._instance is not None and hasattr(p._instance, '_pins'):
            stored = p._instance._pins.get(p._inner_pin, p)
        if self.key(p) in self.conn[id(w)] and not any(x is stored for x in getattr(w, '_pins', [])):
            self.early.append('disconnect announced after the pin left the wire')
        self.conn[id(w)].discard(self.key(p))

    def instance_reference(self, i, v):
        self.log.append(('ref', id(i), id(v))); self.keep += [i, v]
        old = i._reference
        if v is not None and i._reference is v and self.ref.get(id(i), None) != id(v):
            self.early.append('reference announced after it was set')
        if old is not None and v is not None and isinstance(v, sdn.Definition):
            try:
                m = {}
                for cp, np_ in zip(old._ports, v._ports):
                    for cq, nq in zip(cp._pins, np_._pins):
                        m[id(cq)] = id(nq)
                for wid, keys in self.conn.items():
                    new = set()
                    for k in keys:
                        if k[0] == 'o' and k[1] == id(i) and k[2] in m:
                            new.add(('o', id(i), m[k[2]]))
                        else:
                            new.add(k)
                    self.conn[wid] = new
            except Exception:
                pass
        self.ref[id(i)] = id(v) if v is not None else None

    def netlist_top_instance(self, n, x):
        self.log.append(('top', id(n), id(x))); self.keep += [n, x]
        if isinstance(x, sdn.Definition):
            return  # the setter announces again with the fresh instance
        self.top[id(n)] = id(x) if x is not None else None

    def dictionary_set(self, e, k, v):
        self.log.append(('set', id(e), k)); self.keep.append(e)
        self.data[id(e)][k] = repr(v)

    def dictionary_delete(self, e, k):
        self.log.append(('del', id(e), k))
        self.data[id(e)].pop(k, None)

    def dictionary_pop(self, e, k):
        self.log.append(('pop', id(e), k))
        self.data[id(e)].pop(k, None)

    # ---- comparison with the real netlists
    def compare(self, objs):
        errs = []
        for o in objs:
            k = irlib.kind(o)
            for ccls, lf, ecls, pf in irlib.REL:
                if k == ccls:
                    real = collections.Counter(id(x) for x in getattr(o, '_' + lf))
                    if real != +self.kids[(lf, id(o))]:
                        errs.append('%s.%s differs from the announced membership' % (ccls, lf))
                if k == ecls:
                    rp = getattr(o, '_' + pf)
                    if (id(rp) if rp is not None else None) != self.parent.get((lf, id(o)), None):
                        errs.append('%s.%s differs from the announced parent' % (ecls, pf))
            if k == 'Wire':
                real = set(self.key(p) for p in o._pins)
                if real != self.conn[id(o)]:
                    errs.append('Wire.pins differs from the announced connections (real %d, announced %d)' % (len(real), len(self.conn[id(o)])))
            if k == 'Instance':
                rr = o._reference
                if (id(rr) if rr is not None else None) != self.ref.get(id(o), None):
                    errs.append('Instance.reference differs from the announced reference')
            if k == 'Netlist':
                rt = o._top_instance
                if (id(rt) if rt is not None else None) != self.top.get(id(o), None):
                    errs.append('Netlist.top_instance differs from the announced top instance')
            if hasattr(o, '_data'):
                real = {kk: repr(vv) for kk, vv in o._data.items()}
                if real != self.data[id(o)]:
                    errs.append('%s data differs from the announced data: real %r announced %r' % (k, sorted(map(str, real))[:6], sorted(map(str, self.data[id(o)]))[:6]))
        return errs

    def resync(self, objs):
        """Adopt reality (used after a vetoed call, where phantom announcements are permitted)."""
        for o in objs:
            k = irlib.kind(o)
            for ccls, lf, ecls, pf in irlib.REL:
                if k == ccls:
                    self.kids[(lf, id(o))] = collections.Counter(id(x) for x in getattr(o, '_' + lf))
                if k == ecls:
                    rp = getattr(o, '_' + pf)
                    self.parent[(lf, id(o))] = id(rp) if rp is not None else None
            if k == 'Wire':
                self.conn[id(o)] = set(self.key(p) for p in o._pins)
            if k == 'Instance':
                self.ref[id(o)] = id(o._reference) if o._reference is not None else None
            if k == 'Netlist':
                self.top[id(o)] = id(o._top_instance) if o._top_instance is not None else None
            if hasattr(o, '_data'):
                self.data[id(o)] = {kk: repr(vv) for kk, vv in o._data.items()}


class World:
    def __init__(self):
        self.objs = []
        self.ids = {}

    def reg(self, o):
        if o is None or id(o) in self.ids or irlib.kind(o) not in irlib.CLS:
            return
        self.ids[id(o)] = len(self.objs)
        self.objs.append(o)

    def harvest(self):
        """Deterministic registration of everything newly reachable."""
        i = 0
        while i < len(self.objs):
            o = self.objs[i]; i += 1
            k = irlib.kind(o)
            if k == 'Netlist':
                for x in o._libraries: self.reg(x)
                self.reg(o._top_instance)
            elif k == 'Library':
                for x in o._definitions: self.reg(x)
            elif k == 'Definition':
                for x in o._ports + o._cables + o._children: self.reg(x)
            elif k == 'Port':
                for x in o._pins: self.reg(x)
            elif k == 'Cable':
                for x in o._wires: self.reg(x)
            elif k == 'Instance':
                for x in o._pins.values(): self.reg(x)
                self.reg(o._reference)
            elif k == 'Wire':
                for x in o._pins: self.reg(x)

    def of(self, *kinds):
        return [i for i, o in enumerate(self.objs) if irlib.kind(o) in kinds]


def resolve(W, a):
    if isinstance(a, dict):
        if 'o' in a: return W.objs[a['o']]
        if 'proxy' in a:
            i, q = a['proxy']
            return OuterPin.from_instance_and_inner_pin(W.objs[i] if i is not None else None, W.objs[q] if q is not None else None)
        if 'list' in a: return [resolve(W, x) for x in a['list']]
        if 'set' in a: return set(resolve(W, x) for x in a['set'])
        if 'foreign' in a: return object()
        if 'dir' in a: return getattr(sdn, a['dir'])
        if 'props' in a: return dict(a['props'])
    return a


def execute(W, rec):
    """Run one recorded call.  Returns the result object (registered by the caller)."""
    op = rec['op']; A = [resolve(W, x) for x in rec.get('args', [])]
    if op == 'new':
        return irlib.CLS[A[0]](*A[1:])
    if op == 'policy':
        NM.default = A[0]; return None          # the process-wide naming policy that newly created elements adopt
    if op == 'setattr':
        setattr(A[0], A[1], A[2]); return None
    if op == 'delattr':
        delattr(A[0], A[1]); return None
    if op == 'setitem':
        A[0][A[1]] = A[2]; return None
    if op == 'delitem':
        del A[0][A[1]]; return None
    if op == 'call':
        kw = {k: resolve(W, v) for k, v in rec.get('kw', {}).items()}
        return getattr(A[0], A[1])(*A[2:], **kw)
    raise RuntimeError('unknown op ' + op)


class Gen:
    """Chooses the next call from the current world.  Everything random comes from self.r."""
    def __init__(self, W, r, focus=()):
        self.W, self.r, self.focus = W, r, set(focus)

    def pick(self, *kinds, wrong=0.06):
        W, r = self.W, self.r
        if r.random() < wrong:
            c = W.of(*irlib.CLS.keys())
            if c and r.random() < 0.7:
                return {'o': r.choice(c)}
            return r.choice([None, 3, 'x', {'foreign': 1}])
        c = W.of(*kinds)
        return {'o': r.choice(c)} if c else None

    def pin(self, proxy_p=0.35):
        W, r = self.W, self.r
        c = W.of('InnerPin', 'OuterPin')
        if not c:
            return None
        i = r.choice(c)
        o = W.objs[i]
        if isinstance(o, OuterPin) and r.random() < proxy_p and o._instance is not None and o._inner_pin is not None:
            return {'proxy': [W.ids[id(o._instance)], W.ids.get(id(o._inner_pin))]}
        if r.random() < 0.04:
            ii = W.of('Instance'); qq = W.of('InnerPin')
            return {'proxy': [r.choice(ii) if ii and r.random() < 0.8 else None, r.choice(qq) if qq and r.random() < 0.8 else None]}
        return {'o': i}

    def members(self, container_idx, lf):
        W = self.W
        return [W.ids[id(x)] for x in getattr(W.objs[container_idx], '_' + lf) if id(x) in W.ids]

    def some(self, idxs, extra_kinds=()):
        r = self.r
        k = r.randint(0, min(3, len(idxs)))
        out = r.sample(idxs, k) if idxs else []
        if r.random() < 0.12:
            c = self.W.of(*extra_kinds) if extra_kinds else []
            if c: out.append(r.choice(c))
        if r.random() < 0.05 and out:
            out.append(out[0])
        return [{'o': i} for i in out]

    def OPS(self):
        return ['new', 'create_library', 'create_definition', 'create_port', 'create_cable', 'create_child', 'create_pin',
                'create_pins', 'create_wire', 'create_wires', 'add', 'remove', 'remove_from', 'reorder', 'reorder_bad',
                'connect', 'disconnect', 'disconnect_from', 'reference', 'unreference', 'top', 'set_top', 'name', 'data',
                'deldata', 'popdata', 'scalar', 'wire_pins_proxy', 'add_pin_instanced', 'create_child_dup', 'add_cross', 'repoint_compatible', 'connect_outer', 'top_wired', 'policy', 'cross_policy_add']

    def next(self):
        r, W = self.r, self.W
        ops = self.OPS()
        if getattr(self, 'pending', None):
            rec = self.pending.pop(0)(W)
            if rec is not None:
                return rec
        if self.focus and r.random() < 0.5:
            ops = [o for o in ops if o in self.focus] or ops
        for _ in range(20):
            rec = self.make(r.choice(ops))
            if rec is not None:
                return rec
        return {'op': 'new', 'args': ['Netlist', r.choice(NAMES)]}

    def make(self, op):
        r, W, pick = self.r, self.W, self.pick
        nm = lambda: r.choice(NAMES)
        pos = lambda: r.choice([None, None, None, 0, 1, -1])
        call = lambda recv, meth, *a, **kw: None if recv is None else {'op': 'call', 'args': [recv, meth] + list(a), **({'kw': kw} if kw else {})}
        def props():
            # the `properties` argument of constructors and create_* (initial user data, possibly an identifier)
            if r.random() < 0.7: return None
            return {'props': r.choice([{'user': 'v1'}, {'user': 'v1', 'k2': 'v2'}, {'EDIF.identifier': nm()}, {'user': 'v1', 'EDIF.identifier': nm()}, {}])}
        def withp(rec):
            p_ = props()
            if rec is not None and p_ is not None: rec.setdefault('kw', {})['properties'] = p_
            return rec
        if op == 'new':
            k = r.choice(['Netlist', 'Library', 'Definition', 'Port', 'Cable', 'Instance', 'Wire', 'InnerPin'])
            if k in ('Wire', 'InnerPin'): return {'op': 'new', 'args': [k]}
            p_ = props()
            return {'op': 'new', 'args': [k, nm()] + ([p_] if p_ is not None else [])}
        if op == 'create_library': return withp(call(pick('Netlist'), 'create_library', nm()))
        if op == 'create_definition': return withp(call(pick('Library'), 'create_definition', nm()))
        if op == 'create_port':
            return withp(call(pick('Definition'), 'create_port', nm(), pins=r.choice([None, 0, 1, 2, 3]),
                        direction=r.choice([None, {'dir': 'IN'}, {'dir': 'OUT'}, {'dir': 'INOUT'}]), is_downto=r.choice([None, False]),
                        lower_index=r.choice([None, 0, 2])))
        if op == 'create_cable':
            return withp(call(pick('Definition'), 'create_cable', nm(), wires=r.choice([None, 0, 1, 2, 3]), lower_index=r.choice([None, 0, 1])))
        if op == 'create_child': return withp(call(pick('Definition'), 'create_child', nm(), reference=r.choice([None, pick('Definition')])))
        if op == 'create_child_dup':
            d = pick('Definition', wrong=0)
            if d is None: return None
            ch = [x for x in W.objs[d['o']]._children if x.name is not None]
            if not ch: return None
            return call(d, 'create_child', r.choice(ch).name, reference=pick('Definition', wrong=0))
        if op == 'create_pin': return call(pick('Port'), 'create_pin')
        if op == 'create_pins': return call(pick('Port'), 'create_pins', r.choice([0, 1, 2]))
        if op == 'create_wire': return call(pick('Cable'), 'create_wire')
        if op == 'create_wires': return call(pick('Cable'), 'create_wires', r.choice([0, 1, 2]))
        if op == 'add_pin_instanced':
            c = [i for i in W.of('Port') if W.objs[i]._definition is not None and len(W.objs[i]._definition._references)]
            q = [i for i in W.of('InnerPin') if W.objs[i]._port is None]
            if not c: return None
            if not q: return {'op': 'new', 'args': ['InnerPin']}
            return call({'o': r.choice(c)}, 'add_pin', {'o': r.choice(q)}, pos())
        if op == 'repoint_compatible':
            cands = [i for i in W.of('Instance') if W.objs[i]._reference is not None]
            if not cands: return None
            i = r.choice(cands); d = W.objs[i]._reference
            shape = [len(p._pins) for p in d._ports]
            same = [j for j in W.of('Definition') if [len(p._pins) for p in W.objs[j]._ports] == shape]
            if not same: return None
            return {'op': 'setattr', 'args': [{'o': i}, 'reference', {'o': r.choice(same)}]}
        if op == 'connect_outer':
            ws = W.of('Wire'); ops = [i for i in W.of('OuterPin') if W.objs[i]._wire is None and W.objs[i]._instance is not None]
            if not ws or not ops: return None
            return call({'o': r.choice(ws)}, 'connect_pin', {'o': r.choice(ops)}, pos())
        if op == 'cross_policy_add':
            # an element built under one naming policy (possibly with an identifier the other policy refuses) is added to a parent
            # that lives under the other policy: adopted, or refused as a whole
            rel = r.choice(irlib.REL[:5])
            parents = [i for i in W.of(rel[0]) if W.objs[i].get('.NS') is not None]
            if not parents: return None
            par = r.choice(parents)
            other = 'DEFAULT' if W.objs[par].get('.NS') == 'EDIF' else 'EDIF'
            back = NM.default
            meth = {'libraries': 'add_library', 'definitions': 'add_definition', 'ports': 'add_port', 'cables': 'add_cable', 'children': 'add_child'}[rel[1]]
            ident = r.choice(['1x', 'x-y', 'a', 'A', 'a_b'])
            name = nm()
            def new_index(W_):
                return len(W_.objs) - 1
            self.pending = [
                lambda W_: {'op': 'new', 'args': [rel[2], name]},
                lambda W_: {'op': 'setitem', 'args': [{'o': new_index(W_)}, 'EDIF.identifier', ident]},
                lambda W_: {'op': 'policy', 'args': [back]},
                lambda W_: {'op': 'call', 'args': [{'o': par}, meth, {'o': max(i for i in W_.of(rel[2]))}]},
            ]
            return {'op': 'policy', 'args': [other]}
        if op == 'policy':
            # elements created from now on adopt the other naming policy: later adds can be cross-policy (adoption or refusal)
            return {'op': 'policy', 'args': [r.choice(['DEFAULT', 'EDIF'])]}
        if op == 'top_wired':
            # an instance whose outer pins are wired becomes the top instance of a netlist (the setter accepts any instance)
            cand = [i for i in W.of('Instance') if any(o._wire is not None for o in W.objs[i]._pins.values())]
            n = pick('Netlist', wrong=0)
            if not cand or n is None: return None
            return {'op': 'setattr', 'args': [n, 'top_instance', {'o': r.choice(cand)}]}
        if op == 'add_cross':
            # a bundle of the other kind: Port where a Cable is expected and vice versa
            meth, k = r.choice([('add_cable', 'Port'), ('add_port', 'Cable')])
            return call(pick('Definition', wrong=0), meth, pick(k, wrong=0), pos())
        if op == 'add':
            rel = r.choice(irlib.REL)
            meth = {'libraries': 'add_library', 'definitions': 'add_definition', 'ports': 'add_port', 'cables': 'add_cable',
                    'children': 'add_child', 'pins': 'add_pin', 'wires': 'add_wire'}[rel[1]]
            return call(pick(rel[0]), meth, pick(rel[2], wrong=0.1), pos())
        if op == 'remove':
            rel = r.choice(irlib.REL)
            meth = 'remove_' + {'libraries': 'library', 'definitions': 'definition', 'ports': 'port', 'cables': 'cable',
                                'children': 'child', 'pins': 'pin', 'wires': 'wire'}[rel[1]]
            c = pick(rel[0])
            if c is None: return None
            if isinstance(c, dict) and 'o' in c and irlib.kind(W.objs[c['o']]) == rel[0] and r.random() < 0.8:
                m = self.members(c['o'], rel[1])
                if m: return call(c, meth, {'o': r.choice(m)})
            return call(c, meth, pick(rel[2], wrong=0.1))
        if op == 'remove_from':
            rel = r.choice(irlib.REL)
            c = pick(rel[0], wrong=0.02)
            if c is None or not isinstance(c, dict) or 'o' not in c or irlib.kind(W.objs[c['o']]) != rel[0]: return None
            m = self.some(self.members(c['o'], rel[1]), extra_kinds=(rel[2],))
            arg = {'set': m} if r.random() < 0.4 and len(set(x['o'] for x in m)) == len(m) else {'list': m}
            if r.random() < 0.03: arg = 5
            return call(c, 'remove_%s_from' % rel[1], arg)
        if op in ('reorder', 'reorder_bad'):
            rel = r.choice(irlib.REL + [('Wire', 'pins', 'Pin', 'wire')])
            c = pick(rel[0], wrong=0)
            if c is None: return None
            m = self.members(c['o'], rel[1])
            r.shuffle(m)
            lst = [{'o': i} for i in m]
            if op == 'reorder_bad':
                how = r.choice(['dup', 'drop', 'foreign', 'notiter'])
                if how == 'dup' and lst: lst.append(lst[0])
                elif how == 'drop' and lst: lst.pop()
                elif how == 'foreign':
                    f = W.of(rel[2]) if rel[2] != 'Pin' else W.of('InnerPin', 'OuterPin')
                    if f: lst.append({'o': r.choice(f)})
                else:
                    return {'op': 'setattr', 'args': [c, rel[1], 7]}
            return {'op': 'setattr', 'args': [c, rel[1], {'list': lst}]}
        if op == 'wire_pins_proxy':
            c = pick('Wire', wrong=0)
            if c is None: return None
            lst = []
            for x in W.objs[c['o']]._pins:
                if isinstance(x, OuterPin) and x._instance is not None and r.random() < 0.7:
                    lst.append({'proxy': [W.ids[id(x._instance)], W.ids[id(x._inner_pin)]]})
                else:
                    lst.append({'o': W.ids[id(x)]})
            return {'op': 'setattr', 'args': [c, 'pins', {'list': lst}]}
        if op == 'connect': return call(pick('Wire'), 'connect_pin', self.pin(), pos())
        if op == 'disconnect':
            w = pick('Wire')
            if w is None: return None
            if isinstance(w, dict) and 'o' in w and irlib.kind(W.objs[w['o']]) == 'Wire' and W.objs[w['o']]._pins and r.random() < 0.8:
                p = r.choice(W.objs[w['o']]._pins)
                if isinstance(p, OuterPin) and r.random() < 0.5 and p._instance is not None:
                    return call(w, 'disconnect_pin', {'proxy': [W.ids[id(p._instance)], W.ids[id(p._inner_pin)]]})
                return call(w, 'disconnect_pin', {'o': W.ids[id(p)]})
            return call(w, 'disconnect_pin', self.pin())
        if op == 'disconnect_from':
            w = pick('Wire', wrong=0)
            if w is None: return None
            ps = W.objs[w['o']]._pins
            k = r.randint(0, min(3, len(ps)))
            lst = []
            for p in r.sample(ps, k):
                if isinstance(p, OuterPin) and r.random() < 0.5 and p._instance is not None:
                    lst.append({'proxy': [W.ids[id(p._instance)], W.ids[id(p._inner_pin)]]})
                else:
                    lst.append({'o': W.ids[id(p)]})
            if r.random() < 0.15:
                x = self.pin()
                if x is not None: lst.append(x)
            return call(w, 'disconnect_pins_from', {'list': lst})
        if op == 'reference':
            return None if pick('Instance') is None else {'op': 'setattr', 'args': [pick('Instance'), 'reference', pick('Definition', wrong=0.05)]}
        if op == 'unreference':
            i = pick('Instance')
            if i is None: return None
            return r.choice([{'op': 'setattr', 'args': [i, 'reference', None]}, {'op': 'delattr', 'args': [i, 'reference']}])
        if op == 'top':
            n = pick('Netlist')
            return None if n is None else {'op': 'setattr', 'args': [n, 'top_instance', r.choice([None, pick('Instance'), pick('Definition')])]}
        if op == 'set_top':
            return call(pick('Netlist'), 'set_top_instance', r.choice([None, pick('Instance'), pick('Definition')]), nm() or 'instance')
        if op == 'name':
            e = pick('Netlist', 'Library', 'Definition', 'Port', 'Cable', 'Instance')
            if e is None: return None
            return r.choice([{'op': 'setattr', 'args': [e, 'name', nm()]}, {'op': 'delattr', 'args': [e, 'name']}])
        if op == 'data':
            e = pick('Netlist', 'Library', 'Definition', 'Port', 'Cable', 'Instance')
            if e is None: return None
            k = r.choice(KEYS + ([5] if r.random() < 0.05 else []))
            v = r.choice(['a', 'b', 'A', 'a_b', '1x', 'x-y', 7]) if k != 'user' else r.choice([1, 'v', [1, 2]])
            return {'op': 'setitem', 'args': [e, k, v]}
        if op == 'deldata':
            e = pick('Netlist', 'Library', 'Definition', 'Port', 'Cable', 'Instance')
            return None if e is None else {'op': 'delitem', 'args': [e, r.choice(KEYS)]}
        if op == 'popdata':
            return call(pick('Netlist', 'Library', 'Definition', 'Port', 'Cable', 'Instance'), 'pop', r.choice(KEYS))
        if op == 'scalar':
            e = pick('Port', 'Cable', wrong=0)
            if e is None: return None
            a = r.choice(['is_downto', 'is_scalar', 'is_array', 'lower_index', 'direction'])
            if a == 'direction':
                if irlib.kind(W.objs[e['o']]) != 'Port': return None
                v = r.choice([{'dir': 'IN'}, {'dir': 'OUT'}, 1, 'inout', 2.5, 'bogus', 9])
            elif a == 'lower_index': v = r.choice([0, 1, 3])
            else: v = r.choice([True, False])
            return {'op': 'setattr', 'args': [e, a, v]}
        return None


def describe(rec):
    def d(a):
        if isinstance(a, dict):
            if 'o' in a: return '#%d' % a['o']
            if 'proxy' in a: return 'proxy(#%s,#%s)' % tuple(a['proxy'])
            if 'list' in a: return '[' + ','.join(d(x) for x in a['list']) + ']'
            if 'set' in a: return '{' + ','.join(d(x) for x in a['set']) + '}'
            if 'dir' in a: return a['dir']
            return 'foreign'
        return repr(a)
    s = rec['op'] + '(' + ', '.join(d(a) for a in rec.get('args', []))
    if rec.get('kw'): s += ', ' + ', '.join('%s=%s' % (k, d(v)) for k, v in rec['kw'].items())
    return s + ')'


def run_history(seed, steps, focus, checks, records=None, policy='DEFAULT', mirror_first=False):
    r = random.Random(seed)
    W = World()
    NM.default = policy
    mirror = None
    if 'C19' in checks:
        if mirror_first:
            NM.deregister_all_listeners()
            mirror = Mirror()
            NM.register_all_listeners()
        else:
            mirror = Mirror()
    gen = Gen(W, r, focus)
    hist = []
    fail = None
    opc = collections.Counter()
    try:
        seedrec = {'op': 'new', 'args': ['Netlist', 'n0']}
        todo = list(records) if records is not None else None
        step = 0
        while step < steps:
            if todo is not None:
                if not todo: break
                rec = todo.pop(0)
            else:
                rec = seedrec if step == 0 else gen.next()
            hist.append(rec)
            nb = len(W.objs)
            before = irlib.snapshot(W.objs, W.ids) if 'C14' in checks else None
            tables_before = repr(sorted(irlib.ns_tables(W.ids).items())) if 'C14' in checks else None
            if mirror: mirror.early = []; mirror.log = []
            outcome = 'ok'
            repoint = None
            if rec['op'] == 'setattr' and rec['args'][1] == 'reference' and 'C02' in checks:
                try:
                    inst = resolve(W, rec['args'][0]); newd = resolve(W, rec['args'][2])
                    if isinstance(inst, sdn.Instance) and inst._reference is not None and isinstance(newd, sdn.Definition):
                        repoint = (inst, newd, [[(inst._pins.get(q), inst._pins.get(q)._wire if inst._pins.get(q) is not None else None)
                                                  for q in p._pins] for p in inst._reference._ports])
                except Exception:
                    repoint = None
            try:
                res = execute(W, rec)
                W.reg(res)
                if isinstance(res, (list, tuple)):
                    for x in res: W.reg(x)
            except EXC as e:
                outcome = type(e).__name__
            rec['outcome'] = outcome
            opc[rec['op'] + ':' + str(rec.get('args', [None, None])[1] if rec['op'] in ('call', 'setattr', 'delattr') else rec.get('args', [None])[0]) + ':' + ('ok' if outcome == 'ok' else 'refused')] += 1
            if outcome != 'ok' and 'C14' in checks:
                after = irlib.snapshot(W.objs[:nb], W.ids)
                if after != before:
                    fail = ('C14.frame', 'refused call (%s) changed state: %r' % (outcome, irlib.diff_snap(before, after)[:3]))
                elif repr(sorted(irlib.ns_tables({k: v for k, v in W.ids.items() if v < nb}).items())) != tables_before:
                    fail = ('C14.tables', 'refused call (%s) changed the name tables' % outcome)
                else:
                    # nothing of a half-built element may remain registered with a pre-existing object
                    W2 = World(); W2.objs = list(W.objs[:nb]); W2.ids = {id(o): i for i, o in enumerate(W2.objs)}
                    W2.harvest()
                    if len(W2.objs) != nb:
                        fail = ('C14.residue', 'refused call (%s) left %d new object(s) reachable from old ones' % (outcome, len(W2.objs) - nb))
            W.harvest()
            if fail is None and repoint is not None and outcome == 'ok':
                inst, newd, before = repoint
                for a, port in enumerate(newd._ports):
                    for b, q in enumerate(port._pins):
                        o = inst._pins.get(q)
                        if a < len(before) and b < len(before[a]):
                            if o is not before[a][b][0]:
                                fail = ('C02.repoint-position', 'after re-pointing, pin %d of port %d carries a different outer pin object than the corresponding pin did' % (b, a)); break
                            if o is not None and (o._wire is not before[a][b][1] or (o._wire is not None and not any(x is o for x in o._wire._pins))):
                                fail = ('C02.repoint-connection', 'after re-pointing, the connection of pin %d of port %d changed' % (b, a)); break
                    if fail: break
            if fail is None:
                errs = irlib.check_inv(W.objs, clauses=[c for c in ('I1', 'I2', 'I3', 'I4') if c in checks or
                                                      (c in ('I1', 'I2') and 'C01' in checks) or (c in ('I3', 'I4') and 'C02' in checks)])
                if errs:
                    prop = 'C01' if errs[0][0].startswith(('I1', 'I2')) else 'C02'
                    fail = (prop + '.' + errs[0][0], errs[0][1])
            if fail is None and mirror is not None:
                if mirror.early and outcome == 'ok':
                    fail = ('C19.before', mirror.early[0])
                elif (outcome == 'ValueError' and mirror_first) or outcome in ('AttributeError', 'TypeError'):
                    mirror.resync(W.objs)
                else:
                    me = mirror.compare(W.objs)
                    if me:
                        fail = ('C19.mirror' if outcome == 'ok' else 'C19.in-vain', me[0] + (' after a refused call (%s)' % outcome if outcome != 'ok' else ''))
                        mirror.resync(W.objs)
            if fail is not None:
                break
            step += 1
    finally:
        if mirror is not None:
            mirror.deregister_all_listeners()
        NM.default = 'DEFAULT'
    h = hashlib.sha1(repr([(x['op'], x.get('args'), x.get('kw'), x.get('outcome')) for x in hist]).encode()).hexdigest()[:16]
    nontrivial = sum(1 for x in hist if x.get('outcome') == 'ok') >= 5 and any(x.get('outcome') != 'ok' for x in hist)
    return fail, hist, opc, h, nontrivial


def main():
    cfg = json.load(sys.stdin)
    checks = cfg.get('checks', ['C01', 'C02', 'C14', 'C19'])
    out = {'runs': 0, 'steps': 0, 'failures': [], 'op_counts': {}, 'hashes': [], 'nontrivial': 0, 'samples': []}
    opc = collections.Counter()
    seen_fail = set()
    for seed in cfg.get('seeds', [0]):
        try:
            fail, hist, oc, h, nt = run_history(seed, cfg.get('steps', 40), cfg.get('focus', []), checks, cfg.get('records'),
                                                policy=cfg.get('policy', 'DEFAULT') if cfg.get('policy') != 'mixed' else ('EDIF' if seed % 3 == 0 else 'DEFAULT'),
                                                mirror_first=bool(cfg.get('mirror_first')) or (cfg.get('mirror_order') == 'mixed' and seed % 2 == 1))
        except Exception as e:
            out['failures'].append({'seed': seed, 'check': 'HARNESS', 'detail': traceback.format_exc()[-800:], 'history': []})
            continue
        out['runs'] += 1; out['steps'] += len(hist); opc.update(oc)
        if nt:
            out['hashes'].append(h); out['nontrivial'] += 1
        if len(out['samples']) < 2:
            out['samples'].append([describe(x) + ' -> ' + str(x.get('outcome')) for x in hist[:12]])
        if fail:
            last = hist[-1]
            sig = (fail[0], last['op'], str(last.get('args', [None, None])[1]) if last['op'] != 'new' else '')
            if sig in seen_fail and not cfg.get('all_failures'):
                continue
            seen_fail.add(sig)
            out['failures'].append({'seed': seed, 'step': len(hist) - 1, 'check': fail[0], 'detail': fail[1],
                                    'last_call': describe(last), 'site': sig[1] + ':' + sig[2],
                                    'history': hist, 'pretty': [describe(x) + ' -> ' + str(x.get('outcome')) for x in hist]})
    out['op_counts'] = dict(opc)
    sys.stdout.write('\n@@JSON@@\n' + json.dumps(out, default=str))


if __name__ == '__main__':
    main()
