"""Shared pieces of the bounded reader/writer tier (C03, C04, C05, C06, C18).

Nothing in here uses spydrnet's get_*, HRef, clone or Comparer: the canonicalisers walk public read
attributes only (.libraries .definitions .ports .pins .cables .wires .children .reference .pins .wire
.cable .port .instance .inner_pin .name .data).

Abstract design (AD), JSON-able:
  {"name", "libraries":[{"name","definitions":[{"name","ports":[{"name","direction","width","base","downto"}],
     "cables":[{"name","width","base"}], "instances":[{"name","ref":[lib,def],"properties":{}}],
     "nets":[{"cable","bit","endpoints":[["port",p,bit]|["inst",i,p,bit]]}]}]}], "top":[lib,def], "top_instance_name"}
  bits include the base of their bundle.  Verilog ADs additionally carry per instance "params"/"attrs",
  per definition "params"/"attrs"/"assigns"/"aliases" (port -> MSB-first list of the 1-bit nets of a header alias), per cable
  "attrs"; flat EBLIF ADs are produced by render_eblif.gen_flat().
"""
import sys, os, json, random, hashlib, signal, tempfile, shutil, time, glob, traceback, re
import spydrnet as sdn
from spydrnet.ir import OuterPin, InnerPin
from spydrnet.plugins import namespace_manager as NM
import irlib

REPO = os.environ.get('VERIF_REPO', '/repo')
EXC = Exception


# ------------------------------------------------------------------------------------------ utilities
def jhash(*objs):
    return hashlib.sha1(json.dumps(objs, sort_keys=True, default=str).encode()).hexdigest()[:16]


class Hang(BaseException):
    pass


def _alarm(signum, frame):
    raise Hang()


def where(exc):
    """stable signature of the place inside spydrnet that raised (innermost frame under the repo)"""
    tb = traceback.extract_tb(exc.__traceback__)
    for fr in reversed(tb):
        if '/spydrnet/' in fr.filename:
            return '%s:%s' % (os.path.basename(fr.filename), fr.name)
    return 'outside-spydrnet'


class Runner:
    """Collects evaluations / hashes / samples / failures in the protocol of ir_histories.py."""

    def __init__(self, pid, limit=20, all_failures=False):
        self.pid, self.limit, self.all = pid, limit, all_failures
        self.out = {'evaluations': 0, 'hashes': [], 'samples': [], 'failures': [], 'nontrivial': 0, 'skipped': []}
        self.seen = set()
        self.tmp = tempfile.mkdtemp(prefix='verif_rt_')
        self.n = 0
        signal.signal(signal.SIGALRM, _alarm)

    def path(self, ext):
        self.n += 1
        return os.path.join(self.tmp, 'c%d%s' % (self.n, ext))

    def case(self, h, nontrivial, sample, fn, replay, limit=None):
        """fn() -> list of (check, site, detail).  Every case counts as one evaluation."""
        self.out['evaluations'] += 1
        if nontrivial:
            self.out['hashes'].append(h); self.out['nontrivial'] += 1
        if sample is not None and len(self.out['samples']) < 2:
            self.out['samples'].append(sample)
        fails = []
        signal.alarm(int(limit or self.limit))
        try:
            fails = list(fn() or [])
        except Hang:
            fails = [(self.pid + '.hang', 'time-limit', 'case exceeded %d s' % (limit or self.limit))]
        except Exception as e:
            fails = [('HARNESS', where(e), traceback.format_exc()[-1500:])]
        finally:
            signal.alarm(0)
            NM.default = 'DEFAULT'
        for check, site, detail in fails:
            sig = (check, site)
            if sig in self.seen and not self.all:
                continue
            self.seen.add(sig)
            self.out['failures'].append({'check': check, 'site': site, 'detail': str(detail)[:1500], 'replay': replay})
        # keep the scratch directory small
        for f in os.listdir(self.tmp):
            try:
                os.remove(os.path.join(self.tmp, f))
            except OSError:
                pass
        return fails

    def finish(self):
        shutil.rmtree(self.tmp, ignore_errors=True)
        self.out['hashes'] = sorted(set(self.out['hashes']))
        sys.stdout.write('\n@@JSON@@\n' + json.dumps(self.out, default=str))


def try_parse(path, pid, what='reader-rejects'):
    """(netlist, None) or (None, failure triple)."""
    try:
        return sdn.parse(path), None
    except Hang:
        raise
    except BaseException as e:
        return None, ('%s.%s' % (pid, what), '%s@%s' % (type(e).__name__, where(e)), '%s: %s' % (type(e).__name__, str(e)[:300]))


def try_compose(netlist, path, pid, **kw):
    try:
        sdn.compose(netlist, path, **kw)
        return None
    except Hang:
        raise
    except BaseException as e:
        return ('%s.writer-raises' % pid, '%s@%s' % (type(e).__name__, where(e)), '%s: %s' % (type(e).__name__, str(e)[:300]))


def inv_linear(objs):
    """The clauses I1-I4 of irlib.check_inv evaluated with identity-keyed tables instead of nested scans (irlib.check_inv is
    quadratic in the number of objects); used above SMALL objects, cross-checked against irlib.check_inv below."""
    from spydrnet.ir import OuterPin as OP
    by = {k: [] for k in irlib.CLS}
    for o in objs:
        k = irlib.kind(o)
        if k in by:
            by[k].append(o)
    errs = []
    for ccls, lf, ecls, pf in irlib.REL:
        counts = {}
        for c in by[ccls]:
            d = counts[id(c)] = {}
            for e in getattr(c, lf):
                if irlib.kind(e) != ecls:
                    errs.append(('I1.foreign', '%s.%s lists a %s' % (ccls, lf, irlib.kind(e))))
                d[id(e)] = d.get(id(e), 0) + 1
                if getattr(e, pf, None) is not c:
                    errs.append(('I1.%s' % lf, '%s.%s lists an element whose %s is not the container' % (ccls, lf, pf)))
            for k, v in d.items():
                if v != 1:
                    errs.append(('I1.%s' % lf, '%s.%s lists element %d time(s)' % (ccls, lf, v)))
        for e in by[ecls]:
            p = getattr(e, pf)
            if p is not None and id(p) in counts and counts[id(p)].get(id(e), 0) != 1:
                errs.append(('I1.%s' % lf, 'element.%s is a container that lists it %d time(s)' % (pf, counts[id(p)].get(id(e), 0))))
    stored = []
    for i in by['Instance']:
        for q, o in i._pins.items():
            stored.append(o)
            if not (isinstance(o, OP) and o._instance is i and o._inner_pin is q):
                errs.append(('I3.values', 'outer pin stored under a key does not name (instance, key)'))
        d = i.reference
        if d is None:
            if len(i._pins):
                errs.append(('I3.noref-keys', 'instance without reference carries %d outer pins' % len(i._pins)))
        elif irlib.kind(d) != 'Definition':
            errs.append(('I3.reftype', 'reference is a %s' % irlib.kind(d)))
        else:
            want = set(id(q) for p in d.ports for q in p.pins)
            have = set(id(q) for q in i._pins)
            if want != have:
                errs.append(('I3.keys', 'instance has %d outer pins, its definition has %d inner pins' % (len(have), len(want))))
            if not any(i is r for r in d._references):
                errs.append(('I3.refsets', 'instance.reference does not list the instance among its references'))
    for dd in by['Definition']:
        for r in dd._references:
            if r.reference is not dd:
                errs.append(('I3.refsets', 'reference set lists an instance that references another definition'))
    stored_ids = set(id(o) for o in stored)
    real = by['InnerPin'] + stored
    real_ids = set(id(p) for p in real)
    wcount = {}
    for w in by['Wire']:
        d = wcount[id(w)] = {}
        for p in w.pins:
            d[id(p)] = d.get(id(p), 0) + 1
            if getattr(p, 'wire', None) is not w:
                errs.append(('I2.listed-wire', 'wire lists a pin that reports another wire / none'))
            if id(p) not in real_ids:
                errs.append(('I2.listed-notreal', 'wire lists a %s that is neither an inner pin nor a stored outer pin' % irlib.kind(p)))
        if any(v != 1 for v in d.values()):
            errs.append(('I2.dup', 'wire lists a pin several times'))
    for p in real:
        w = p.wire
        if w is not None:
            if irlib.kind(w) != 'Wire':
                errs.append(('I2.wiretype', 'pin.wire is a %s' % irlib.kind(w)))
            elif wcount.get(id(w), {}).get(id(p), sum(1 for q in w.pins if q is p)) != 1:
                errs.append(('I2.reports', 'pin reports a wire that does not list it exactly once'))
    for o in by['OuterPin']:
        if o._instance is None and o._wire is not None and id(o) not in stored_ids:
            errs.append(('I4', 'detached outer pin still reports a wire'))
    return errs


SMALL = 6000


def wellformed(netlist, pid, max_objs=10 ** 9):
    """Inv (I1-I4) over the closure of the netlist + self-containment. Returns failure triples."""
    out = []
    objs = irlib.closure([netlist])
    if len(objs) <= max_objs:
        errs = inv_linear(objs)
        if len(objs) <= SMALL:
            ref = irlib.check_inv(objs)
            if bool(ref) != bool(errs):
                out.append(('HARNESS', 'inv-evaluators-disagree', 'irlib.check_inv: %r / linear: %r' % (ref[:2], errs[:2])))
            errs = ref or errs
        for cl, det in errs[:3]:
            out.append(('%s.inv.%s' % (pid, cl), cl, det))
    libs = list(netlist.libraries)
    defs = set()
    for l in libs:
        if l.netlist is not netlist:
            out.append((pid + '.self-contained', 'library.netlist', 'listed library reports another netlist'))
        for d in l.definitions:
            defs.add(id(d))
    for l in libs:
        for d in l.definitions:
            for i in d.children:
                r = i.reference
                if r is None or id(r) not in defs:
                    out.append((pid + '.self-contained', 'instance.reference', 'instance %r of %r references %s' % (
                        i.name, d.name, 'nothing' if r is None else 'a definition outside the netlist (%r)' % r.name)))
                    break
    # what a reader hands back contains no stray instances: whoever references a definition of the netlist is a child of one of its
    # definitions or its top instance
    for l in libs:
        for d in l.definitions:
            for i in d.references:
                par = i.parent
                if i is not netlist.top_instance and (par is None or id(par) not in defs):
                    out.append((pid + '.self-contained', 'definition.references', 'definition %r is referenced by instance %r, which is %s' % (
                        d.name, i.name, 'placed nowhere and is not the top instance' if par is None else 'a child of a definition outside the netlist')))
                    break
    t = netlist.top_instance
    if t is not None and (t.reference is None or id(t.reference) not in defs):
        out.append((pid + '.self-contained', 'top.reference', 'top instance references a definition outside the netlist'))
    # no element of another netlist may be reachable
    for o in objs:
        if irlib.kind(o) == 'Definition' and id(o) not in defs and o.library is not None:
            out.append((pid + '.self-contained', 'foreign-definition', 'definition %r of a foreign library is reachable' % o.name))
            break
    return out


# ------------------------------------------------------------------------------------------ diff of canons
VOCAB = {'top', 'design', 'libs', 'id', 'defs', 'ports', 'dir', 'width', 'array', 'base', 'cables', 'insts', 'ref', 'props',
         'params', 'attrs', 'nets', 'assigns', 'lib', 'models', 'type', 'covers', 'parts', 'named', 'name', 'portorder', 'dups',
         'primitive', 'leaf', 'netname', 'cattrs', 'dparams', 'dattrs'}


NAMEKEYED = {'libs', 'defs', 'cables', 'insts', 'nets', 'models', 'ports', 'named', 'params', 'attrs', 'dparams', 'dattrs', 'cattrs'}


def diff(exp, got, path=(), out=None, limit=6):
    """list of (path, kind, exp, got); kind in missing (expected, absent) / extra / differs.
    Inside a definition the per-bit joins are compared only for cables present on both sides with equal width/base
    (a lost cable is reported once, under cables)."""
    if out is None:
        out = []
    if len(out) >= limit:
        return out
    if isinstance(exp, dict) and isinstance(got, dict):
        keys = sorted(set(exp) | set(got), key=str)
        skipnets = set()
        if 'cables' in exp and 'nets' in exp and isinstance(exp['cables'], dict) and isinstance(got.get('cables'), dict):
            ec, gc = exp['cables'], got['cables']
            bad = set(k for k in set(ec) | set(gc) if ec.get(k) != gc.get(k))
            if bad:
                for side in (exp.get('nets') or {}, got.get('nets') or {}):
                    for nk in side:
                        if nk[:nk.rfind('[')] in bad:
                            skipnets.add(nk)
        for k in keys:
            if k == 'nets' and skipnets and isinstance(exp.get(k), dict) and isinstance(got.get(k), dict):
                e2 = {a: b for a, b in exp[k].items() if a not in skipnets}
                g2 = {a: b for a, b in got[k].items() if a not in skipnets}
                diff(e2, g2, path + (k,), out, limit)
            elif k not in got:
                out.append((path + (k,), 'missing', exp[k], None))
            elif k not in exp:
                out.append((path + (k,), 'extra', None, got[k]))
            else:
                diff(exp[k], got[k], path + (k,), out, limit)
            if len(out) >= limit:
                break
    elif exp != got:
        out.append((path, 'differs', exp, got))
    return out


def category(path):
    cat, skip = [], False
    for k in path:
        if skip:
            skip = False
            continue
        if isinstance(k, str) and k in VOCAB:
            if k not in ('libs', 'defs', 'models'):
                cat.append(k)
            skip = k in NAMEKEYED
    return '.'.join(cat) or 'structure'


def _tags(name, siblings):
    t = []
    if isinstance(name, str) and name:
        base = name[:name.rfind('[')] if re.search(r'\[\d+\]$', name) else name
        if any(isinstance(s, str) and s != name and (s[:s.rfind('[')] if re.search(r'\[\d+\]$', s) else s).lower() == base.lower()
               and (s[:s.rfind('[')] if re.search(r'\[\d+\]$', s) else s) != base for s in siblings):
            t.append('case-sibling')
        if not name[0].isalpha():
            t.append('nonalpha-start')
        if '-' in name:
            t.append('dash')
    return t


def failures_from_diff(pid, d, prefix='', exp=None, got=None):
    """failure triples (check, site, detail); site = kind of difference + features of the element's name that are known
    to matter to the writers (case-only sibling, non-alphabetic first character, dash) so that distinct causes get distinct keys"""
    res = []
    for path, kind, e, g in d:
        check = '%s.%s%s' % (pid, prefix, category(path))
        site = kind
        if kind == 'differs' and isinstance(e, list) and isinstance(g, list) and sorted(map(json.dumps, e)) == sorted(map(json.dumps, g)):
            site = 'order-only'
        # features of the deepest named element on the path (its own name among its siblings), from either side
        tags = []
        for root in (exp, got):
            cur, deepest = root, None
            for j, k in enumerate(path):
                if not isinstance(cur, dict):
                    break
                if j > 0 and path[j - 1] in NAMEKEYED:
                    deepest = (k, list(cur.keys()))
                if k not in cur:
                    break
                cur = cur[k]
            if deepest:
                tags += _tags(*deepest)
        if tags and (kind in ('missing', 'extra') or category(path).split('.')[0] in ('cables', 'nets')):
            site += ':' + '+'.join(sorted(set(tags)))
        res.append((check, site, 'at %s: expected %s, got %s' % ('/'.join(map(str, path)), json.dumps(e, default=str)[:300], json.dumps(g, default=str)[:300])))
    return res


def ad_name_tags(ad):
    """features of the names of an abstract design that the EDIF identifier machinery is sensitive to"""
    t = set()

    def scope(names):
        low = {}
        for x in names:
            if '-' in x:
                t.add('dash')
            low.setdefault(x.lower(), set()).add(x)
        if any(len(v) > 1 for v in low.values()):
            t.add('case-sibling')
    scope([ad['name']]); scope([ad['top_instance_name']])
    scope([l['name'] for l in ad['libraries']])
    for l in ad['libraries']:
        scope([d['name'] for d in l['definitions']])
        for d in l['definitions']:
            scope([p['name'] for p in d['ports']]); scope([c['name'] for c in d['cables']]); scope([i['name'] for i in d['instances']])
    return sorted(t)


# ------------------------------------------------------------------------------------------ names
WORDS = ['a', 'b', 'c', 'd', 'q', 'x', 'y', 'clk', 'rst', 'din', 'dout', 'sig', 'net', 'n', 'data', 'addr', 'sel', 'en', 'w', 't']


class Namer:
    """Names from a colliding / adversarial alphabet, unique (exact string) within a scope."""

    def __init__(self, r, flavor, adversarial=0.25):
        self.r, self.flavor, self.adv = r, flavor, adversarial

    def fresh(self, used, kind='x'):
        r = self.r
        for attempt in range(200):
            w = r.choice(WORDS)
            if r.random() < 0.5:
                w += str(r.randint(0, 9))
            if r.random() < 0.25:
                w = r.choice([w.upper(), w.capitalize(), w + '_' + r.choice(WORDS)])
            if r.random() < self.adv:
                w = self.twist(w, kind, used)
            if attempt > 50:
                w += '_%d' % attempt
            if w not in used and self.ok(w, kind):
                used.add(w)
                return w
        raise RuntimeError('namer exhausted')

    def ok(self, w, kind):
        if self.flavor == 'edif' and kind == 'cable' and re.search(r'\[\d+\]$', w):
            return False      # indistinguishable from a bit of a bus under the name[i] convention
        return True

    def twist(self, w, kind, used):
        r = self.r
        if self.flavor == 'edif':
            # arbitrary names: EDIF carries them in (rename id "name"); no quotes / newlines
            lower = [u for u in used if u.swapcase() not in used]
            opts = [w + '[' + str(r.randint(0, 3)) + ']' + '_i', '_' + w, str(r.randint(0, 9)) + w, w + '.' + r.choice(WORDS),
                    w + '/' + r.choice(WORDS), '$' + w, w + ' ' + r.choice(WORDS), w + '<0>', w + '_0_', w + '(' + r.choice(WORDS) + ')',
                    w + '[' + str(r.randint(0, 3)) + ']' + r.choice(WORDS), w + ':' + r.choice(WORDS)] * 3
            opts += [w + '-' + r.choice(WORDS)]                       # (C17 territory: '-' survives edifify_names) kept rare
            if lower:
                opts += [r.choice(sorted(lower)).swapcase()] * 2      # case-only collision with a sibling (C17 territory) kept rare
            return r.choice(opts)
        if self.flavor == 'verilog':
            if kind in ('module',):
                return r.choice([w + '_' + r.choice(WORDS), '_' + w, w.upper()])
            lower = [u for u in used if u.swapcase() not in used and not u.startswith('\\')]
            opts = ['\\' + w + '[' + str(r.randint(0, 3)) + ']', '\\' + w + '.' + r.choice(WORDS), '\\' + w + '/' + r.choice(WORDS),
                    '_' + w, '\\' + str(r.randint(0, 9)) + w, '\\' + w + '$', '\\^' + w, w + '_' + str(r.randint(0, 9)) + '_']
            if lower:
                opts += [r.choice(sorted(lower)).swapcase()] * 2
            return r.choice(opts)
        if self.flavor == 'eblif':
            return r.choice([w + '$' + str(r.randint(0, 99)), w + '.' + r.choice(WORDS), w + '~' + str(r.randint(0, 9)), '$' + w,
                             w + '^' + r.choice(WORDS), w.upper(), w + ':' + r.choice(WORDS)])
        return w


# ------------------------------------------------------------------------------------------ hierarchical AD generator
DIRS = ['IN', 'OUT', 'INOUT']


def gen_hier(seed, flavor):
    """Hierarchical abstract design.  flavor 'edif': arbitrary names, multi-library, any bases.
    flavor 'verilog': two libraries (hdi_primitives, work), module names globally unique, ports based at 0 / downto,
    every port has its same-named cable, instance pins connected as a low-end prefix, single root."""
    r = random.Random('hier:%s:%s' % (flavor, seed))
    N = Namer(r, flavor)
    V = flavor == 'verilog'
    big = r.random() < 0.15
    # ---- libraries
    if V:
        libnames = ['hdi_primitives', 'work']
    else:
        used = set()
        libnames = [r.choice(['hdi_primitives', 'prims', N.fresh(used, 'lib')])]
        used.add(libnames[0])
        for _ in range(r.choice([1, 1, 2, 2, 3]) if not big else 3):
            libnames.append(r.choice(['work', 'lib', 'WORK']) if r.random() < 0.3 and not any(x.lower() == 'work' for x in libnames) else N.fresh(used, 'lib'))
            used.add(libnames[-1])
        # names must differ exactly
        seen = set(); ln = []
        for x in libnames:
            while x in seen:
                x += '_l'
            seen.add(x); ln.append(x)
        libnames = ln
    libs = [{'name': n, 'definitions': []} for n in libnames]
    modnames = set()
    # ---- leaves
    leaves = []
    for _ in range(r.randint(1, 3)):
        pn = set()
        d = {'name': N.fresh(modnames, 'module'), 'ports': [], 'cables': [], 'instances': [], 'nets': []}
        for _ in range(r.randint(1, 3)):
            w = r.choice([1, 1, 1, 2, 3, 4])
            d['ports'].append({'name': N.fresh(pn, 'port'), 'direction': r.choice(DIRS if r.random() < 0.2 else DIRS[:2]), 'width': w,
                               'base': 0 if (V or w == 1) else r.choice([0, 0, 0, 1, 2]), 'downto': True if V else r.random() < 0.8})
        libs[0]['definitions'].append(d)
        leaves.append((libnames[0], d))
    # ---- non-leaf definitions, later ones may reference earlier ones
    nd = r.randint(1, 4) if not big else r.randint(4, 5)
    nwork = len(libs) - 1
    libidx = sorted(r.randint(1, nwork) for _ in range(nd))
    made = []
    for k in range(nd):
        local = set()
        d = {'name': N.fresh(modnames, 'module'), 'ports': [], 'cables': [], 'instances': [], 'nets': []}
        nets = {}                                   # (cable, bit) -> endpoints
        order = []
        for _ in range(r.randint(0, 3)):
            w = r.choice([1, 1, 2, 3, 4])
            p = {'name': N.fresh(local, 'port'), 'direction': r.choice(DIRS if r.random() < 0.25 else DIRS[:2]), 'width': w,
                 'base': 0 if (V or w == 1) else r.choice([0, 0, 1, 3]), 'downto': True if V else r.random() < 0.8}
            d['ports'].append(p)
            if V and w > 1 and not p['name'].startswith('\\') and r.random() < 0.12:
                # header alias  .p({\p[1] , \p[0] }) : the port has no same-named cable, bit b is the 1-bit net \p[b]
                al = []
                for b in range(w):
                    cn = '\\%s[%d]' % (p['name'], b)
                    local.add(cn)
                    d['cables'].append({'name': cn, 'width': 1, 'base': 0})
                    nets[(cn, 0)] = [['port', p['name'], b]]
                    al.insert(0, cn)
                d.setdefault('aliases', {})[p['name']] = al
            elif V:
                d['cables'].append({'name': p['name'], 'width': w, 'base': 0})
                for b in range(w):
                    nets[(p['name'], b)] = [['port', p['name'], b]]
        cn = set(local) if V else set()
        for _ in range(r.randint(0 if V else 1, 5)):
            w = r.choice([1, 1, 1, 2, 3, 4])
            base = r.choice([0, 0, 1, 3, 7]) if w > 1 else (r.choice([0] * 9 + [2]) if V else 0)
            d['cables'].append({'name': N.fresh(cn, 'cable'), 'width': w, 'base': base})
        if V and r.random() < 0.35:
            for c in r.sample(['\\<const0>', '\\<const1>'], r.randint(1, 2)):
                d['cables'].append({'name': c, 'width': 1, 'base': 0})
        bits = [(c['name'], c['base'] + b) for c in d['cables'] for b in range(c['width'])]
        inn = set()
        pool = leaves + made
        for _ in range(r.randint(1 if k == nd - 1 else 0, 4)):
            if not bits and V:
                break
            lib, ref = r.choice(pool) if r.random() < 0.6 or not made else r.choice(made)
            d['instances'].append({'name': N.fresh(inn, 'inst'), 'ref': [lib, ref['name']], 'properties': {}})
        d['_nets'] = nets
        made.append((libnames[libidx[k]], d))
        libs[libidx[k]]['definitions'].append(d)
    if V:
        # single root: every non-top definition is instantiated somewhere above it
        alldefs = leaves + made
        for j, (lib, dd) in enumerate(alldefs[:-1]):
            usedby = any(i['ref'] == [lib, dd['name']] for _, e in made for i in e['instances'])
            if not usedby:
                cands = [e for (_, e) in made[max(0, j - len(leaves) + 1):] if e is not dd and e['cables']]
                if not cands:
                    cands = [made[-1][1]]
                    if not cands[0]['cables']:
                        cands[0]['cables'].append({'name': 'w_x', 'width': 1, 'base': 0})
                e = r.choice(cands)
                inn = set(i['name'] for i in e['instances'])
                e['instances'].append({'name': N.fresh(inn, 'inst'), 'ref': [lib, dd['name']], 'properties': {}})
    # ---- connections
    index = {(lib, dd['name']): dd for lib, dd in leaves + made}
    for lib, d in made:
        nets = d.pop('_nets')
        bits = [(c['name'], c['base'] + b) for c in d['cables'] for b in range(c['width'])]
        if V:
            for i in d['instances']:
                ref = index[tuple(i['ref'])]
                for p in ref['ports']:
                    m = p['width'] if r.random() < 0.7 else r.randint(0, p['width'])
                    run = None
                    for b in range(m):
                        if run and r.random() < 0.6:          # continue a descending/ascending run so part-selects occur
                            c, bb = run
                            cab = [x for x in d['cables'] if x['name'] == c][0]
                            nb = bb + 1
                            tgt = (c, nb) if cab['base'] <= nb < cab['base'] + cab['width'] else r.choice(bits)
                        else:
                            tgt = r.choice(bits)
                        run = tgt
                        nets.setdefault(tgt, []).append(['inst', i['name'], p['name'], b])
        else:
            pins = [['port', p['name'], p['base'] + b] for p in d['ports'] for b in range(p['width'])]
            for i in d['instances']:
                ref = index[tuple(i['ref'])]
                pins += [['inst', i['name'], p['name'], p['base'] + b] for p in ref['ports'] for b in range(p['width'])]
            r.shuffle(pins)
            for ep in pins:
                if bits and r.random() < 0.75:
                    nets.setdefault(r.choice(bits), []).append(ep)
        d['nets'] = [{'cable': c, 'bit': b, 'endpoints': eps} for (c, b), eps in sorted(nets.items())]
    # ---- data
    PK = ['INIT', 'LOC', 'WIDTH', 'MODE', 'IS_C_INVERTED', 'BOX_TYPE', 'DELAY']
    for lib, d in made:
        for i in d['instances']:
            if V:
                i['params'] = {k: r.choice(["8'hFF", '"TRUE"', '42', "4'b1010", "16'hEC80", '"a_b"', '0']) for k in r.sample(PK, r.choice([0, 0, 1, 2]))}
                i['attrs'] = {k: r.choice([None, '"yes"', '1', '"X1Y2"', '"true"']) for k in r.sample(['KEEP', 'DONT_TOUCH', 'LOC', 'box_type', 'RLOC'], r.choice([0, 0, 1, 2]))}
            else:
                for k in r.sample(PK + ['PHYSOPT.VERSION', 'x/y', 'init'], r.choice([0, 0, 1, 2, 3])):
                    if k.lower() in [q.lower() for q in i['properties']]:
                        continue
                    i['properties'][k] = r.choice(["4'h8", 'TRUE', 'xc7a100t-1', 'a b [c]', '', 0, 1, -7, 2147483648, 12, True, False])
        if V:
            d['params'] = {k: r.choice(['4', "16'h0000", '"DEFAULT"']) for k in r.sample(PK, r.choice([0, 0, 0, 1, 2]))}
            d['attrs'] = {k: r.choice([None, '"yes"', '1']) for k in r.sample(['STRUCTURAL_NETLIST', 'ECO_CHECKSUM', 'keep_hierarchy'], r.choice([0, 0, 1, 2]))}
            pn = set(p['name'] for p in d['ports']) | set(x for al in d.get('aliases', {}).values() for x in al)
            for c in d['cables']:
                if c['name'] not in pn and not c['name'].startswith('\\<const') and r.random() < 0.2:
                    c['attrs'] = {k: r.choice([None, '"true"', '2']) for k in r.sample(['MARK_DEBUG', 'KEEP', 'max_fanout'], r.randint(1, 2))}
            d['assigns'] = []
            cands = [c for c in d['cables']]
            for _ in range(r.choice([0, 0, 1, 1, 2])):
                if len(cands) < 2:
                    break
                lcs = [c for c in cands if not c['name'].startswith('\\<const')]
                if not lcs:
                    break
                lc = r.choice(lcs)
                rc = r.choice([c for c in cands if c is not lc])
                w = 1 if r.random() < 0.6 else r.randint(1, min(lc['width'], rc['width']))
                lo1 = lc['base'] + r.randint(0, lc['width'] - w)
                lo2 = rc['base'] + r.randint(0, rc['width'] - w)
                d['assigns'].append({'lhs': [lc['name'], lo1 + w - 1, lo1], 'rhs': [rc['name'], lo2 + w - 1, lo2]})
    ad = {'name': N.fresh(set(), 'lib') if not V else 'SDN_VERILOG_NETLIST', 'libraries': libs,
          'top': [made[-1][0], made[-1][1]['name']], 'top_instance_name': N.fresh(set(), 'inst'), 'flavor': flavor}
    # further shapes, drawn from generators of their own so that the designs above stay what they were for a given seed
    if V:
        permuted_bus_connection(ad, random.Random('hier-perm:%s' % seed))
    else:
        same_cell_name_in_two_libraries(ad, random.Random('hier-dup:%s' % seed))
    return ad


def same_cell_name_in_two_libraries(ad, r, p=0.2, force=None):
    """EDIF scopes cell names per library: give a cell of one library the name (or a case variant of the name) of a cell
    of another library.  Half of the time the cell whose name is duplicated is the top cell, so that the design's
    (cellRef c (libraryRef l)) has to be resolved inside l."""
    if r.random() >= p and not force:
        return False
    cells = [(l['name'], d) for l in ad['libraries'] for d in l['definitions']]
    if len(set(l for l, d in cells)) < 2:
        return False
    top = [x for x in cells if [x[0], x[1]['name']] == ad['top']][0]
    keep = top if (r.random() < 0.5 or force == 'top') else r.choice(cells)
    if keep is top and r.random() < 0.6:
        # a library of its own that nothing refers to, so that it may be declared before or after the top cell's library
        libnames = set(l['name'] for l in ad['libraries'])
        k = 0
        while 'extra_lib%d' % k in libnames:
            k += 1
        name = top[1]['name'] if r.random() < 0.7 else top[1]['name'].swapcase()
        ad['libraries'].append({'name': 'extra_lib%d' % k, 'definitions': [
            {'name': name, 'ports': [{'name': 'other_p', 'direction': 'INOUT', 'width': r.choice([1, 2, 3]), 'base': 0, 'downto': True}],
             'cables': [], 'instances': [], 'nets': []}]})
        return True
    others = [x for x in cells if x[0] != keep[0] and x[1] is not top[1]]
    if not others:
        return False
    lib, d = r.choice(others)
    newname = keep[1]['name'] if r.random() < 0.7 else keep[1]['name'].swapcase()
    if any(e['name'].lower() == newname.lower() for e in [x for x in ad['libraries'] if x['name'] == lib][0]['definitions'] if e is not d):
        return False
    old = d['name']
    d['name'] = newname
    for _, e in cells:
        for i in e['instances']:
            if i['ref'] == [lib, old]:
                i['ref'] = [lib, newname]
    return True


def permuted_bus_connection(ad, r, p=0.25, force=False):
    """Verilog: feed one instance port of at least four bits from ONE cable with the two end bits where a part-select would
    put them and the inner bits permuted ({w[5], w[3], w[4], w[2]}) or repeated ({v[3], v[1], v[1], v[0]})."""
    if r.random() >= p and not force:
        return False
    idx = ad_index(ad)
    cands = []
    for (ln, dn), d in sorted(idx.items()):
        for i in d['instances']:
            for pt in idx[tuple(i['ref'])]['ports']:
                if pt['width'] >= 4:
                    cands.append((d, i, pt))
    if not cands:
        return False
    d, i, pt = r.choice(cands)
    w = pt['width']
    taken = set(c['name'] for c in d['cables']) | set(p_['name'] for p_ in d['ports']) | set(x['name'] for x in d['instances'])
    k = 0
    while 'perm_w%d' % k in taken:
        k += 1
    cw = w + r.choice([0, 0, 1, 2])
    cab = {'name': 'perm_w%d' % k, 'width': cw, 'base': r.choice([0, 0, 2, 5])}
    d['cables'].append(cab)
    lo = cab['base'] + r.randint(0, cw - w)
    order = list(range(1, w - 1))
    if r.random() < 0.5:
        while order == list(range(1, w - 1)):
            r.shuffle(order)                      # inner bits permuted
    else:
        order[r.randrange(len(order))] = r.choice([x for x in range(1, w - 1)])
        if order == list(range(1, w - 1)):
            order[0] = order[-1]                  # inner bit repeated
    bits = [0] + order + [w - 1]                  # pin k of the port <- cable bit lo + bits[k]
    for n in d['nets']:
        n['endpoints'] = [ep for ep in n['endpoints'] if not (ep[0] == 'inst' and ep[1] == i['name'] and ep[2] == pt['name'])]
    nets = {(n['cable'], n['bit']): n for n in d['nets']}
    for kpin, b in enumerate(bits):
        key = (cab['name'], lo + b)
        if key not in nets:
            nets[key] = {'cable': key[0], 'bit': key[1], 'endpoints': []}
            d['nets'].append(nets[key])
        nets[key]['endpoints'].append(['inst', i['name'], pt['name'], kpin])
    d['nets'] = [n for n in d['nets'] if n['endpoints']]
    d['nets'].sort(key=lambda n: (n['cable'], n['bit']))
    return True


def corner_ads(flavor):
    """fixed corner designs that run on every invocation (name, abstract design)"""
    out = []
    if flavor == 'edif':
        def cell(name, ports, insts=(), cables=(), nets=()):
            return {'name': name, 'ports': [{'name': p, 'direction': dr, 'width': w, 'base': 0, 'downto': True} for p, dr, w in ports],
                    'cables': [{'name': c, 'width': w, 'base': 0} for c, w in cables],
                    'instances': [{'name': n, 'ref': list(rf), 'properties': {}} for n, rf in insts],
                    'nets': [{'cable': c, 'bit': b, 'endpoints': eps} for c, b, eps in nets]}
        for first in ('A', 'B'):
            libs = [{'name': 'prims', 'definitions': [cell('buf', [('i', 'IN', 1), ('o', 'OUT', 1)])]},
                    {'name': 'libA', 'definitions': [cell('buf', [('x', 'IN', 2)]),
                                                     cell('top', [('a', 'IN', 1), ('y', 'OUT', 1)], insts=[('u1', ('prims', 'buf')), ('u2', ('libA', 'buf'))],
                                                          cables=[('a', 1), ('y', 1)],
                                                          nets=[('a', 0, [['port', 'a', 0], ['inst', 'u1', 'i', 0], ['inst', 'u2', 'x', 1]]),
                                                                ('y', 0, [['inst', 'u1', 'o', 0], ['port', 'y', 0]])])]},
                    {'name': 'libB', 'definitions': [cell('buf', [('z', 'OUT', 1)]),
                                                     cell('top', [('p', 'IN', 3)], insts=[('v', ('libB', 'buf'))], cables=[('n', 1)],
                                                          nets=[('n', 0, [['inst', 'v', 'z', 0]])])]}]
            if first == 'B':
                libs = [libs[0], libs[2], libs[1]]
            out.append(('same-cell-name-in-two-libraries/top-in-lib' + ('A' if first == 'A' else 'A-declared-last'),
                        {'name': 'corner', 'libraries': libs, 'top': ['libA', 'top'], 'top_instance_name': 'corner_top', 'flavor': 'edif'}))
    if flavor == 'verilog':
        leaf = {'name': 'L4', 'ports': [{'name': 'p', 'direction': 'IN', 'width': 4, 'base': 0, 'downto': True},
                                        {'name': 'q', 'direction': 'IN', 'width': 4, 'base': 0, 'downto': True}], 'cables': [], 'instances': [], 'nets': []}
        top = {'name': 'ptop', 'ports': [{'name': 'v', 'direction': 'IN', 'width': 4, 'base': 0, 'downto': True}],
               'cables': [{'name': 'v', 'width': 4, 'base': 0}, {'name': 'w', 'width': 4, 'base': 2}],
               'instances': [{'name': 'u', 'ref': ['hdi_primitives', 'L4'], 'properties': {}, 'params': {}, 'attrs': {}}],
               'params': {}, 'attrs': {}, 'assigns': [],
               'nets': [{'cable': 'v', 'bit': 0, 'endpoints': [['port', 'v', 0], ['inst', 'u', 'p', 0]]},
                        {'cable': 'v', 'bit': 1, 'endpoints': [['port', 'v', 1], ['inst', 'u', 'p', 1], ['inst', 'u', 'p', 2]]},
                        {'cable': 'v', 'bit': 2, 'endpoints': [['port', 'v', 2]]},
                        {'cable': 'v', 'bit': 3, 'endpoints': [['port', 'v', 3], ['inst', 'u', 'p', 3]]},
                        {'cable': 'w', 'bit': 2, 'endpoints': [['inst', 'u', 'q', 0]]},
                        {'cable': 'w', 'bit': 3, 'endpoints': [['inst', 'u', 'q', 2]]},
                        {'cable': 'w', 'bit': 4, 'endpoints': [['inst', 'u', 'q', 1]]},
                        {'cable': 'w', 'bit': 5, 'endpoints': [['inst', 'u', 'q', 3]]}]}
        out.append(('permuted-and-repeated-bits-of-one-cable',
                    {'name': 'SDN_VERILOG_NETLIST', 'libraries': [{'name': 'hdi_primitives', 'definitions': [leaf]}, {'name': 'work', 'definitions': [top]}],
                     'top': ['work', 'ptop'], 'top_instance_name': 'ptop_top', 'flavor': 'verilog'}))
    return out


def ad_index(ad):
    return {(l['name'], d['name']): d for l in ad['libraries'] for d in l['definitions']}


def ad_features(ad):
    idx = ad_index(ad)
    f = {'libs': len(ad['libraries']), 'defs': len(idx), 'insts': 0, 'bus_nets': 0, 'bus_ports': 0, 'nets': 0, 'xlib': 0, 'depth': 0}
    for (l, dn), d in idx.items():
        f['insts'] += len(d['instances'])
        f['bus_nets'] += sum(1 for c in d['cables'] if c['width'] > 1)
        f['bus_ports'] += sum(1 for p in d['ports'] if p['width'] > 1)
        f['nets'] += sum(1 for n in d['nets'] if n['endpoints'])
        f['xlib'] += sum(1 for i in d['instances'] if i['ref'][0] != l)
    memo = {}

    def depth(k):
        if k not in memo:
            memo[k] = 1 + max([depth(tuple(i['ref'])) for i in idx[k]['instances']] or [0])
        return memo[k]
    f['depth'] = depth(tuple(ad['top']))
    return f


# ------------------------------------------------------------------------------------------ building through the API
DIRMAP = {'IN': sdn.IN, 'OUT': sdn.OUT, 'INOUT': sdn.INOUT}


def prop_record(k, v):
    """how an API user states an EDIF property whose name is not a legal EDIF identifier"""
    ident = re.sub(r'[^A-Za-z0-9_]', '_', k)
    if not ident[:1].isalpha():
        ident = 'p' + ident
    rec = {'identifier': ident}
    if ident != k:
        rec['original_identifier'] = k
    rec['value'] = v
    return rec


def build_api(ad, typed_props=True):
    """The netlist an API user would build for the abstract design (public constructors / mutators only)."""
    n = sdn.Netlist(name=ad['name'])
    defs = {}
    for l in ad['libraries']:
        lib = n.create_library(name=l['name'])
        for d in l['definitions']:
            defs[(l['name'], d['name'])] = (lib.create_definition(name=d['name']), d)
    for key, (D, d) in defs.items():
        for p in d['ports']:
            P = D.create_port(name=p['name'], direction=DIRMAP[p['direction']], is_downto=p['downto'], lower_index=p['base'], pins=p['width'])
        for c in d['cables']:
            C = D.create_cable(name=c['name'], lower_index=c['base'], wires=c['width'])
    for key, (D, d) in defs.items():
        for i in d['instances']:
            I = D.create_child(name=i['name'], reference=defs[tuple(i['ref'])][0])
            if i.get('properties'):
                I['EDIF.properties'] = [prop_record(k, v) for k, v in i['properties'].items()]
    for key, (D, d) in defs.items():
        cab = {c.name: c for c in D.cables}
        prt = {p.name: p for p in D.ports}
        ins = {i.name: i for i in D.children}
        for nrec in d['nets']:
            c = cab[nrec['cable']]
            w = c.wires[nrec['bit'] - c.lower_index]
            for ep in nrec['endpoints']:
                if ep[0] == 'port':
                    p = prt[ep[1]]
                    w.connect_pin(p.pins[ep[2] - p.lower_index])
                else:
                    I = ins[ep[1]]
                    rp = [q for q in I.reference.ports if q.name == ep[2]][0]
                    w.connect_pin(I.pins[rp.pins[ep[3] - rp.lower_index]])
    top = sdn.Instance(name=ad['top_instance_name'])
    top.reference = defs[tuple(ad['top'])][0]
    n.top_instance = top
    return n


# ------------------------------------------------------------------------------------------ canon of a netlist (EDIF view)
def _pinmaps(d):
    pos = {}
    for p in d.ports:
        for k, q in enumerate(p.pins):
            pos[id(q)] = (p.name, k, p)
    return pos


def endpoint(pin, pos_of, positional=True):
    """('inst', instance name, port name, index) / ('port', port name, index); index = position (EDIF member index)
    or lower_index + position."""
    if isinstance(pin, OuterPin):
        ip = pin.inner_pin
        port = ip.port
        k = None
        for j, q in enumerate(port.pins):
            if q is ip:
                k = j
        return ['inst', pin.instance.name, port.name, (k if positional else port.lower_index + k) if k is not None else None]
    port = pin.port
    k = None
    for j, q in enumerate(port.pins):
        if q is pin:
            k = j
    return ['port', port.name, (k if positional else port.lower_index + k) if k is not None else None]


def edif_props(el):
    out = []
    for pr in el.data.get('EDIF.properties', []) or []:
        v = pr.get('value')
        out.append({'id': pr.get('identifier'), 'orig': pr.get('original_identifier'), 'type': type(v).__name__, 'value': v})
    return out


def net_canon_edif(n, ids=True, ordered=True):
    """Canonical, name-keyed structure of a netlist seen through EDIF eyes (member index = pin position)."""
    c = {'name': n.name, 'libs': {}, 'top': None, 'design': None, 'dups': []}
    if ids:
        c['id'] = n.data.get('EDIF.identifier')
    t = n.top_instance
    if t is not None:
        c['design'] = t.name
        r = t.reference
        if r is not None:
            c['top'] = [r.library.name if r.library is not None else None, r.name]
    for l in n.libraries:
        if l.name in c['libs']:
            c['dups'].append(['library', l.name])
        L = c['libs'][l.name] = {'defs': {}}
        if ids:
            L['id'] = l.data.get('EDIF.identifier')
        for d in l.definitions:
            if d.name in L['defs']:
                c['dups'].append(['cell', l.name, d.name])
            D = L['defs'][d.name] = {'ports': [], 'cables': {}, 'insts': {}, 'nets': {}}
            if ids:
                D['id'] = d.data.get('EDIF.identifier')
            D['ports'] = {}
            D['portorder'] = [p.name for p in d.ports]
            for p in d.ports:
                if p.name in D['ports']:
                    c['dups'].append(['port', l.name, d.name, p.name])
                P = D['ports'][p.name] = {'dir': p.direction.name, 'width': len(p.pins), 'array': bool(p.is_array)}
                if ids:
                    P['id'] = p.data.get('EDIF.identifier')
            for i in d.children:
                r = i.reference
                if i.name in D['insts']:
                    c['dups'].append(['instance', l.name, d.name, i.name])
                I = D['insts'][i.name] = {'ref': [r.library.name if (r is not None and r.library is not None) else None, r.name if r is not None else None],
                                          'props': edif_props(i)}
                if ids:
                    I['id'] = i.data.get('EDIF.identifier')
            for cb in d.cables:
                if cb.name in D['cables']:
                    c['dups'].append(['net', l.name, d.name, cb.name])
                C = D['cables'][cb.name] = {'width': len(cb.wires), 'base': cb.lower_index}
                if ids:
                    C['id'] = cb.data.get('EDIF.identifier')
                for k, w in enumerate(cb.wires):
                    eps = [endpoint(p, None) for p in w.pins]
                    if not ordered:
                        eps.sort(key=json.dumps)
                    D['nets']['%s[%d]' % (cb.name, cb.lower_index + k)] = eps
    if not c['dups']:
        del c['dups']
    return c


def ad_canon_api(ad, ordered=True):
    """What net_canon_edif(build_api(ad), ids=False) must be (cross-check of the builder) and what C03 expects back."""
    c = {'name': ad['name'], 'libs': {}, 'top': list(ad['top']), 'design': ad['top_instance_name']}
    idx = ad_index(ad)
    for l in ad['libraries']:
        L = c['libs'][l['name']] = {'defs': {}}
        for d in l['definitions']:
            D = L['defs'][d['name']] = {'ports': [], 'cables': {}, 'insts': {}, 'nets': {}}
            pb = {p['name']: p['base'] for p in d['ports']}
            D['ports'] = {p['name']: {'dir': p['direction'], 'width': p['width'], 'array': p['width'] > 1} for p in d['ports']}
            D['portorder'] = [p['name'] for p in d['ports']]
            rb = {}
            for i in d['instances']:
                D['insts'][i['name']] = {'ref': list(i['ref']), 'props': [{'id': prop_record(k, v)['identifier'], 'orig': prop_record(k, v).get('original_identifier'),
                                                                             'type': type(v).__name__, 'value': v}
                                                                            for k, v in (i.get('properties') or {}).items()]}
                rb[i['name']] = {p['name']: p['base'] for p in idx[tuple(i['ref'])]['ports']}
            for cb in d['cables']:
                D['cables'][cb['name']] = {'width': cb['width'], 'base': cb['base']}
                for b in range(cb['width']):
                    D['nets']['%s[%d]' % (cb['name'], cb['base'] + b)] = []
            for nrec in d['nets']:
                eps = []
                for ep in nrec['endpoints']:
                    if ep[0] == 'port':
                        eps.append(['port', ep[1], ep[2] - pb[ep[1]]])
                    else:
                        eps.append(['inst', ep[1], ep[2], ep[3] - rb[ep[1]][ep[2]]])
                if not ordered:
                    eps.sort(key=json.dumps)
                D['nets']['%s[%d]' % (nrec['cable'], nrec['bit'])] = eps
    return c


# ------------------------------------------------------------------------------------------ canon of a netlist (Verilog view)
def vstrip(x):
    return x.rstrip() if isinstance(x, str) else x


ASSIGN_LIB = 'SDN_VERILOG_ASSIGNMENT'


def unescape(x):
    """IEEE 1364 3.7.1: neither the leading backslash nor the terminating white space of an escaped identifier is part of
    the identifier (\\cpu3 is the same name as cpu3).  Applied to every key and string of a Verilog canon, on both sides
    of a comparison, so that a name written as an escaped identifier equals the same name read back with its backslash."""
    if isinstance(x, dict):
        return {unescape(k): unescape(v) for k, v in x.items()}
    if isinstance(x, list):
        return [unescape(v) for v in x]
    if isinstance(x, str) and x.startswith('\\'):
        return x[1:].rstrip()
    return x


def net_canon_verilog(n):
    """Name-keyed structure of a netlist seen through Verilog eyes: bit index = lower_index + position for ports and
    cables alike; assign instances (documented SDN_VERILOG_ASSIGNMENT library) are summarised as lists of joined bit pairs;
    escaped identifiers are compared without their terminating white space."""
    c = {'top': None, 'libs': {}, 'dups': []}
    t = n.top_instance
    if t is not None and t.reference is not None:
        c['top'] = vstrip(t.reference.name)
    for l in n.libraries:
        if l.name in c['libs']:
            c['dups'].append(['library', l.name])
        L = c['libs'].setdefault(l.name, {'defs': {}})
        for d in l.definitions:
            dn = vstrip(d.name)
            if dn in L['defs']:
                c['dups'].append(['module', l.name, dn])
            D = L['defs'][dn] = {'ports': {}, 'cables': {}, 'insts': {}, 'nets': {}, 'assigns': [],
                                 'dparams': dict(d.data.get('VERILOG.Parameters') or {}),
                                 'dattrs': dict(d.data.get('VERILOG.InlineConstraints') or {}), 'cattrs': {}}
            for p in d.ports:
                pn = vstrip(p.name)
                if pn in D['ports']:
                    c['dups'].append(['port', dn, pn])
                D['ports'][pn] = {'dir': p.direction.name, 'width': len(p.pins), 'base': p.lower_index}
            assigns = {}
            for i in d.children:
                r = i.reference
                rl = r.library.name if (r is not None and r.library is not None) else None
                if rl == ASSIGN_LIB:
                    assigns[id(i)] = i
                    continue
                iname = vstrip(i.name)
                if iname in D['insts']:
                    c['dups'].append(['instance', dn, iname])
                D['insts'][iname] = {'ref': [rl, vstrip(r.name) if r is not None else None],
                                     'params': dict(i.data.get('VERILOG.Parameters') or {}),
                                     'attrs': dict(i.data.get('VERILOG.InlineConstraints') or {})}
            key_of = {}
            for cb in d.cables:
                cn = vstrip(cb.name)
                if cn in D['cables']:
                    c['dups'].append(['net', dn, cn])
                D['cables'][cn] = {'width': len(cb.wires), 'base': cb.lower_index}
                a = dict(cb.data.get('VERILOG.InlineConstraints') or {})
                if a:
                    D['cattrs'][cn] = a
                for k, w in enumerate(cb.wires):
                    key = '%s[%d]' % (cn, cb.lower_index + k)
                    key_of[id(w)] = key
                    eps = []
                    for p in w.pins:
                        if isinstance(p, OuterPin) and id(p.instance) in assigns:
                            continue
                        ep = endpoint(p, None, positional=False)
                        ep[1] = vstrip(ep[1])
                        if ep[0] == 'inst':
                            ep[2] = vstrip(ep[2])
                        eps.append(ep)
                    D['nets'][key] = sorted(eps, key=json.dumps)
            for i in assigns.values():
                ports = {p.name: p for p in i.reference.ports}
                pairs = []
                if 'i' in ports and 'o' in ports:
                    for k in range(max(len(ports['i'].pins), len(ports['o'].pins))):
                        def net(pt):
                            if k >= len(pt.pins):
                                return None
                            w = i.pins[pt.pins[k]].wire
                            return key_of.get(id(w)) if w is not None else None
                        pairs.append([net(ports['o']), net(ports['i'])])
                D['assigns'].append(sorted(pairs, key=json.dumps))
            D['assigns'].sort(key=json.dumps)
    if not c['dups']:
        del c['dups']
    return c


# ------------------------------------------------------------------------------------------ canon of a netlist (EBLIF view)
def net_canon_eblif(n, by_name=False):
    """Flat view: models (library, ports with direction/width, leaf-ness), instances of the top model with their type and data,
    nets of the top model as sets of pins (parts) and by (cable name, position) (named).
    Instance key: the .cname when the reader recorded one, else '#k' for the k-th instance without one (by_name: always the name)."""
    c = {'top': None, 'models': {}, 'insts': {}, 'parts': [], 'named': {}, 'dups': []}
    t = n.top_instance
    top = t.reference if t is not None else None
    if top is not None:
        c['top'] = top.name
    for l in n.libraries:
        for d in l.definitions:
            if d.name in c['models']:
                c['dups'].append(['model', d.name])
            c['models'][d.name] = {'lib': l.name, 'leaf': len(d.cables) == 0 and len(d.children) == 0,
                                   'ports': {p.name: {'dir': p.direction.name, 'width': len(p.pins)} for p in d.ports}}
    if top is None:
        return c
    keys = {}
    un = 0
    for i in top.children:
        cn = i.data.get('EBLIF.cname')
        if by_name:
            key = i.name
        elif cn is not None:
            key = cn
        else:
            key = '#%d' % un
            un += 1
        if key in c['insts']:
            c['dups'].append(['instance', key])
        keys[id(i)] = key
        r = i.reference
        rec = {'ref': r.name if r is not None else None, 'type': i.data.get('EBLIF.type'), 'cname': cn,
               'attr': dict(i.data.get('EBLIF.attr') or {}), 'param': dict(i.data.get('EBLIF.param') or {})}
        if by_name:
            rec.pop('cname')
        if i.data.get('EBLIF.type') == 'EBLIF.names':
            rec['covers'] = [str(x).split() for x in (i.data.get('EBLIF.output_covers') or [])]
        c['insts'][key] = rec
    for cb in top.cables:
        for k, w in enumerate(cb.wires):
            pins = []
            for p in w.pins:
                if isinstance(p, OuterPin):
                    ep = endpoint(p, None)
                    if p.instance.reference is not None and p.instance.reference.name == 'generic-latch' and ep[2] in ('type', 'init-val'):
                        continue          # latch type / initial value are not nets
                    ep[1] = keys.get(id(p.instance), ep[1])
                else:
                    ep = endpoint(p, None)
                pins.append(ep)
            pins.sort(key=json.dumps)
            if pins:
                c['parts'].append(pins)
                c['named']['%s[%d]' % (cb.name, k)] = pins
    c['parts'].sort(key=json.dumps)
    if not c['dups']:
        del c['dups']
    return c


# ------------------------------------------------------------------------------------------ bundled examples
SKIP = {'leon3mp.edf.zip', 'osfbm.edf.zip'}


def bundled(kind, max_zip_bytes):
    sub = {'edif': 'EDIF_netlists', 'verilog': 'verilog_netlists', 'eblif': 'eblif_netlists'}[kind]
    out = []
    for z in sorted(glob.glob(os.path.join(REPO, 'example_netlists', sub, '*.zip'))):
        b = os.path.basename(z)
        if b in SKIP or os.path.getsize(z) == 0 or os.path.getsize(z) > max_zip_bytes:
            continue
        out.append(z)
    return out


def count_objs(n):
    ni = nw = 0
    for l in n.libraries:
        for d in l.definitions:
            ni += len(d.children)
            for c in d.cables:
                nw += len(c.wires)
    return ni, nw
