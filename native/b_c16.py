"""Tier B for C16 - writing a netlist does not change it and is repeatable.

Netlists: (a) generated through the public API by a small seeded generator (primitive library + two levels of
hierarchy, bus ports / cables, a definition instanced twice, unconnected pins, user data, VERILOG.Parameters,
EDIF.properties, EBLIF.* data, names that need escaping, with and without a netlist name); (b) parsed from small
bundled examples of the three formats.  Each is composed in each format under every option combination
(Verilog: definition_list x write_blackbox x defparam; EBLIF: write_blackbox x write_eblif_cname; EDIF: none).

  C16.frame          field-level snapshot (irlib.snapshot over irlib.closure: structure, names, connectivity, bundle
                     attributes, data) after compose == before, except - EDIF only - library / cell reordering (a
                     permutation), added EDIF.identifier / EDIF.rename entries, a netlist name filled in when absent
  C16.new-objects    nothing new is reachable from the netlist after compose
  C16.repeatable     composing again (immediately, or after a batch of queries) gives the same text modulo timeStamp lines
  C16.second-frame   the second compose changes nothing at all
  C16.open-handle    no file descriptor is left open at return (/proc/self/fd)
  C16.incomplete     the file read immediately at return is the complete text (same after gc; closing token present)

stdin : {"seeds":[...], "tier":...} | {"replay": {...}}
"""
import sys, json, os, re, random, hashlib, tempfile, shutil, traceback, gc, itertools, io, contextlib
import spydrnet as sdn
from spydrnet.plugins import namespace_manager as NM
import irlib

REPO = os.environ.get('VERIF_REPO', '/repo')
EXAMPLES = ['EDIF_netlists/inverter.edf.zip', 'EDIF_netlists/AND_gate.edf.zip', 'EDIF_netlists/toggle.edf.zip',
            'EDIF_netlists/unused_blackbox.edf.zip', 'EDIF_netlists/ports_diff_modules.edf.zip', 'EDIF_netlists/multi_port.edf.zip',
            'EDIF_netlists/namespace.edf.zip', 'EDIF_netlists/hierarchical_luts.edf.zip',
            'verilog_netlists/namespace.v.zip', 'verilog_netlists/inverter.v.zip', 'verilog_netlists/unused_blackbox.v.zip',
            'verilog_netlists/ports_diff_modules.v.zip', 'verilog_netlists/three_layer_hierarchy.v.zip',
            'eblif_netlists/toggle.eblif.zip', 'eblif_netlists/synchronouscounter.eblif.zip', 'eblif_netlists/jfsmMealyWithOverlap.eblif.zip']
EXC = (Exception,)


def option_sets(fmt, defnames):
    if fmt == 'v':
        dls = [[], defnames[:1], defnames[-1:]]
        return [{'definition_list': dl, 'write_blackbox': wb, 'defparam': dp} for dl in dls for wb in (True, False) for dp in (False, True)]
    if fmt == 'eblif':
        return [{'write_blackbox': wb, 'write_eblif_cname': cn} for wb in (True, False) for cn in (True, False)]
    return [{}]


# ------------------------------------------------------------------ generator
def generate(seed):
    r = random.Random('c16/%s' % seed)
    plain = r.random() < 0.6
    pool = ['a', 'b', 'c', 'd0', 'n1', 'n2', 'sig', 'clk', 'q', 'data', 'A', 'Sig']
    if not plain:
        pool += ['n[3]', 'a.b', 'x$y', 'u/v', 'weird name', 'q[1]', '\\esc ', '1st', 'a-b']

    def names(k):
        return r.sample(pool, k)
    n = sdn.Netlist()
    if r.random() < 0.8:
        n.name = r.choice(['top_netlist', 'n', 'My Design'])
    n['user'] = {'k': [1, 2]}
    prims = n.create_library('hdi_primitives')
    work = n.create_library('work')
    order_flip = r.random() < 0.5          # declare 'work' users before what they use -> EDIF reordering is exercised
    leafs = []
    for nm, ports in [('INV', [('I', sdn.IN, 1), ('O', sdn.OUT, 1)]), ('AND2', [('A', sdn.IN, 1), ('B', sdn.IN, 1), ('O', sdn.OUT, 1)]),
                      ('BUS', [('D', sdn.IN, 2), ('Q', sdn.OUT, 2)])][:r.randint(2, 3)]:
        d = prims.create_definition(nm)
        for pn, di, w in ports:
            d.create_port(pn, direction=di, pins=w)
        if r.random() < 0.3:
            d['VERILOG.Parameters'] = {'INIT': "1'b0"}
        leafs.append(d)

    def fill(d, refs, ninst):
        for pn in names(r.randint(1, 3)):
            w = r.choice([1, 1, 2, 3])
            p = d.create_port(pn, direction=r.choice([sdn.IN, sdn.OUT, sdn.INOUT]), pins=w, lower_index=r.choice([0, 0, 1]),
                              is_downto=r.choice([True, True, False]))
            c = d.create_cable(pn, wires=w, lower_index=p.lower_index, is_downto=p.is_downto)
            for q, wi in zip(p.pins, c.wires):
                if r.random() < 0.9:
                    wi.connect_pin(q)
        used = set(c.name for c in d.cables)
        for cn in [x for x in names(r.randint(1, 4)) if x not in used]:
            c = d.create_cable(cn, wires=r.choice([1, 1, 2]), lower_index=r.choice([0, 0, 2]))
            if r.random() < 0.3:
                c['user'] = 'keep'
        insts = []
        for nm in names(ninst):
            i = d.create_child(nm, reference=r.choice(refs))
            if r.random() < 0.4:
                i['VERILOG.Parameters'] = {'INIT': "2'h1"}
            if r.random() < 0.4:
                i['EDIF.properties'] = [{'identifier': 'INIT', 'value': "2'h1"}]
            if r.random() < 0.3:
                i['EBLIF.type'] = r.choice(['EBLIF.subckt', 'EBLIF.gate', 'EBLIF.other'])
            if r.random() < 0.2:
                i['EBLIF.param'] = {'INIT': '10'}
            if r.random() < 0.3:
                i['user'] = ('t', 1)
            insts.append(i)
        wires = [w for c in d.cables for w in c.wires]
        for i in insts:
            for op in i.pins.values():
                if r.random() < 0.8:
                    r.choice(wires).connect_pin(op)
        return insts
    mids = []
    for nm in r.sample(['mid', 'sub', 'Mid2'], r.randint(1, 2)):
        d = work.create_definition(nm)
        fill(d, leafs, r.randint(1, 3))
        mids.append(d)
    top = work.create_definition(r.choice(['top', 'Top', 'design_1']))
    fill(top, mids + mids + leafs, r.randint(2, 4))
    if order_flip:
        work.definitions = list(reversed(work.definitions))
        n.libraries = list(reversed(n.libraries))
    n.top_instance = sdn.Instance(r.choice(['top', 'top_inst', 'Top']))
    n.top_instance.reference = top
    if r.random() < 0.5:
        n.top_instance['user'] = 1
    return n


def make_netlist(src):
    if src['kind'] == 'generated':
        return generate(src['seed'])
    return sdn.parse(os.path.join(REPO, 'example_netlists', src['example']))


# ------------------------------------------------------------------ comparison
def compare(before, after, fmt, kinds):
    """Returns [(site, detail)] for every field that changed and is not a documented EDIF effect."""
    out = []
    for i, (x, y) in enumerate(zip(before, after)):
        if x == y:
            continue
        dx, dy = dict(x[1:]), dict(y[1:])
        for f in dx:
            if dx[f] == dy.get(f):
                continue
            if fmt == 'edf' and f in ('_libraries', '_definitions') and sorted(map(repr, dx[f])) == sorted(map(repr, dy[f])):
                continue
            if f == '_data':
                a, b = dict(dx[f]), dict(dy[f])
                for k in sorted(set(a) | set(b)):
                    if a.get(k) == b.get(k):
                        continue
                    if fmt == 'edf' and k not in a and k in ('EDIF.identifier', 'EDIF.rename'):
                        continue
                    if fmt == 'edf' and k not in a and k == '.NAME' and x[0] == 'Netlist':
                        continue
                    how = 'added' if k not in a else 'removed' if k not in b else 'changed'
                    out.append(('%s:data:%s:%s' % (x[0], k, how), '%s #%d: data[%r] %s -> %s' % (x[0], i, k, a.get(k, '<absent>')[:40], b.get(k, '<absent>')[:40])))
                continue
            out.append(('%s:%s' % (x[0], f), '%s #%d: %s %s -> %s' % (x[0], i, f, repr(dx[f])[:60], repr(dy.get(f))[:60])))
    return out


def strip_ts(text):
    return '\n'.join(l for l in text.split('\n') if 'timestamp' not in l.lower())


def complete(fmt, text):
    t = text.rstrip()
    if fmt == 'edf':
        depth = 0
        instr = False
        for ch in t:
            if ch == '"':
                instr = not instr
            elif not instr:
                depth += (ch == '(') - (ch == ')')
        return t.endswith(')') and depth == 0 and not instr
    if fmt == 'v':
        return t.endswith('endmodule') or t.endswith('`endcelldefine') or 'module' not in t
    return t.endswith('.end') or '.model' not in t


def queries(n):
    k = 0
    for f in (sdn.get_hinstances, sdn.get_hcables, sdn.get_hports):
        k += len(list(f(n, recursive=True)))
    k += len(list(sdn.get_instances(n))) + len(list(sdn.get_cables(n, '*a*'))) + len(list(sdn.get_definitions(n, '.*', is_re=True)))
    k += len(list(sdn.get_wires(n))) + len(list(sdn.get_pins(n)))
    return k


def fds():
    return set(os.listdir('/proc/self/fd'))


def run_case(src, fmt, opts, tmp, with_queries, out, cfg, seen):
    def fail(check, site, detail):
        sig = (check, site)
        if sig in seen and not cfg.get('all_failures'):
            return
        seen.add(sig)
        out['failures'].append({'check': check, 'site': site, 'detail': '%s -> .%s %s: %s' % (src.get('example') or 'generated#%s' % src['seed'], fmt, json.dumps(opts), detail),
                                'replay': {'script': 'b_c16.py', 'source': src, 'format': fmt, 'options': opts, 'queries': with_queries}})
    n = make_netlist(src)
    objs = irlib.closure([n])
    index = {id(o): i for i, o in enumerate(objs)}
    before = irlib.snapshot(objs, index)
    f1 = os.path.join(tmp, 'out1.' + fmt)
    f2 = os.path.join(tmp, 'out2.' + fmt)
    for f in (f1, f2):
        if os.path.exists(f):
            os.remove(f)
    osite = fmt + ''.join(':%s=%s' % (k, ('set' if v else 'empty') if isinstance(v, list) else v) for k, v in sorted(opts.items()))
    fd0 = fds()
    try:
        with contextlib.redirect_stdout(io.StringIO()):
            sdn.compose(n, f1, **opts)
    except EXC as e:
        forget(objs)
        return 'not-composable:' + type(e).__name__
    fd1 = fds()
    try:
        t1 = open(f1).read()
    except EXC as e:
        fail('C16.incomplete', osite + ':unreadable', 'output cannot be read back: %r' % e)
        return 'composed'
    out['evaluations'] += 1
    if fd1 - fd0:
        gc.collect()
        still = fds() - fd0
        fail('C16.open-handle', osite + (':until-gc' if not still else ':leaked'),
             '%d descriptor(s) still open when compose returned%s' % (len(fd1 - fd0), '' if still else ' (closed only by the garbage collector)'))
    if fd1 - fd0:
        t1b = open(f1).read()       # after the collection above: did a late close flush more text?
        if t1b != t1:
            fail('C16.incomplete', osite + ':late-flush', 'file content grew from %d to %d characters after the call returned' % (len(t1), len(t1b)))
    if not complete(fmt, t1):
        fail('C16.incomplete', osite + ':closing-token', 'output does not end with its closing construct: ...%r' % t1.rstrip()[-30:])
    objs_after = irlib.closure([n])
    if len(objs_after) != len(objs) or any(id(o) not in index for o in objs_after):
        fail('C16.new-objects', osite, '%d object(s) reachable from the netlist after compose, %d before' % (len(objs_after), len(objs)))
    after = irlib.snapshot(objs, index)
    out['evaluations'] += 1
    for site, detail in compare(before, after, fmt, None):
        fail('C16.frame', '%s:%s' % (fmt, site), detail)
    if with_queries:
        queries(n)
        mid = irlib.snapshot(objs, index)
        if mid != after:
            fail('HARNESS', 'queries-changed-netlist', 'the read-only queries between the two composes changed the snapshot')
    try:
        with contextlib.redirect_stdout(io.StringIO()):
            n.compose(f2, **opts)            # the documented shortcut Netlist.compose: the same writer through the other public entry point
        t2 = open(f2).read()
    except EXC as e:
        fail('C16.repeatable', osite + ':second-raises', 'the second compose raised %s: %s' % (type(e).__name__, str(e)[:80]))
        return 'composed'
    out['evaluations'] += 1
    if strip_ts(t1) != strip_ts(t2):
        a, b = strip_ts(t1).split('\n'), strip_ts(t2).split('\n')
        k = next((i for i, (p, q) in enumerate(zip(a, b)) if p != q), min(len(a), len(b)))
        fail('C16.repeatable', osite + (':after-queries' if with_queries else ':immediately'),
             'second output differs at line %d: %r vs %r' % (k + 1, (a[k] if k < len(a) else '<eof>')[:60], (b[k] if k < len(b) else '<eof>')[:60]))
    # composing over an existing, longer file: the result must be the new text alone (no stale tail of the old content)
    f3 = os.path.join(tmp, 'out3.' + fmt)
    with open(f3, 'w') as fh:
        fh.write(t1 + '\n' + '# stale content of an earlier, longer export\n' * 64)
    try:
        with contextlib.redirect_stdout(io.StringIO()):
            sdn.compose(n, f3, **opts)
        t3 = open(f3).read()
        out['evaluations'] += 1
        if strip_ts(t3) != strip_ts(t1):
            fail('C16.incomplete', osite + ':over-existing-file', 'composing over an existing longer file left %d characters where a fresh path gets %d; tail: %r'
                 % (len(t3), len(t1), t3[-40:]))
    except EXC as e:
        fail('C16.repeatable', osite + ':over-existing-file-raises', 'composing over an existing file raised %s: %s' % (type(e).__name__, str(e)[:80]))
    after2 = irlib.snapshot(objs, index)
    out['evaluations'] += 1
    if after2 != after:
        d = irlib.diff_snap(after, after2)
        fail('C16.second-frame', '%s:%s:%s' % (fmt, d[0][1], d[0][2]) if d else fmt, 'the second compose changed the netlist again: %r' % (d[:2],))
    forget(objs)
    return 'composed'


def forget(objs):
    """Harness hygiene only: the namespace manager keeps every netlist alive (its WeakKeyDictionary values refer back to the
    keys), which makes long runs quadratic.  Drop the tables of the netlist that is no longer used."""
    try:
        for o in objs:
            NM.namespaces.pop(o, None)
    except Exception:
        pass


def run_source(src, out, cfg, tmp, seen, only=None):
    r = random.Random('c16o/%s' % json.dumps(src, sort_keys=True))
    try:
        probe = make_netlist(src)
    except EXC as e:
        out['skipped'].append('%s: %s' % (src, type(e).__name__))
        return
    defnames = [d.name for l in probe.libraries for d in l.definitions if d.name and l.name not in ('hdi_primitives', 'SDN_VERILOG_ASSIGNMENT')]
    top = probe.top_instance.reference.name if probe.top_instance is not None and probe.top_instance.reference is not None else None
    if top in defnames:
        defnames.remove(top); defnames.insert(0, top)
    nobj = len(irlib.closure([probe]))
    forget(irlib.closure([probe]))
    for fmt in ('edf', 'v', 'eblif'):
        for opts in option_sets(fmt, defnames):
            wq = r.random() < 0.5
            if only is not None and (only['format'] != fmt or only['options'] != opts):
                continue
            if only is not None:
                wq = only.get('queries', wq)
            res = run_case(src, fmt, opts, tmp, wq, out, cfg, seen)
            key = '%s:%s' % (fmt, res)
            out['outcomes'][key] = out['outcomes'].get(key, 0) + 1
            if res == 'composed' and nobj >= 20:
                out['hashes'].append(hashlib.sha1(repr((sorted(src.items()), fmt, sorted(opts.items(), key=repr))).encode()).hexdigest()[:16])
            if res == 'composed' and len(out['samples']) < 3:
                out['samples'].append({'source': src, 'format': fmt, 'options': opts, 'objects': nobj})


def main():
    cfg = json.load(sys.stdin)
    out = {'evaluations': 0, 'hashes': [], 'samples': [], 'failures': [], 'outcomes': {}, 'skipped': []}
    tmp = tempfile.mkdtemp(prefix='verif_c16_')
    seen = set()
    try:
        if cfg.get('replay'):
            rp = cfg['replay']
            run_source(rp['source'], out, cfg, tmp, seen, only=rp)
        else:
            for seed in cfg.get('seeds', [0]):
                try:
                    run_source({'kind': 'generated', 'seed': seed}, out, cfg, tmp, seen)
                except Exception:
                    out['failures'].append({'check': 'HARNESS', 'site': 'generated', 'detail': traceback.format_exc()[-900:], 'replay': {'seed': seed}})
            for ex in cfg.get('examples', []):
                try:
                    run_source({'kind': 'example', 'example': ex}, out, cfg, tmp, seen)
                except Exception:
                    out['failures'].append({'check': 'HARNESS', 'site': 'example', 'detail': traceback.format_exc()[-900:], 'replay': {'example': ex}})
    finally:
        NM.default = 'DEFAULT'
        shutil.rmtree(tmp, ignore_errors=True)
    out['hashes'] = sorted(set(out['hashes']))
    sys.stdout.write('\n@@JSON@@\n' + json.dumps(out, default=str))


if __name__ == '__main__':
    main()
