"""Bounded stand-in for C07: contracts on the real Netlist/Library/Definition/Instance/Port/Cable/Wire/pin .clone()
evaluated over generated designs against the independent oracles (canon, Inv, identity closures, field snapshots).

Checks (check name / what the site names):
  C07.shared-element      an object is reachable from both the original and the copy        site: kind of the shared object
  C07.canon               canon(copy) != canon(original)                                      site: first differing key kind
  C07.inv                 Inv (I1-I4) fails on the copy                                       site: clause
  C07.pointer             a pointer of the copy leaves the copy                               site: pointer kind
  C07.source-modified     cloning changed a field of the source                               site: <root kind>.<field>
  C07.bookkeeping         reference sets after an element clone differ from the documentation site: <root kind>
  C07.independence        an edit / transformation of one netlist shows in the other          site: edited side + edit group
  C07.query               a query on the clone answers differently from the original          site: query
  C07.elem-structure      element clone differs in internal structure                         site: <root kind>
  C07.elem-detached       element clone is not detached / side connections not cut             site: <root kind>.<what>
"""
import random, copy as _copy
import spydrnet as sdn
from spydrnet.ir import OuterPin, InnerPin
from spydrnet.uniquify import uniquify
from spydrnet.flatten import flatten
import designs, oracles, irlib, bcommon


# ------------------------------------------------------------------------------------------------ containment trees
def tree(root):
    """Everything OWNED by root (downward containment only), as {id: (kind, object)}."""
    out = {}

    def add(o, k):
        out[id(o)] = (k, o)
    k = irlib.kind(root)
    if k == 'Netlist':
        add(root, k)
        for l in root.libraries:
            out.update(tree(l))
        t = root.top_instance
        if t is not None and id(t) not in out:
            out.update(tree(t))
    elif k == 'Library':
        add(root, k)
        for d in root.definitions:
            out.update(tree(d))
    elif k == 'Definition':
        add(root, k)
        for p in root.ports:
            out.update(tree(p))
        for c in root.cables:
            out.update(tree(c))
        for i in root.children:
            out.update(tree(i))
    elif k == 'Port':
        add(root, k)
        for q in root.pins:
            add(q, 'InnerPin')
    elif k == 'Cable':
        add(root, k)
        for w in root.wires:
            add(w, 'Wire')
    elif k == 'Instance':
        add(root, k)
        for o in root.pins:
            add(o, 'OuterPin')
    else:
        add(root, k)
    return out


def pointer_leaks(t, allow=(), top=None):
    """Pointers of the objects of tree t that lead outside t. allow: pointer kinds that may legitimately leave (element clones).
    Returns [(pointer kind, detail)]."""
    leaks = []

    def chk(kind, target, detail=''):
        if target is not None and id(target) not in t and kind not in allow:
            leaks.append((kind, '%s -> %s %s outside the copy %s' % (kind, irlib.kind(target), getattr(target, 'name', ''), detail)))
    for k, o in list(t.values()):
        if k == 'Library':
            chk('library.netlist', o.netlist)
        elif k == 'Definition':
            chk('definition.library', o.library)
            for r in o.references:
                chk('definition.references', r, '(set of %s)' % o.name)
        elif k == 'Port':
            chk('port.definition', o.definition)
        elif k == 'Cable':
            chk('cable.definition', o.definition)
        elif k == 'InnerPin':
            chk('inner_pin.port', o.port)
            chk('inner_pin.wire', o.wire)
        elif k == 'Wire':
            chk('wire.cable', o.cable)
            for p in o.pins:
                chk('wire.pins', p)
        elif k == 'Instance':
            chk('instance.parent', o.parent)
            tag = 'top_instance.reference' if o is top else 'instance.reference'
            chk(tag, o.reference)
        elif k == 'OuterPin':
            chk('outer_pin.instance', o.instance)
            chk('outer_pin.inner_pin', o.inner_pin)
            chk('outer_pin.wire', o.wire)
    return leaks


def snap(objs, index):
    return irlib.snapshot(objs, index)


def snap_diff(a, b, ignore=()):
    return [d for d in irlib.diff_snap(a, b) if d[2] not in ignore]


# ------------------------------------------------------------------------------------------------ queries
def _path_key(o):
    """A name/position key for any element, through public parents only."""
    k = irlib.kind(o)
    if k == 'Library':
        return ('lib', oracles.key_of(o, list(o.netlist.libraries)) if o.netlist is not None else o.name)
    if k == 'Definition':
        return ('def',) + tuple(oracles._def_key(o))
    if k in ('Port', 'Cable'):
        d = o.definition
        sib = list(d.ports) if k == 'Port' else list(d.cables)
        return (k.lower(),) + tuple(oracles._def_key(d)) + (oracles.key_of(o, sib),)
    if k == 'Instance':
        d = o.parent
        if d is None:
            return ('top-instance', o.name)
        return ('inst',) + tuple(oracles._def_key(d)) + (oracles.key_of(o, list(d.children)),)
    if k == 'InnerPin':
        return _path_key(o.port) + (oracles.pos_of(list(o.port.pins), o),)
    if k == 'Wire':
        return _path_key(o.cable) + (oracles.pos_of(list(o.cable.wires), o),)
    if k == 'OuterPin':
        return ('outer',) + _path_key(o.instance) + _path_key(o.inner_pin)
    return (k, getattr(o, 'name', None))


def run_queries(n, names):
    """{query label: sorted answer keys}. Only names that occur in the design are asked for."""
    res = {}

    def put(label, it):
        try:
            res[label] = sorted(repr(_path_key(x)) for x in it)
        except Exception as e:
            res[label] = 'raised ' + type(e).__name__
    put('get_libraries()', n.get_libraries())
    put('get_definitions()', n.get_definitions())
    put('get_instances()', n.get_instances())
    put('get_ports()', n.get_ports())
    put('get_cables()', n.get_cables())
    put('get_pins()', n.get_pins())
    put('get_wires()', n.get_wires())
    for kind, nm in names:
        if kind == 'lib':
            put('get_libraries(name)', n.get_libraries(nm))
        elif kind == 'def':
            put('get_definitions(name)', n.get_definitions(nm))
        elif kind == 'inst':
            put('get_instances(name)', n.get_instances(nm))
        elif kind == 'port':
            put('get_ports(name)', n.get_ports(nm))
        elif kind == 'cable':
            put('get_cables(name)', n.get_cables(nm))
    for l in n.libraries:
        if l.name is not None:
            put('library.get_definitions()', l.get_definitions())
            for d in l.definitions:
                if d.name is not None:
                    res.setdefault('library.get_definitions(name)', [])
                    try:
                        res['library.get_definitions(name)'] += sorted(repr(_path_key(x)) for x in l.get_definitions(d.name))
                    except Exception as e:
                        res['library.get_definitions(name)'] = ['raised ' + type(e).__name__]
    t = n.top_instance
    if t is not None and t.reference is not None:
        d = t.reference
        for lab, items, q in (('definition.get_ports(name)', d.ports, d.get_ports), ('definition.get_cables(name)', d.cables, d.get_cables),
                              ('definition.get_instances(name)', d.children, d.get_instances)):
            acc = []
            for e in items:
                if e.name is not None:
                    try:
                        acc += sorted(repr(_path_key(x)) for x in q(e.name))
                    except Exception as ex:
                        acc.append('raised ' + type(ex).__name__)
            res[lab] = acc
    try:
        res['get_hinstances(recursive)'] = sorted('/'.join(str(x.name) for x in oracles.href_seq(h)) for h in n.get_hinstances(recursive=True))
        res['get_hwires(recursive)'] = sorted(h.name for h in n.get_hwires(recursive=True))
    except Exception as e:
        res['get_hinstances(recursive)'] = 'raised ' + type(e).__name__
    res['top_instance.is_top_instance'] = [bool(t.is_top_instance)] if t is not None else []
    res['isinstance(library, sdn.Library)'] = [isinstance(l, sdn.Library) for l in n.libraries]
    res['isinstance(definition, sdn.Definition)'] = [isinstance(d, sdn.Definition) for l in n.libraries for d in l.definitions]
    return res


def some_names(ad, r):
    names = []
    for L in ad['libraries']:
        names.append(('lib', L['name']))
        for d in L['definitions']:
            if not d.get('unnamed'):
                names.append(('def', d['name']))
            for kind, key in (('port', 'ports'), ('cable', 'cables'), ('inst', 'instances')):
                for e in d[key]:
                    if not e.get('unnamed'):
                        names.append((kind, e['name']))
    names = sorted(set(names))
    r.shuffle(names)
    return names[:10]


# ------------------------------------------------------------------------------------------------ edits
def edit_group(n, group, r):
    """Edits / transformations applied to one netlist through the public API. Exceptions of an edit are not C07's business."""
    done = 0

    def tryit(fn):
        nonlocal done
        try:
            fn()
            done += 1
        except Exception:
            pass
    defs = [d for l in n.libraries for d in l.definitions]
    if group == 'data':
        def deep_mutate(e):
            for k2 in list(e.data.keys()):
                v = e.data.get(k2)
                if isinstance(v, list): tryit(lambda v=v: v.append('mutated'))
                elif isinstance(v, dict): tryit(lambda v=v: v.__setitem__('mutated', True))
        for l in n.libraries:
            deep_mutate(l)
            for d in l.definitions:
                deep_mutate(d)
                for e in list(d.ports) + list(d.cables) + list(d.children): deep_mutate(e)
        tryit(lambda: setattr(n, 'name', 'renamed_netlist'))
        tryit(lambda: n.__setitem__('user.edit', [1, 2, 3]))
        for l in n.libraries:
            tryit(lambda l=l: setattr(l, 'name', (l.name or 'x') + '_ed'))
        for d in defs:
            tryit(lambda d=d: setattr(d, 'name', (d.name or 'x') + '_ed'))
            for i in d.children:
                tryit(lambda i=i: i.__setitem__('EDIF.properties', [{'identifier': 'EDITED', 'value': 1}]))
                d0 = i.data.get('user.list')
                if isinstance(d0, list):       # in-place mutation of a nested user value
                    tryit(lambda d0=d0: d0.append('mutated'))
            for p in d.ports:
                tryit(lambda p=p: setattr(p, 'direction', sdn.INOUT if p.direction != sdn.INOUT else sdn.IN))
                tryit(lambda p=p: setattr(p, 'name', (p.name or 'p') + '_ed'))
            for c in d.cables:
                tryit(lambda c=c: setattr(c, 'lower_index', c.lower_index + 1))
    elif group == 'structure':
        for d in defs:
            tryit(lambda d=d: d.create_port('edit_port', pins=2, direction=sdn.OUT))
            tryit(lambda d=d: d.create_cable('edit_cable', wires=1))
            for c in list(d.cables)[:2]:
                for w in list(c.wires)[:2]:
                    for p in list(w.pins)[:1]:
                        tryit(lambda w=w, p=p: w.disconnect_pin(p))
            free = [q for p in d.ports for q in p.pins if q.wire is None] + [o for i in d.children for o in i.pins if o.wire is None]
            ws = [w for c in d.cables for w in c.wires]
            for q in free[:3]:
                if ws:
                    tryit(lambda q=q, w=r.choice(ws): w.connect_pin(q))
            if d.children:
                tryit(lambda d=d: d.remove_child(list(d.children)[-1]))
            if len(d.cables) > 1:
                tryit(lambda d=d: d.remove_cable(list(d.cables)[0]))
            for p in list(d.ports)[:1]:
                tryit(lambda p=p: p.create_pin())
            for p in list(d.ports)[1:2]:
                tryit(lambda p=p, d=d: d.remove_port(p))
        for l in list(n.libraries):
            if l.definitions:
                tryit(lambda l=l: l.create_definition('edit_def'))
        tryit(lambda: n.create_library('edit_lib'))
    elif group == 'transform':
        tryit(lambda: uniquify(n))
        tryit(lambda: flatten(n))
    elif group == 'dismantle':
        for l in list(n.libraries):
            for d in list(l.definitions):
                tryit(lambda d=d: setattr(list(d.children)[0], 'reference', None) if d.children else None)
            tryit(lambda l=l: l.remove_definition(list(l.definitions)[0]) if l.definitions else None)
        tryit(lambda: n.remove_library(list(n.libraries)[0]))
        tryit(lambda: setattr(n, 'top_instance', None))
    return done


GROUPS = ('data', 'structure', 'transform', 'dismantle')


# ------------------------------------------------------------------------------------------------ the netlist clone
def netlist_clone_case(ad, f, r):
    n = designs.build_api(ad)
    # earlier element clones may still be alive when the netlist is cloned: a detached definition clone keeps children that sit in the
    # reference sets of the original's definitions (documented bookkeeping of Definition.clone / Instance.clone)
    alive = []
    if r.random() < 0.35:
        defs_ = [d for l in n.libraries for d in l.definitions if d.children]
        if defs_:
            try:
                alive.append(r.choice(defs_).clone())
                if r.random() < 0.5:
                    alive.append(r.choice([i for d in defs_ for i in d.children]).clone())
                f.stats['netlist_clones_with_live_element_clones'] = f.stats.get('netlist_clones_with_live_element_clones', 0) + 1
            except Exception:
                alive = []
    objs = irlib.closure([n])
    index = {id(o): i for i, o in enumerate(objs)}
    s0 = snap(objs, index)
    c0 = oracles.canon(n)
    c = f.guarded('C07.raises', 'Netlist.clone', n.clone)
    if c is None:
        return
    # source untouched
    d = snap_diff(s0, snap(objs, index))
    f.check(not d, 'C07.source-modified', 'Netlist.' + (d[0][2] if d else ''), 'cloning a netlist changed %r' % (d[:2],))
    f.check(oracles.canon(n) == c0, 'C07.source-modified', 'Netlist.canon', 'canon(original) changed by clone()')
    # faithful
    cc = oracles.canon(c)
    dd = oracles.diff(c0, cc)
    f.check(dd is None, 'C07.canon', 'Netlist', dd)
    # self-contained
    t_o, t_c = tree(n), tree(c)
    sh = [t_o[i][0] for i in t_o if i in t_c]
    f.check(not sh, 'C07.shared-element', 'owned', 'original and copy both own %d objects (%s)' % (len(sh), sorted(set(sh))))
    leaks = pointer_leaks(t_c, top=c.top_instance)
    for kind in sorted(set(k for k, _ in leaks)):
        f.fail('C07.pointer', kind, [m for k, m in leaks if k == kind][0] + ' (%d such pointers)' % sum(1 for k, _ in leaks if k == kind))
    f.ok(12)      # pointer kinds evaluated
    reach_c = irlib.closure([c])
    both = [irlib.kind(o) for o in reach_c if id(o) in index]
    f.check(not both, 'C07.shared-element', 'reachable',
            '%d objects of the original are reachable from the copy (%s)' % (len(both), sorted(set(both))))
    # top instance and its definition
    if n.top_instance is not None:
        ti = c.top_instance
        f.check(ti is not None and id(ti) in t_c, 'C07.pointer', 'top_instance', 'the copy has no top instance of its own')
        inside = ti is not None and ti.reference is not None and id(ti.reference) in t_c
        f.check(inside and ti.reference.library is not None and ti.reference.library.netlist is c,
                'C07.pointer', 'top_instance.reference', 'the definition of the copy\'s top instance is not a definition of the copy')
        if inside:
            f.check(any(x is ti for x in ti.reference.references),
                    'C07.pointer', 'top_instance.refset', 'the copy\'s top instance is not in the reference set of its definition')
    # well-formed
    inv = irlib.check_inv([c])
    for clause in sorted(set(e[0] for e in inv)):
        f.fail('C07.inv', clause, [e[1] for e in inv if e[0] == clause][0])
    f.ok(4)
    # queries
    names = some_names(ad, r)
    qo, qc = run_queries(n, names), run_queries(c, names)
    for lab in qo:
        f.check(qo[lab] == qc.get(lab), 'C07.query', lab, 'original answers %s, clone answers %s' % (repr(qo[lab])[:150], repr(qc.get(lab))[:150]))
    return n, c


def independence_case(ad, f, r, group, side):
    n = designs.build_api(ad)
    c = f.guarded('C07.raises', 'Netlist.clone', n.clone)
    if c is None:
        return
    edited, other = (c, n) if side == 'clone' else (n, c)
    objs = list(tree(other).values())
    objs = [o for _, o in objs]
    index = {id(o): i for i, o in enumerate(objs)}
    s0 = snap(objs, index)
    c0 = oracles.canon(other)
    done = edit_group(edited, group, random.Random(r.random()))
    f.stats['edits_done'] += done
    d = snap_diff(s0, snap(objs, index))
    c1 = None
    try:
        c1 = oracles.canon(other)
    except Exception as e:
        c1 = 'canon raised %s' % type(e).__name__
    what = ('field %s.%s: %s -> %s' % (d[0][1], d[0][2], d[0][3], d[0][4])) if d else (oracles.diff(c0, c1) if isinstance(c1, dict) else c1)
    f.check(not d and c1 == c0, 'C07.independence', 'edit-%s:%s' % (side, group),
            '%s edits (%s) of the %s changed the %s: %s' % (done, group, side, 'original' if side == 'clone' else 'clone', what),
            group=group, side=side)


# ------------------------------------------------------------------------------------------------ element clones
def _cloned_instances(t):
    return [o for k, o in t.values() if k == 'Instance']


def element_case(ad, f, r, kind):
    n = designs.build_api(ad)
    defs = [d for l in n.libraries for d in l.definitions]
    if kind in ('Library', 'Definition', 'Instance') and r.random() < 0.4:
        # an instance that references no definition (create_child without reference) is a legitimate element of a definition
        hosts = [d for d in defs if d.children] or defs
        host = r.choice(hosts)
        orphan = host.create_child('unref_%d' % r.randrange(1000))
        f.stats['unreferenced_instances'] = f.stats.get('unreferenced_instances', 0) + 1
        if kind == 'Instance' and r.random() < 0.5:
            defs = [host] + [d for d in defs if d is not host]
    if kind == 'Library':
        roots = list(n.libraries)
    elif kind == 'Definition':
        roots = defs[:]
    elif kind == 'Instance':
        roots = [i for d in defs for i in d.children] + [n.top_instance]
        unref = [i for i in roots if i.reference is None]
    elif kind == 'Port':
        roots = [p for d in defs for p in d.ports]
    elif kind == 'Cable':
        roots = [c for d in defs for c in d.cables]
    elif kind == 'Wire':
        roots = [w for d in defs for c in d.cables for w in c.wires]
    elif kind == 'InnerPin':
        roots = [q for d in defs for p in d.ports for q in p.pins]
    else:
        roots = [o for d in defs for i in d.children for o in i.pins]
    r.shuffle(roots)
    if kind == 'Instance' and unref:
        roots = unref[:1] + [x for x in roots if x is not unref[0]]
    for root in roots[:4 if kind in ('Library', 'Definition') else 3]:
        objs = irlib.closure([n])
        index = {id(o): i for i, o in enumerate(objs)}
        s0 = snap(objs, index)
        refs0 = {id(o): set(id(x) for x in o.references) for o in objs if irlib.kind(o) == 'Definition'}
        site = kind
        c = f.guarded('C07.raises', kind + '.clone', root.clone)
        if c is None:
            continue
        f.stats['elem_clones'] += 1
        t_c = tree(c)
        # ---- the source is never modified (reference sets are compared against the documentation below)
        d = snap_diff(s0, snap(objs, index), ignore=('_references',))
        f.check(not d, 'C07.source-modified', '%s.%s' % (kind, d[0][2] if d else ''),
                'cloning a %s changed the source: %r' % (kind, d[:2]))
        # ---- nothing shared
        sh = [t_c[i][0] for i in t_c if i in index]
        f.check(not sh, 'C07.shared-element', kind + ':' + (sorted(set(sh))[0] if sh else ''), 'the %s clone owns objects of the source (%s)' % (kind, sorted(set(sh))))
        # ---- bookkeeping exactly as documented
        new_insts = _cloned_instances(t_c)
        bad = None
        for o in objs:
            if irlib.kind(o) != 'Definition':
                continue
            want = set(refs0[id(o)]) | set(id(i) for i in new_insts if i.reference is o)
            have = set(id(x) for x in o.references)
            if want != have:
                bad = 'definition %s: reference set has %d members, documentation gives %d (extra %d, missing %d)' % (
                    o.name, len(have), len(want), len(have - want), len(want - have))
        if kind == 'Library':
            for k2, o in t_c.values():
                if k2 == 'Definition':
                    want = set(id(i) for i in new_insts if i.reference is o)
                    have = set(id(x) for x in o.references)
                    if want != have:
                        bad = 'cloned definition %s: reference set has %d members, the cloned library holds %d instances of it' % (o.name, len(have), len(want))
        if kind == 'Definition':
            if len(c.references) != 0:
                bad = 'cloned definition keeps %d references (documented: cleared)' % len(c.references)
        f.check(bad is None, 'C07.bookkeeping', kind, bad)
        # ---- detached, side connections cut, internal structure kept
        det = []
        if kind == 'Library':
            if c.netlist is not None: det.append('netlist')
            st = oracles.diff(oracles.canon_library(root), oracles.canon_library(c))
            f.check(st is None, 'C07.elem-structure', kind, st)
            src_unref = sum(1 for d_ in root.definitions for i_ in d_.children if i_.reference is None)
            if sum(1 for i in new_insts if i.reference is None) != src_unref:
                det.append('number of instances without reference differs from the source')
            for i in new_insts:
                if i.reference is None:
                    continue
                src_ref_inside = i.reference is not None and id(i.reference) in t_c
                if not src_ref_inside and not (i.reference is not None and id(i.reference) in index):
                    det.append('instance.reference neither cloned nor the source\'s')
            leaks = pointer_leaks(t_c, allow=('instance.reference', 'definition.references'))
            for k2 in sorted(set(k for k, _ in leaks)):
                # outer pins of instances whose definition lives outside the cloned library keep the outside inner pin (documented)
                ms = [m for kk, m in leaks if kk == k2]
                if k2 == 'outer_pin.inner_pin':
                    ms = []
                    for kk, o in t_c.values():
                        if kk == 'OuterPin' and o.inner_pin is not None and id(o.inner_pin) not in t_c:
                            if o.instance is None or o.instance.reference is None or id(o.instance.reference) in t_c:
                                ms.append('outer pin of a cloned instance whose definition was cloned too still names the source\'s inner pin')
                if ms:
                    f.fail('C07.pointer', 'Library:' + k2, ms[0] + ' (%d)' % len(ms))
            f.ok(10)
            inv = irlib.check_inv([c])
            for clause in sorted(set(e[0] for e in inv)):
                f.fail('C07.inv', 'Library:' + clause, [e[1] for e in inv if e[0] == clause][0])
            f.ok(4)
        elif kind == 'Definition':
            if c.library is not None: det.append('library')
            st = oracles.diff(oracles.canon_definition(root), oracles.canon_definition(c))
            f.check(st is None, 'C07.elem-structure', kind, st)
            for i_src, i_new in zip(root.children, c.children):
                if i_new.reference is not i_src.reference:
                    det.append('child.reference differs from the source child\'s')
            leaks = pointer_leaks(t_c, allow=('instance.reference', 'outer_pin.inner_pin'))
            for k2 in sorted(set(k for k, _ in leaks)):
                f.fail('C07.pointer', 'Definition:' + k2, [m for kk, m in leaks if kk == k2][0])
            f.ok(10)
            inv = irlib.check_inv([c])
            for clause in sorted(set(e[0] for e in inv)):
                f.fail('C07.inv', 'Definition:' + clause, [e[1] for e in inv if e[0] == clause][0])
            f.ok(4)
        elif kind == 'Instance':
            if c.parent is not None: det.append('parent')
            if c.reference is not root.reference: det.append('reference')
            if c.name != root.name or oracles.norm_data(c.data) != oracles.norm_data(root.data): det.append('data')
            src = list(root.pins)
            new = list(c.pins)
            if len(src) != len(new): det.append('pin-count')
            for a, b in zip(src, new):
                if b.wire is not None: det.append('outer_pin.wire')
                if b.inner_pin is not a.inner_pin: det.append('outer_pin.inner_pin')
                if b.instance is not c: det.append('outer_pin.instance')
        elif kind == 'Port':
            if c.definition is not None: det.append('definition')
            if (c.name, c.direction, len(c.pins), c.lower_index, c.is_downto, c.is_array, oracles.norm_data(c.data)) != \
               (root.name, root.direction, len(root.pins), root.lower_index, root.is_downto, root.is_array, oracles.norm_data(root.data)):
                det.append('attributes')
            for q in c.pins:
                if q.port is not c: det.append('pin.port')
                if q.wire is not None: det.append('pin.wire')
        elif kind == 'Cable':
            if c.definition is not None: det.append('definition')
            if (c.name, len(c.wires), c.lower_index, c.is_downto, c.is_array, oracles.norm_data(c.data)) != \
               (root.name, len(root.wires), root.lower_index, root.is_downto, root.is_array, oracles.norm_data(root.data)):
                det.append('attributes')
            for w in c.wires:
                if w.cable is not c: det.append('wire.cable')
                if len(w.pins): det.append('wire.pins')
        elif kind == 'Wire':
            if c.cable is not None: det.append('cable')
            if len(c.pins): det.append('pins')
        elif kind == 'InnerPin':
            if c.port is not None: det.append('port')
            if c.wire is not None: det.append('wire')
        else:
            if c.instance is not None: det.append('instance')
            if c.inner_pin is not None: det.append('inner_pin')
            if c.wire is not None: det.append('wire')
        for what in sorted(set(det)):
            f.fail('C07.elem-detached', '%s.%s' % (kind, what), 'the %s clone: %s is not as documented' % (kind, what))
        f.ok(4)
        # ---- data dictionaries are deep copies
        if kind in ('Library', 'Definition', 'Instance', 'Port', 'Cable'):
            pairs = [(root, c)]
            if kind == 'Definition':
                pairs += list(zip(root.children, c.children))
            alias = False
            for a, b in pairs:
                for k2 in a.data:
                    va, vb = a.data[k2], b.data.get(k2)
                    if isinstance(va, (list, dict)) and va is vb:
                        alias = True
            f.check(not alias, 'C07.shared-element', kind + ':data-value', 'a mutable data value is shared between source and clone')


ELEMENT_KINDS = ('Library', 'Definition', 'Instance', 'Port', 'Cable', 'Wire', 'InnerPin', 'OuterPin')


def enrich(ad, seed):
    """C07 quantifies over 'arbitrary user data' and any library layout: give every kind of element nested mutable data with
    some probability, and (one design in four) merge all libraries into one so that the single-library code paths are reached"""
    import copy
    ad = copy.deepcopy(ad)
    r = random.Random(seed * 7919 + 13)
    nested = lambda: r.choice([{'user.list': [1, [2, 3], {'z': None}]}, {'VERILOG.InlineConstraints': {'keep': 'true', 'loc': ['A', 'B']}},
                               {'EDIF.properties': [{'identifier': 'P', 'value': 'v'}]}])
    for L in ad['libraries']:
        if r.random() < 0.3: L.setdefault('data', {}).update(nested())
        for d in L['definitions']:
            if r.random() < 0.3: d.setdefault('data', {}).update(nested())
            for kind in ('ports', 'cables', 'instances'):
                for e in d[kind]:
                    if r.random() < 0.3: e.setdefault('data', {}).update(nested())
    if r.random() < 0.25 and len(ad['libraries']) > 1 and not (ad.get('meta') or {}).get('micro'):
        names = [d['name'] for L in ad['libraries'] for d in L['definitions']]
        if len(names) == len(set(names)):            # definitions keep their names: merge only when they do not collide
            one = {'name': ad['top'][0], 'definitions': [d for L in ad['libraries'] for d in L['definitions']]}
            for d in one['definitions']:
                for i in d['instances']: i['ref'] = [one['name'], i['ref'][1]]
            ad['libraries'] = [one]; ad['top'] = [one['name'], ad['top'][1]]
    return ad


def case(ad, f):
    seed = int(designs.ad_hash(ad), 16) % (2 ** 31)
    r = random.Random(seed)
    ad = enrich(ad, seed)
    netlist_clone_case(ad, f, r)
    micro = 'micro' in (ad.get('meta') or {})
    for group in GROUPS:
        for side in ('clone', 'original'):
            if micro and group in ('data', 'dismantle'):
                continue
            independence_case(ad, f, r, group, side)
    for kind in ELEMENT_KINDS:
        if micro and kind not in ('Library', 'Definition', 'Instance'):
            continue
        element_case(ad, f, r, kind)


def profile_for(seed):
    return ('wild', 'named', 'plain')[seed % 3]


def nontrivial(ad, feats):
    libs_used = set(i['ref'][0] for L in ad['libraries'] for d in L['definitions'] for i in d['instances'])
    return feats['depth'] >= 2 and feats['crossing'] >= 1 and len(libs_used) >= 2


if __name__ == '__main__':
    bcommon.main(case, profile_for, nontrivial)
