"""Bounded stand-in for C04: structural Verilog write-then-read returns the same netlist.

stdin : {"seeds":[...], "styles": k, "files":[bundled .v archives], "transforms": [...]}  or {"replay": {...}}
A case = a netlist produced by the Verilog reader (from text of the independent writer, or from a bundled archive), optionally
transformed by clone / uniquify / flatten, written by sdn.compose(.v) and re-read by sdn.parse: same modules, port
directions / widths / base indices, wires, instances (module, parameters, attributes), bit-level connections, assigns (same
bit pairs); the text written is accepted by the reader; Inv of the re-read netlist.
Normalisation taken from docs/source/reference/verilog_support.rst: ports of undefined direction (inferred black boxes) are
written as inout ("defaults to inout on write"), so UNDEFINED before == INOUT after.  From IEEE 1364 3.7.1: the leading
backslash of an escaped identifier is not part of the name, so a/b (flatten) == \\a/b (re-read).
"""
import sys, json, os, random
import rtcommon as R
import render_verilog as V

PID = 'C04'
TRANSFORMS = ['none', 'clone', 'uniquify', 'flatten']


def canon(n):
    c = R.net_canon_verilog(n)
    for l in c['libs'].values():
        for d in l['defs'].values():
            for k in ('dparams', 'dattrs', 'cattrs'):      # C04 speaks of instances' parameters / attributes only
                d.pop(k, None)
    # A cable that exists only because a port implies it (same name / width / base, every bit joined to that port bit and to
    # nothing else) carries no information: an inferred black box or a definition emptied by flatten has ports without such
    # cables, the same definition re-read from its written declaration has them (support page: "a SpyDrNet cable is created
    # that will have the same name as the port").  Both sides are normalised by dropping these cables.
    for l in c['libs'].values():
        for d in l['defs'].values():
            for pn, p in d['ports'].items():
                cb = d['cables'].get(pn)
                if cb and cb['width'] == p['width'] and cb['base'] == p['base'] and all(
                        d['nets'].get('%s[%d]' % (pn, p['base'] + b)) == [['port', pn, p['base'] + b]] for b in range(p['width'])):
                    del d['cables'][pn]
                    for b in range(p['width']):
                        del d['nets']['%s[%d]' % (pn, p['base'] + b)]
    return c


def plain_names(c):
    """names without the escaped-identifier decoration, lists sorted again afterwards"""
    c = R.unescape(c)
    for l in c['libs'].values():
        for d in l['defs'].values():
            d['nets'] = {k: sorted(v, key=json.dumps) for k, v in d['nets'].items()}
            d['assigns'] = sorted((sorted(a, key=json.dumps) for a in d['assigns']), key=json.dumps)
    return c


def undefined_as_inout(c):
    for l in c['libs'].values():
        for d in l['defs'].values():
            for p in d['ports'].values():
                if p['dir'] == 'UNDEFINED':
                    p['dir'] = 'INOUT'
    return c


def transform(n, t):
    if t == 'clone':
        return n.clone()
    if t == 'uniquify':
        from spydrnet.uniquify import uniquify
        uniquify(n)
    elif t == 'flatten':
        from spydrnet.uniquify import uniquify
        from spydrnet.flatten import flatten
        uniquify(n)               # flatten works on a netlist whose instances are unique (C09: uniquify, then flatten)
        flatten(n)
    return n


def roundtrip(run, n, t):
    try:
        n = transform(n, t)
    except R.Hang:
        raise
    except BaseException as e:
        return [('%s.transform-raises' % PID, '%s:%s@%s' % (t, type(e).__name__, R.where(e)), '%s raised %s: %s' % (t, type(e).__name__, str(e)[:200]))]
    c0 = plain_names(undefined_as_inout(canon(n)))
    path = run.path('.v')
    f = R.try_compose(n, path, PID)
    if f:
        return [(f[0], t + ':' + f[1], f[2])]
    m, f = R.try_parse(path, PID, 'written-text-rejected')
    if f:
        return [(f[0], t + ':' + f[1], f[2])]
    try:
        c1 = plain_names(undefined_as_inout(canon(m)))
    except Exception as e:
        return [(PID + '.malformed', type(e).__name__, 'the re-read netlist cannot be walked: %r' % e)]
    fails = [(a, t + ':' + b, c) for a, b, c in R.failures_from_diff(PID, R.diff(c0, c1))]
    fails += R.wellformed(m, PID)
    return fails


def case_generated(run, ad, style, t, alias_defs=()):
    text, plan = V.render(ad, style)
    path = run.path('.v')
    with open(path, 'w') as f:
        f.write(text)
    n, f = R.try_parse(path, PID)
    if f:
        return []        # refusal of generated text is C06's business
    if alias_defs:
        why = misread_aliases(n, ad, plan, alias_defs)
        if why:
            run.out['skipped'].append({'why': 'vector-net header alias not read as written (outside the supported subset)', 'where': why})
            return []
    return roundtrip(run, n, t)


def misread_aliases(n, ad, plan, alias_defs):
    """C04 quantifies over netlists 'obtained by parsing supported structural Verilog ... module ports based at index 0'.  The support
    page supports header aliases as 'single bit breakouts' and says the reader is limited beyond that; V.alias_shapes goes beyond
    (bits of vector nets).  Such a case belongs to the quantifier only if the reader took the alias for what the text says: in the
    modules alias_shapes changed, ports (direction, width, base 0), nets and bit-level joins are those of the abstract design
    (the oracle of C06, render_verilog.ad_canon).  Where the reader re-bases or resizes the port instead (e.g. .p(p[6:5]) /
    input [6:5] p; is read as a port p[6:5]) the netlist is not one this property speaks about and the case is skipped, counted
    in 'skipped'."""
    exp = V.ad_canon(ad, plan)
    got = R.net_canon_verilog(n)
    for dn in alias_defs:
        for lib in exp['libs'].values():
            if dn in lib['defs']:
                e = lib['defs'][dn]
        g = next((lib['defs'][dn] for lib in got['libs'].values() if dn in lib['defs']), None)
        if g is None:
            return dn
        for k in ('ports', 'cables', 'nets'):
            if R.diff(e[k], g[k]):
                return '%s/%s' % (dn, k)
    return None


def case_file(run, z, t):
    n, f = R.try_parse(z, PID, 'bundled-rejected')
    if f:
        return [f]
    return roundtrip(run, n, t)


def nontrivial(ad):
    f = R.ad_features(ad)
    return f['insts'] >= 2 and f['nets'] >= 2 and (f['bus_nets'] >= 1 or f['bus_ports'] >= 1)


def main():
    cfg = json.load(sys.stdin)
    run = R.Runner(PID, limit=cfg.get('limit', 20), all_failures=bool(cfg.get('all_failures')))
    if 'replay' in cfg:
        rp = cfg['replay']
        if rp.get('file'):
            run.case(R.jhash(rp['file'], rp['transform']), True, None, lambda: case_file(run, rp['file'], rp['transform']), rp, limit=400)
        else:
            run.case(R.jhash(rp['ad'], rp['style'], rp['transform']), True, None, lambda: case_generated(run, rp['ad'], rp['style'], rp['transform'], rp.get('alias_defs') or ()), rp)
        return run.finish()
    for seed in cfg.get('seeds', []):
        ad = R.gen_hier(seed, 'verilog')
        # "aliased header ports": besides gen_hier's single-bit breakouts onto 1-bit nets, half of the designs get aliases onto
        # bits of vector nets - the net named like the port (permuted / re-based / sub-range / shared by two ports) or another one
        al = sorted(set(x[0] for x in V.alias_shapes(ad, random.Random('c04-alias:%s' % seed), **(cfg.get('alias_shapes') or {}))))
        for v in range(cfg.get('styles', 1)):
            style = V.make_style(seed, v)
            style.update(cfg.get('style_override') or {})
            for t in ['none', TRANSFORMS[1 + (seed + v) % 3]]:
                run.case(R.jhash(ad, style, t), nontrivial(ad), {'seed': seed, 'transform': t, 'features': R.ad_features(ad)} if t != 'none' else None,
                         lambda: case_generated(run, ad, style, t, al),
                         {'kind': 'verilog-rt', 'seed': seed, 'ad': ad, 'style': style, 'transform': t, 'alias_defs': al})
    if cfg.get('corners'):
        for name, ad in R.corner_ads('verilog'):
            for v in range(3):
                style = V.make_style('corner', v)
                for t in TRANSFORMS:
                    run.case(R.jhash('corner', name, style, t), True, None, lambda: case_generated(run, ad, style, t),
                             {'kind': 'verilog-rt', 'corner': name, 'ad': ad, 'style': style, 'transform': t})
    small = cfg.get('transform_files_below', 12000)
    for z in cfg.get('files', []):
        ts = ['none'] + (TRANSFORMS[1:] if os.path.getsize(z) <= small else [])
        for t in ts:
            run.case(R.jhash(os.path.basename(z), t), True, {'file': os.path.basename(z), 'transform': t}, lambda: case_file(run, z, t),
                     {'kind': 'verilog-file', 'file': z, 'transform': t}, limit=cfg.get('file_limit', 60))
    run.finish()


if __name__ == '__main__':
    main()
