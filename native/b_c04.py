"""Bounded stand-in for C04: structural Verilog write-then-read returns the same netlist.

stdin : {"seeds":[...], "styles": k, "files":[bundled .v archives], "transforms": [...]}  or {"replay": {...}}
A case = a netlist produced by the Verilog reader (from text of the independent writer, or from a bundled archive), optionally
transformed by clone / uniquify / flatten, written by sdn.compose(.v) and re-read by sdn.parse: same modules, port
directions / widths / base indices, wires, instances (module, parameters, attributes), bit-level connections, assigns (same
bit pairs); the text written is accepted by the reader; Inv of the re-read netlist.
Normalisation taken from docs/source/reference/verilog_support.rst: ports of undefined direction (inferred black boxes) are
written as inout ("defaults to inout on write"), so UNDEFINED before == INOUT after.  From IEEE 1364 3.7.1: the leading
backslash of an escaped identifier is not part of the name, so a/b (flatten) == \\a/b (re-read).

Aliased header ports.  gen_hier makes the single-bit breakouts of the support page (.p({\\p[1] , \\p[0] }), 1-bit nets).  Each seeded
design is also widened (render_verilog.alias_shapes, up to "alias_variants" = 3 independent attempts) to aliases onto bits of VECTOR
nets: the net that carries the port's own name in permuted order / re-based / as a sub-range or selection / shared with a second port,
other nets in order or permuted, and mixtures.  The support page calls the reader limited beyond single-bit breakouts, and it is: it
re-bases or resizes the port onto the declared range of such a net, or refuses the text.  A widened design therefore counts only when
the reader returns what its text says for the modules that were changed (misread_aliases: the C06 oracle restricted to those modules);
otherwise the next variant and finally the plain design is run, so no seed loses the case it had.  Counters "vector_alias_cases" /
"misread_aliases" in the output.  Replays carry the design that was run and "alias_defs".
"""
import sys, json, os, random, copy
import rtcommon as R
import render_verilog as V

PID = 'C04'
TRANSFORMS = ['none', 'clone', 'uniquify', 'flatten']


def canon(n):
    c = R.net_canon_verilog(n)
    for l in c['libs'].values():
        for d in l['defs'].values():
            for k in ('dparams', 'dattrs', 'cattrs'):      # C04 speaks of instances' parameters / attributes only
                d.pop(k, None)
    # A cable that exists only because a port implies it (same name / width / base, every bit joined to that port bit and to
    # nothing else) carries no information: an inferred black box or a definition emptied by flatten has ports without such
    # cables, the same definition re-read from its written declaration has them (support page: "a SpyDrNet cable is created
    # that will have the same name as the port").  Both sides are normalised by dropping these cables.
    for l in c['libs'].values():
        for d in l['defs'].values():
            for pn, p in d['ports'].items():
                cb = d['cables'].get(pn)
                if cb and cb['width'] == p['width'] and cb['base'] == p['base'] and all(
                        d['nets'].get('%s[%d]' % (pn, p['base'] + b)) == [['port', pn, p['base'] + b]] for b in range(p['width'])):
                    del d['cables'][pn]
                    for b in range(p['width']):
                        del d['nets']['%s[%d]' % (pn, p['base'] + b)]
    return c


def plain_names(c):
    """names without the escaped-identifier decoration, lists sorted again afterwards"""
    c = R.unescape(c)
    for l in c['libs'].values():
        for d in l['defs'].values():
            d['nets'] = {k: sorted(v, key=json.dumps) for k, v in d['nets'].items()}
            d['assigns'] = sorted((sorted(a, key=json.dumps) for a in d['assigns']), key=json.dumps)
    return c


def undefined_as_inout(c):
    for l in c['libs'].values():
        for d in l['defs'].values():
            for p in d['ports'].values():
                if p['dir'] == 'UNDEFINED':
                    p['dir'] = 'INOUT'
    return c


def transform(n, t):
    if t == 'clone':
        return n.clone()
    if t == 'uniquify':
        from spydrnet.uniquify import uniquify
        uniquify(n)
    elif t == 'flatten':
        from spydrnet.uniquify import uniquify
        from spydrnet.flatten import flatten
        uniquify(n)               # flatten works on a netlist whose instances are unique (C09: uniquify, then flatten)
        flatten(n)
    return n


def roundtrip(run, n, t):
    try:
        n = transform(n, t)
    except R.Hang:
        raise
    except BaseException as e:
        return [('%s.transform-raises' % PID, '%s:%s@%s' % (t, type(e).__name__, R.where(e)), '%s raised %s: %s' % (t, type(e).__name__, str(e)[:200]))]
    c0 = plain_names(undefined_as_inout(canon(n)))
    path = run.path('.v')
    # one case in three is written with the documented option defparam=True (instance parameters as defparam statements); the choice is a
    # function of the netlist, so a replay makes the same one
    import hashlib
    opts = {'defparam': True} if int(hashlib.sha1(repr(c0).encode()).hexdigest(), 16) % 3 == 0 else {}
    f = R.try_compose(n, path, PID, **opts)
    if f:
        return [(f[0], t + ':' + f[1], f[2] + (' (composed with defparam=True)' if opts else ''))]
    m, f = R.try_parse(path, PID, 'written-text-rejected')
    if f:
        return [(f[0], t + ':' + f[1], f[2] + (' (composed with defparam=True)' if opts else ''))]
    try:
        c1 = plain_names(undefined_as_inout(canon(m)))
    except Exception as e:
        return [(PID + '.malformed', type(e).__name__, 'the re-read netlist cannot be walked: %r' % e)]
    fails = rebased_alias_ports(c0, c1, t)
    fails += [(a, t + ':' + b, c) for a, b, c in R.failures_from_diff(PID, R.diff(c0, c1))]
    fails += R.wellformed(m, PID)
    return fails


def rebased_alias_ports(c0, c1, t):
    """One cause of a changed base index gets a check name of its own: a port based at 0 comes back with the same width but based
    at the lower index of a vector net that carries some of its pins (the reader gives an aliased port the declared range of a net
    of its alias, the last one declared).  Reported once per port as C04.alias-port-rebased; c1 is then put back to base 0 (the
    port's bit numbers in its own nets and in the nets of every module that instantiates it), so that whatever else differs is
    still reported under the general checks."""
    out = []
    for ln, l in c1['libs'].items():
        for dn, d1 in l['defs'].items():
            d0 = c0['libs'].get(ln, {}).get('defs', {}).get(dn)
            for pn, p1 in d1['ports'].items():
                p0 = d0['ports'].get(pn) if d0 else None
                k = p1['base']
                if not p0 or p0['base'] != 0 or k == 0 or p0['width'] != p1['width']:
                    continue
                on = set(key[:key.rfind('[')] for key, eps in d1['nets'].items() if any(ep[0] == 'port' and ep[1] == pn for ep in eps))
                via = sorted(c for c in on if d1['cables'].get(c, {}).get('base') == k)
                if not via:
                    continue
                p1['base'] = 0
                for l2 in c1['libs'].values():
                    for d2 in l2['defs'].values():
                        users = set(i for i, x in d2['insts'].items() if x['ref'] == [ln, dn])
                        for key, eps in d2['nets'].items():
                            for ep in eps:
                                if (d2 is d1 and ep[0] == 'port' and ep[1] == pn) or (ep[0] == 'inst' and ep[1] in users and ep[2] == pn):
                                    ep[-1] -= k
                            d2['nets'][key] = sorted(eps, key=json.dumps)
                out.append((PID + '.alias-port-rebased', 'declared-range-of-alias-net',
                            '%s: port %s.%s [%d:0] of the netlist written comes back as [%d:%d], the range start of net %s that its header alias names'
                            % (t, dn, pn, p0['width'] - 1, k + p0['width'] - 1, k, via[0])))
    return out


def case_generated(run, ad, style, t, widened=(), rp=None):
    """ad: the design of gen_hier (None: no fall-back); widened: [(design with vector-net header aliases, names of the modules
    changed), ...].  The first widened design the reader takes for what its text says is the one that is run; when there is none
    the plain design is."""
    for cand, alias_defs in list(widened) + ([(ad, ())] if ad is not None else []):
        text, plan = V.render(cand, style)
        path = run.path('.v')
        with open(path, 'w') as f:
            f.write(text)
        n, f = R.try_parse(path, PID)
        if f:
            if alias_defs:
                continue
            return []        # refusal of generated text is C06's business
        if alias_defs:
            why = misread_aliases(n, cand, plan, alias_defs)
            if why:
                run.out['misread_aliases'] = run.out.get('misread_aliases', 0) + 1
                if len(run.out['skipped']) < 10:
                    run.out['skipped'].append({'why': 'vector-net header alias not read as written (outside the supported subset)', 'where': why})
                continue
        if rp is not None:
            rp['ad'], rp['alias_defs'] = cand, list(alias_defs)
        if alias_defs:
            run.out['vector_alias_cases'] = run.out.get('vector_alias_cases', 0) + 1
        return roundtrip(run, n, t)
    return []


def misread_aliases(n, ad, plan, alias_defs):
    """C04 quantifies over netlists 'obtained by parsing supported structural Verilog ... module ports based at index 0'.  The support
    page supports header aliases as 'single bit breakouts' and says the reader is limited beyond that; V.alias_shapes goes beyond
    (bits of vector nets).  Such a case belongs to the quantifier only if the reader took the alias for what the text says: in the
    modules alias_shapes changed, ports (direction, width, base 0), nets and bit-level joins are those of the abstract design
    (the oracle of C06, render_verilog.ad_canon).  Where the reader re-bases or resizes the port instead (e.g. .p(p[6:5]) /
    input [6:5] p; is read as a port p[6:5]) the netlist is not one this property speaks about and the case is skipped, counted
    in 'skipped'."""
    exp = V.ad_canon(ad, plan)
    got = R.net_canon_verilog(n)
    for dn in alias_defs:
        for lib in exp['libs'].values():
            if dn in lib['defs']:
                e = lib['defs'][dn]
        g = next((lib['defs'][dn] for lib in got['libs'].values() if dn in lib['defs']), None)
        if g is None:
            return dn
        for k in ('ports', 'cables', 'nets'):
            if R.diff(e[k], g[k]):
                return '%s/%s' % (dn, k)
    return None


def case_file(run, z, t):
    n, f = R.try_parse(z, PID, 'bundled-rejected')
    if f:
        return [f]
    return roundtrip(run, n, t)


def nontrivial(ad):
    f = R.ad_features(ad)
    return f['insts'] >= 2 and f['nets'] >= 2 and (f['bus_nets'] >= 1 or f['bus_ports'] >= 1)


def main():
    cfg = json.load(sys.stdin)
    run = R.Runner(PID, limit=cfg.get('limit', 20), all_failures=bool(cfg.get('all_failures')))
    if 'replay' in cfg:
        rp = cfg['replay']
        if rp.get('file'):
            run.case(R.jhash(rp['file'], rp['transform']), True, None, lambda: case_file(run, rp['file'], rp['transform']), rp, limit=400)
        else:
            # a widened design is replayed under the same condition it ran under (read as written), a plain one as it is
            w, plain = ([(rp['ad'], rp['alias_defs'])], None) if rp.get('alias_defs') else ([], rp['ad'])
            run.case(R.jhash(rp['ad'], rp['style'], rp['transform']), True, None, lambda: case_generated(run, plain, rp['style'], rp['transform'], w), rp)
        return run.finish()
    for seed in cfg.get('seeds', []):
        ad = R.gen_hier(seed, 'verilog')
        # "aliased header ports": besides gen_hier's single-bit breakouts onto 1-bit nets, aliases onto bits of vector nets - the net
        # named like the port (permuted / re-based / sub-range / shared by two ports) or other ones.  Up to three differently
        # widened variants of the design; case_generated runs the first one the reader reads as written, else the plain design.
        widened = []
        for k in range(cfg.get('alias_variants', 3)):
            cand = copy.deepcopy(ad)
            made = V.alias_shapes(cand, random.Random('c04-alias:%s:%d' % (seed, k)), **(cfg.get('alias_shapes') or {}))
            if made:
                widened.append((cand, sorted(set(x[0] for x in made))))
        for v in range(cfg.get('styles', 1)):
            style = V.make_style(seed, v)
            style.update(cfg.get('style_override') or {})
            for t in ['none', TRANSFORMS[1 + (seed + v) % 3]]:
                rp = {'kind': 'verilog-rt', 'seed': seed, 'ad': ad, 'style': style, 'transform': t, 'alias_defs': []}
                run.case(R.jhash(ad, [w[0] for w in widened], style, t), nontrivial(ad),
                         {'seed': seed, 'transform': t, 'features': R.ad_features(ad)} if t != 'none' else None,
                         lambda: case_generated(run, ad, style, t, widened, rp), rp)
    if cfg.get('corners'):
        for name, ad in R.corner_ads('verilog'):
            for v in range(3):
                style = V.make_style('corner', v)
                for t in TRANSFORMS:
                    run.case(R.jhash('corner', name, style, t), True, None, lambda: case_generated(run, ad, style, t),
                             {'kind': 'verilog-rt', 'corner': name, 'ad': ad, 'style': style, 'transform': t})
    small = cfg.get('transform_files_below', 12000)
    for z in cfg.get('files', []):
        ts = ['none'] + (TRANSFORMS[1:] if os.path.getsize(z) <= small else [])
        for t in ts:
            run.case(R.jhash(os.path.basename(z), t), True, {'file': os.path.basename(z), 'transform': t}, lambda: case_file(run, z, t),
                     {'kind': 'verilog-file', 'file': z, 'transform': t}, limit=cfg.get('file_limit', 60))
    run.finish()


if __name__ == '__main__':
    main()
