"""Tier B for C13 - query filters mean what they say.

For seeded small hierarchical netlists (colliding names with case variants, regex-special characters, bus ports /
cables, a definition instanced twice, elements without a name, EDIF identifiers, a user key) built under the DEFAULT
or the EDIF policy, every query function of spydrnet.util is called on roots of every kind with every
selection / recursive setting.  U = the unfiltered result (no pattern).  For each key and each pattern derived from
the values present in U the filtered result must be

        { e in U : match(value(e, key), pattern) }            (as a set, every element once)

where match is written here from the property text: an exact string is equality (EDIF identifiers of elements under
the EDIF policy compare ignoring case), * and ? are the shell wildcards (any run / exactly one character; every other
character is literal), is_re is a full-match regular expression, is_case=False ignores letter case in both modes;
several patterns give the union whatever their order or repetition; a filter callback is applied on top; the same must
hold with the namespace plugin's fast lookup registered and deregistered.
For the hierarchical functions (no key) the value is the hierarchical name: instance names below the top instance
joined by '/', then the port / cable name, then [index] for a pin / wire of an array.

checks: C13.filter-vs-matcher (missing / extra), C13.no-duplicates, C13.unfiltered-duplicates, C13.raises
stdin : {"seeds":[...], "tier":...} | {"replay": {...}}
"""
import sys, json, random, hashlib, os, re, traceback, itertools
import spydrnet as sdn
from spydrnet.plugins import namespace_manager as NM
from spydrnet.global_state import global_service
from spydrnet.util.hierarchical_reference import HRef
from spydrnet.util.selection import Selection
from spydrnet.ir import InnerPin, OuterPin
import irlib

FLAT = ['get_netlists', 'get_libraries', 'get_definitions', 'get_instances', 'get_ports', 'get_pins', 'get_cables', 'get_wires']
HIER = ['get_hinstances', 'get_hports', 'get_hpins', 'get_hcables', 'get_hwires']
HAS = {   # which keyword arguments each function documents
    'get_netlists': {'patterns', 'key'}, 'get_libraries': {'patterns', 'key', 'selection', 'recursive'},
    'get_definitions': {'patterns', 'key', 'selection', 'recursive'}, 'get_instances': {'patterns', 'key', 'selection', 'recursive'},
    'get_ports': {'patterns', 'key'}, 'get_pins': {'selection'}, 'get_cables': {'patterns', 'key', 'selection', 'recursive'},
    'get_wires': {'selection', 'recursive'}, 'get_hinstances': {'patterns', 'recursive'}, 'get_hports': {'patterns', 'recursive'},
    'get_hpins': {'patterns', 'recursive'}, 'get_hcables': {'patterns', 'selection', 'recursive'},
    'get_hwires': {'patterns', 'selection', 'recursive'},
}
KEYS = ['.NAME', 'EDIF.identifier', 'user']
NAME_POOL = ['a', 'A', 'ab', 'aB', 'Ab', 'a_b', 'b1', 'B1', 'a.b', 'a+b', 'x(1)', 'n$1', 'abc', 'ABC', 'abd']
BRACKET_POOL = ['d[0]', 'D[0]', 'q[1]x']
EXC = (AssertionError, ValueError, KeyError, AttributeError, TypeError, RuntimeError, IndexError, NotImplementedError, StopIteration)


# ------------------------------------------------------------------ independent matcher (from the property text)
def wildcard(value, pattern):
    """* = any run of characters, ? = exactly one character, everything else literal."""
    n, m = len(value), len(pattern)
    reach = {0}
    for j in range(m):
        c = pattern[j]
        nxt = set()
        if c == '*':
            if reach:
                nxt = set(range(min(reach), n + 1))
        else:
            for i in reach:
                if i < n and (c == '?' or value[i] == c):
                    nxt.add(i + 1)
        reach = nxt
        if not reach:
            return False
    return n in reach


def matches(value, pattern, is_case, is_re, ci_exact):
    if value is None:
        value = ''
    if is_re:
        return re.fullmatch(pattern, value, 0 if is_case else re.IGNORECASE) is not None
    if not is_case:
        value, pattern = value.lower(), pattern.lower()
    if '*' in pattern or '?' in pattern:
        return wildcard(value, pattern)
    if value == pattern:
        return True
    return bool(ci_exact) and value.lower() == pattern.lower()


def hname(h, below=None):
    """Hierarchical name; with below (an HRef to an instance) the name relative to that instance, None if h is not below it."""
    items = []
    x = h
    stop = ident(below) if below is not None else None
    found = below is None
    while x is not None:
        items.append(x.item)
        if stop is not None and ident(x) == stop:
            found = True
            break
        x = x.parent
    if not found:
        return None
    items.reverse()
    last = items[-1]
    suffix = ''
    k = irlib.kind(last)
    if k in ('Wire', 'InnerPin'):
        bundle = items[-2]
        members = list(bundle.wires) if k == 'Wire' else list(bundle.pins)
        if bundle.is_array:
            suffix = '[%d]' % (bundle.lower_index + [i for i, w in enumerate(members) if w is last][0])
        items = items[:-1]
    return '/'.join((x.get('.NAME', '') or '') for x in items[1:]) + suffix


def value_of(e, key, below=None):
    if isinstance(e, HRef):
        if below is not None:
            v = hname(e, below)
            return hname(e) if v is None else v
        return hname(e)
    if hasattr(e, 'get') and hasattr(e, 'data'):
        v = e.get(key, '')
        return v
    return ''


def ident(x):
    if isinstance(x, HRef):
        out = []
        while x is not None:
            out.append(id(x.item)); x = x.parent
        return ('h',) + tuple(out)
    if isinstance(x, OuterPin):
        return ('o', id(x.instance), id(x.inner_pin))
    return id(x)


# ------------------------------------------------------------------ netlist generator
RETIRED = []      # values that elements of the netlist built last carried earlier in its edit history


def build(seed, policy):
    r = random.Random('c13/%s' % seed)
    NM.default = policy
    try:
        pool = list(NAME_POOL)
        if r.random() < 0.35:
            pool += BRACKET_POOL

        def names(k):
            return r.sample(pool, k)

        def deco(e, scope_ids):
            if r.random() < 0.6:
                base = re.sub(r'[^0-9A-Za-z_]', '_', e.name or 'x')
                if not base[0].isalpha():
                    base = 'i' + base
                cand = base if r.random() < 0.5 else base.swapcase()
                if policy == 'EDIF':
                    while cand.lower() in scope_ids:
                        cand += '_%d' % len(scope_ids)
                    scope_ids.add(cand.lower())
                e['EDIF.identifier'] = cand
            if r.random() < 0.5:
                e['user'] = r.choice(['v1', 'V1', 'v2', 'k.1', 'v1'])

        n = sdn.Netlist(r.choice(['n', 'N', 'top_net']))
        deco(n, set())
        libids = set()
        prims = n.create_library(r.choice(['prims', 'Prims', 'hdi_primitives'])); deco(prims, libids)
        work = n.create_library(r.choice(['work', 'Work', 'w.k'])); deco(work, libids)
        extra = None
        if r.random() < 0.5:
            extra = n.create_library(r.choice(['WORK', 'wOrk', 'lib3'])); deco(extra, libids)
        leafs = []
        ids = set()
        for nm in names(r.randint(2, 3)):
            d = prims.create_definition(nm); deco(d, ids)
            pids = set()
            pn = names(r.randint(2, 3))
            for j, p in enumerate(pn):
                port = d.create_port(p, direction=sdn.IN if j else sdn.OUT, pins=r.choice([1, 1, 2]))
                deco(port, pids)
            if r.random() < 0.3:
                d.create_port(None, pins=1)            # a port without a name
            leafs.append(d)

        def fill(d, refs, ninst):
            pids, cids, iids = set(), set(), set()
            for j, p in enumerate(names(r.randint(1, 3))):
                deco(d.create_port(p, direction=r.choice([sdn.IN, sdn.OUT, sdn.INOUT]), pins=r.choice([1, 2])), pids)
            cn = names(r.randint(2, 4))
            cables = []
            for c in cn:
                cab = d.create_cable(c, wires=r.choice([1, 1, 2, 3]), lower_index=r.choice([0, 0, 2]))
                deco(cab, cids); cables.append(cab)
            if r.random() < 0.3:
                cables.append(d.create_cable(None, wires=1))
            insts = []
            for nm in names(ninst):
                i = d.create_child(nm, reference=r.choice(refs)); deco(i, iids); insts.append(i)
            if r.random() < 0.25:
                insts.append(d.create_child(None, reference=r.choice(refs)))
            wires = [w for c in cables for w in c.wires]
            pins = [q for p in d.ports for q in p.pins] + [op for i in insts for op in i.pins.values()]
            r.shuffle(pins)
            for q in pins:
                if r.random() < 0.7 and wires:
                    r.choice(wires).connect_pin(q)
            return insts

        wids = set()
        mids = []
        for nm in names(r.randint(1, 2)):
            d = work.create_definition(nm); deco(d, wids); mids.append(d)
            fill(d, leafs, r.randint(1, 3))
        lib_top = extra if extra is not None and r.random() < 0.5 else work
        tn = [x for x in names(4) if x not in [m.name for m in mids]][0]
        top = lib_top.create_definition(tn)
        deco(top, wids if lib_top is work else set())
        fill(top, mids + mids + leafs, r.randint(2, 4))
        n.top_instance = sdn.Instance(r.choice(['top', 'TOP', 't.i']))
        n.top_instance.reference = top
        # an edit history on top of the construction: identifiers / names changed, deleted and popped while the element sits in its
        # parent (the fast lookup is a cache that must follow); the retired values are queried as exact patterns as well
        del RETIRED[:]
        if r.random() < 0.6:
            elems = [l for l in n.libraries] + [d for l in n.libraries for d in l.definitions]
            for l in n.libraries:
                for d in l.definitions:
                    elems += list(d.ports) + list(d.cables) + list(d.children)
            for _ in range(r.randint(1, 6)):
                e = r.choice(elems); op = r.choice(['reid', 'reid', 'rename', 'delid', 'popid'])
                try:
                    if op == 'reid' and 'EDIF.identifier' in e:
                        old = e['EDIF.identifier']
                        e['EDIF.identifier'] = old.swapcase() if r.random() < 0.3 else old + r.choice(['_r', '_R', 'X'])
                        RETIRED.append(old)
                    elif op == 'rename' and e.name:
                        old = e.name
                        e.name = old + r.choice(['_r', 'R'])
                        RETIRED.append(old)
                    elif op == 'delid' and 'EDIF.identifier' in e:
                        old = e['EDIF.identifier']
                        del e['EDIF.identifier']
                        RETIRED.append(old)
                    elif op == 'popid' and 'EDIF.identifier' in e:
                        RETIRED.append(e.pop('EDIF.identifier'))
                except ValueError:
                    pass
        return n
    finally:
        NM.default = 'DEFAULT'


def roots_of(n):
    """Deterministic list of (kind label, object) covering every root kind the functions document."""
    out = [('Netlist', n)]
    libs = list(n.libraries)
    defs = [d for l in libs for d in l.definitions]
    out += [('Library', l) for l in libs]
    out += [('Definition', d) for d in defs]
    insts = [n.top_instance] + [i for d in defs for i in d.children]
    out += [('Instance', i) for i in insts]
    ports = [p for d in defs for p in d.ports]
    cables = [c for d in defs for c in d.cables]
    out += [('Port', p) for p in ports] + [('Cable', c) for c in cables]
    out += [('InnerPin', q) for p in ports for q in p.pins][:12]
    out += [('OuterPin', op) for i in insts for op in i.pins.values()][:12]
    out += [('Wire', w) for c in cables for w in c.wires][:12]
    # hierarchical references, built with the public HRef constructor by an own walk
    top = HRef.from_parent_and_item(None, n.top_instance)
    hs = [top]
    stack = [top]
    while stack and len(hs) < 40:
        h = stack.pop()
        ref = h.item.reference
        if ref is None:
            continue
        for ch in ref.children:
            hc = HRef.from_parent_and_item(h, ch); hs.append(hc); stack.append(hc)
    out += [('HRef.Instance', h) for h in hs[:10]]
    for h in hs[:6]:
        ref = h.item.reference
        if ref is None:
            continue
        for p in list(ref.ports)[:2]:
            hp = HRef.from_parent_and_item(h, p); out.append(('HRef.Port', hp))
            for q in list(p.pins)[:1]:
                out.append(('HRef.InnerPin', HRef.from_parent_and_item(hp, q)))
        for c in list(ref.cables)[:2]:
            hc = HRef.from_parent_and_item(h, c); out.append(('HRef.Cable', hc))
            for w in list(c.wires)[:1]:
                out.append(('HRef.Wire', HRef.from_parent_and_item(hc, w)))
    return out


# ------------------------------------------------------------------ running one query
class Lookup:
    """Context: fast lookups registered (as NamespaceManager.register_all_listeners leaves them) or deregistered through
    global_service.deregister_lookup.  The registration tables are restored exactly as they were (whatever extra
    arguments the manager registered with)."""
    def __init__(self, on):
        self.on = on

    def __enter__(self):
        if not self.on:
            self.saved = {k: dict(v) for k, v in vars(global_service).items() if k.startswith('_registered') and isinstance(v, dict)}
            global_service.deregister_lookup('.NAME')
            global_service.deregister_lookup('EDIF.identifier')

    def __exit__(self, *a):
        if not self.on:
            for k, v in self.saved.items():
                d = getattr(global_service, k)
                d.clear(); d.update(v)


def call(fn, root, q, flt=None):
    kw = {}
    q = {k: v for k, v in q.items() if not k.startswith('_')}
    if 'selection' in HAS[fn]:
        kw['selection'] = Selection[q['selection']]
    if 'recursive' in HAS[fn]:
        kw['recursive'] = q['recursive']
    if q.get('patterns') is not None:
        kw['patterns'] = list(q['patterns']) if len(q['patterns']) != 1 else q['patterns'][0]
        kw['is_case'] = q['is_case']; kw['is_re'] = q['is_re']
        if 'key' in HAS[fn]:
            kw['key'] = q['key']
    if flt is not None:
        kw['filter'] = flt
    return list(getattr(sdn, fn)(root, **kw))


def pattern_specs(r, values, retired=()):
    """[(kind, [patterns], is_re)] derived from the values present (and up to three values retired earlier in the edit history)."""
    vals = sorted(set(v for v in values if isinstance(v, str) and v))
    if not vals:
        return []
    pick = r.sample(vals, min(3, len(vals)))
    old = sorted(set(v for v in retired if isinstance(v, str) and v and v not in pick))
    pick += r.sample(old, min(3, len(old)))
    out = []
    for v in pick:
        br = '[' in v or ']' in v
        tag = '-bracket' if br else ''
        out.append(('exact' + tag, [v], False))
        if v.swapcase() != v:
            out.append(('case-swapped' + tag, [v.swapcase()], False))
        if not br:
            out.append(('prefix*', [v[:max(1, len(v) // 2)] + '*'], False))
            out.append(('prefix*-swapped', [v[:max(1, len(v) // 2)].swapcase() + '*'], False))
            j = r.randrange(len(v))
            out.append(('single?', [v[:j] + '?' + v[j + 1:]], False))
            out.append(('*suffix', ['*' + v[len(v) // 2:]], False))
        out.append(('re-escaped', [re.escape(v)], True))
        out.append(('re-escaped-swapped', [re.escape(v.swapcase())], True))
    plain = [v for v in pick if '[' not in v and ']' not in v]
    if len(plain) >= 2:
        a, b = plain[0], plain[1]
        out.append(('multi-exact', [a, b], False))
        out.append(('multi-exact-reversed', [b, a], False))
        out.append(('multi-duplicated', [a, a], False))
        out.append(('multi-exact+wildcard', [a, a[:1] + '*'], False))
        out.append(('multi-wildcard+exact', [a[:1] + '*', a], False))
        out.append(('multi-overlapping-wildcards', [a[:1] + '*', '*' + a[-1:], '*'], False))
        out.append(('multi-re', [re.escape(a), re.escape(b), re.escape(a)], True))
    elif plain:
        a = plain[0]
        out.append(('multi-duplicated', [a, a], False))
        out.append(('multi-exact+wildcard', [a, a[:1] + '*'], False))
    return out


def is_absolute(p, is_case, is_re):
    return is_case and not is_re and '*' not in p and '?' not in p


def judge(fn, root, q, U, flt_idx=None):
    """Returns (failure or None, set of returned identities or None).
    failure = (check, relation, detail).  For an exact pattern on EDIF.identifier of an element under the EDIF policy
    the documentation *permits* a match that differs in letter case: the result must contain every strictly equal
    element and nothing outside the case-insensitive matches."""
    ci = lambda e: q['key'] == 'EDIF.identifier' and not isinstance(e, HRef) and hasattr(e, 'get') and e.get('.NS') == 'EDIF'
    below = root if (fn in HIER and isinstance(root, HRef) and irlib.kind(root.item) == 'Instance') else None
    if below is not None and not q.get('_relative') and q.get('patterns') is not None:
        # the statement does not say whether names are taken from the top instance or from the queried hierarchical
        # instance: either reading is accepted, but one of them must explain the whole result
        first = judge(fn, root, dict(q, _relative=1), U, flt_idx)
        if first[0] is None:
            return first
        below = None
    if q.get('patterns') is None:
        must = list(U); may = list(U)
    else:
        # an element that has no value under the key: the statement restricts to "elements whose value matches", the
        # functions themselves treat a missing value as "" in most places - either is accepted (may, not must)
        has = lambda e: isinstance(e, HRef) or not hasattr(e, 'data') or q['key'] in e
        must = [e for e in U if has(e) and any(matches(value_of(e, q['key'], below), p, q['is_case'], q['is_re'], False) for p in q['patterns'])]
        may = [e for e in U if any(matches(value_of(e, q['key'], below), p, q['is_case'], q['is_re'], ci(e)) for p in q['patterns'])]
    flt = None
    if flt_idx is not None:
        keep = set(ident(e) for i, e in enumerate(U) if i % 2 == flt_idx)
        must = [e for e in must if ident(e) in keep]
        may = [e for e in may if ident(e) in keep]
        flt = lambda x: ident(x) in keep
    try:
        with Lookup(q['lookup']):
            got = call(fn, root, q, flt)
    except EXC as e:
        return ('C13.raises', type(e).__name__, 'query raised %s: %s' % (type(e).__name__, str(e)[:80])), None
    gi = [ident(x) for x in got]
    gs = set(gi)
    if len(gs) != len(gi):
        return ('C13.no-duplicates', 'duplicate', 'an element is returned %d times (%d results, %d distinct)'
                % (max(gi.count(x) for x in gs), len(gi), len(gs))), gs
    mi = set(ident(x) for x in must)
    yi = set(ident(x) for x in may)
    missing = [e for e in must if ident(e) not in gs]
    extra = [e for e in got if ident(e) not in yi]
    if missing or extra:
        rel = 'missing' if missing and not extra else 'extra' if extra and not missing else 'different'
        ex = (missing or extra)[0]
        return ('C13.filter-vs-matcher', rel, 'returned %d, unfiltered-and-matched %d (unfiltered %d); e.g. %s value %r' % (
            len(got), len(must), len(U), 'missing' if missing else 'unexpected', str(value_of(ex, q['key']))[:30])), gs
    return None, gs


def site_of(fn, q, rel, pk, policy, flt):
    bits = [fn]
    if q.get('patterns') is None:
        bits.append('no-pattern')
    else:
        bits.append(q['key'] if 'key' in HAS[fn] else 'hname')
        ab = [is_absolute(p, q['is_case'], q['is_re']) for p in q['patterns']]
        mode = 'absolute' if all(ab) else ('mixed' if any(ab) else ('re' if q['is_re'] else 'glob') + ('-case' if q['is_case'] else '-nocase'))
        if len(q['patterns']) > 1:
            mode += '+multi'
        if 'bracket' in pk:
            mode += '+bracket'
        bits.append(mode)
        if any(ab):
            if q['key'] == 'EDIF.identifier' and 'key' in HAS[fn]:
                bits.append(policy)
            bits.append('lookup-on' if q['lookup'] else 'lookup-off')
    bits.append(rel)
    return ':'.join(bits)


def run_netlist(seed, policy, out, cfg, only=None):
    n = build(seed, policy)
    roots = roots_of(n)
    r = random.Random('c13q/%s/%s' % (seed, policy))
    budget = cfg.get('roots_per_function', 6)

    def report(check, rel, detail, fn, ri, q, pk, flt):
        site = site_of(fn, q, rel, pk, policy, flt is not None)
        sig = (check, site)
        if sig in out['_seen'] and not cfg.get('all_failures'):
            return
        out['_seen'].add(sig)
        out['failures'].append({'check': check, 'site': site,
                                'detail': '%s(%s root #%d, %s) %s' % (fn, roots[ri][0], ri, json.dumps({k: v for k, v in q.items()}), detail),
                                'replay': {'script': 'b_c13.py', 'seed': seed, 'policy': policy, 'fn': fn, 'root': ri, 'root_kind': roots[ri][0],
                                           'query': q, 'pattern_kind': pk, 'filter': flt}})

    if only is not None:
        fn, ri, q, pk, flt = only['fn'], only['root'], only['query'], only.get('pattern_kind', '?'), only.get('filter')
        base = dict(q); base['patterns'] = None
        try:
            U = call(fn, roots[ri][1], base)
        except EXC as e:
            out['failures'].append({'check': 'C13.raises', 'site': fn + ':unfiltered', 'detail': repr(e), 'replay': only}); return
        out['evaluations'] += 1
        res, gs = judge(fn, roots[ri][1], q, U, flt)
        if res:
            report(res[0], res[1], res[2], fn, ri, q, pk, flt)
        q2 = dict(q); q2['lookup'] = not q['lookup']
        res2, gs2 = judge(fn, roots[ri][1], q2, U, flt)
        if gs is not None and gs2 is not None and gs != gs2:
            report('C13.lookup-independence', 'differs', 'result with the fast lookup registered differs from the result without it (%d vs %d elements)'
                   % ((len(gs), len(gs2)) if q['lookup'] else (len(gs2), len(gs))), fn, ri, q, pk, flt)
        return

    by_kind = {}
    for i, (k, o) in enumerate(roots):
        by_kind.setdefault(k, []).append(i)
    for fn in FLAT + HIER:
        # one root of every kind, then a few more at random
        chosen = [r.choice(v) for k, v in sorted(by_kind.items())]
        chosen = r.sample(chosen, min(len(chosen), budget)) if cfg.get('tier') != 'thorough' else chosen
        for ri in chosen:
            rk, root = roots[ri]
            for sel in (['INSIDE', 'OUTSIDE'] if 'selection' in HAS[fn] else ['INSIDE']):
                for rec in ([False, True] if 'recursive' in HAS[fn] else [False]):
                    base = {'selection': sel, 'recursive': rec, 'patterns': None, 'key': '.NAME', 'is_case': True, 'is_re': False, 'lookup': True}
                    try:
                        U = call(fn, root, base)
                    except TypeError:
                        continue        # this root kind is not accepted by this function
                    except EXC as e:
                        report('C13.raises', type(e).__name__, 'unfiltered query raised %s' % type(e).__name__, fn, ri, base, 'none', None)
                        continue
                    out['evaluations'] += 1
                    ui = [ident(x) for x in U]
                    if len(set(ui)) != len(ui):
                        report('C13.unfiltered-duplicates', 'duplicate', 'the unfiltered result lists an element twice (%d results, %d distinct)'
                               % (len(ui), len(set(ui))), fn, ri, base, 'none', None)
                        seen = set(); U = [x for x in U if not (ident(x) in seen or seen.add(ident(x)))]
                    # filter callback on top of the unfiltered result, lookup on/off
                    for lk in (True, False):
                        q = dict(base); q['lookup'] = lk
                        out['evaluations'] += 1
                        res, _ = judge(fn, root, q, U, flt_idx=0)
                        if res:
                            report(res[0], res[1], res[2], fn, ri, q, 'none', 0)
                    if 'patterns' not in HAS[fn] or not U:
                        continue
                    for key in (KEYS if 'key' in HAS[fn] else ['.NAME']):
                        below = root if (fn in HIER and isinstance(root, HRef) and irlib.kind(root.item) == 'Instance') else None
                        specs = pattern_specs(r, [value_of(e, key, below if r.random() < 0.5 else None) for e in U], retired=(RETIRED if fn in FLAT else ()))
                        for pk, pats, is_re in specs:
                            for is_case in (True, False):
                                verdicts = []
                                for lk in (True, False):
                                    q = {'selection': sel, 'recursive': rec, 'patterns': pats, 'key': key, 'is_case': is_case, 'is_re': is_re, 'lookup': lk}
                                    out['evaluations'] += 1
                                    res, gs = judge(fn, root, q, U)
                                    if res:
                                        report(res[0], res[1], res[2], fn, ri, q, pk, None)
                                    verdicts.append(gs)
                                out['evaluations'] += 1
                                if verdicts[0] is not None and verdicts[1] is not None and verdicts[0] != verdicts[1]:
                                    report('C13.lookup-independence', 'differs', 'result with the fast lookup registered differs from the result '
                                           'without it (%d vs %d elements)' % (len(verdicts[0]), len(verdicts[1])), fn, ri, q, pk, None)
                                nwant = sum(1 for e in U if any(matches(value_of(e, key), p, is_case, is_re, False) for p in pats))
                                if len(U) >= 2 and 0 < nwant < len(U):
                                    out['hashes'].append(hashlib.sha1(repr((seed, policy, fn, rk, key, pk)).encode()).hexdigest()[:11])
                                if r.random() < 0.1:
                                    q = {'selection': sel, 'recursive': rec, 'patterns': pats, 'key': key, 'is_case': is_case, 'is_re': is_re, 'lookup': True}
                                    out['evaluations'] += 1
                                    res, _ = judge(fn, root, q, U, flt_idx=1)
                                    if res:
                                        report(res[0], res[1], res[2], fn, ri, q, pk, 1)
    try:        # harness hygiene: the namespace manager would keep this netlist alive for ever
        for o in irlib.closure([n]):
            NM.namespaces.pop(o, None)
    except Exception:
        pass
    if len(out['samples']) < 2:
        out['samples'].append({'seed': seed, 'policy': policy, 'libraries': [l.name for l in n.libraries],
                               'definitions': [d.name for l in n.libraries for d in l.definitions], 'roots': len(roots)})


def main():
    cfg = json.load(sys.stdin)
    out = {'evaluations': 0, 'hashes': [], 'samples': [], 'failures': [], '_seen': set()}
    try:
        if cfg.get('replay'):
            rp = cfg['replay']
            run_netlist(rp['seed'], rp['policy'], out, cfg, only=rp)
        else:
            for seed in cfg.get('seeds', [0]):
                for policy in cfg.get('policies', ['DEFAULT', 'EDIF']):
                    try:
                        run_netlist(seed, policy, out, cfg)
                    except Exception:
                        out['failures'].append({'check': 'HARNESS', 'site': 'netlist', 'detail': traceback.format_exc()[-900:],
                                                'replay': {'seed': seed, 'policy': policy}})
    finally:
        NM.default = 'DEFAULT'
    out.pop('_seen')
    out['hashes'] = sorted(set(out['hashes']))
    sys.stdout.write('\n@@JSON@@\n' + json.dumps(out, default=str))


if __name__ == '__main__':
    main()
