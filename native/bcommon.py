"""Shared protocol of the design-based bounded scripts (b_c07.py ... b_c20.py), same shape as ir_histories.py:

stdin : {"seeds":[...], "tier":"quick"|"thorough", "corners":bool, "micro":[start, step] | null}
        or {"replay": {"ad": AD, "check": name, ...}}  (re-runs exactly that design; reports the failures of that check)
stdout: \n@@JSON@@\n {"evaluations": int, "hashes": [AD hashes of distinct non-trivial cases], "samples": [...],
                      "failures": [{"check", "site", "detail", "replay": {"ad", "check", "site", ...}}], "cases": int, "stats": {}}

A property script supplies
    profile_for(seed) -> profile name for designs.gen_design
    case(ad, F)       -> runs every relation of the property on one abstract design, recording through F
    nontrivial(ad, feats) -> bool (the per-property rule)
"""
import sys, json, traceback, collections
import designs


class F:
    """Failure / evaluation recorder for one design."""

    def __init__(self, ad):
        self.ad = ad
        self.evals = 0
        self.fails = []
        self.stats = collections.Counter()

    def ok(self, k=1):
        self.evals += k

    def check(self, cond, check, site, detail='', **params):
        """One evaluated relation. Returns cond."""
        self.evals += 1
        if not cond:
            self.fail(check, site, detail, **params)
        return cond

    def fail(self, check, site, detail='', **params):
        self.fails.append({'check': check, 'site': site, 'detail': str(detail)[:600],
                           'replay': dict({'ad': self.ad, 'check': check, 'site': site}, **params)})

    def guarded(self, check, site, fn, *a, **params):
        """Run fn; an unexpected exception of the code under check is a failure of (check, site)."""
        try:
            return fn(*a)
        except Exception as e:
            tb = traceback.extract_tb(sys.exc_info()[2])
            where, fn_name = '', '?'
            for fr in reversed(tb):
                if '/spydrnet/' in fr.filename:
                    where = ' at %s:%s %s' % (fr.filename.split('/spydrnet/', 1)[1], fr.lineno, fr.name)
                    fn_name = '%s.%s' % (fr.filename.split('/')[-1].replace('.py', '').replace('__init__', fr.filename.split('/')[-2]), fr.name)
                    break
            self.evals += 1
            # the site names the exception and the spydrnet function that raised it (no line numbers, no messages)
            self.fail(check, '%s:%s@%s' % (site, type(e).__name__, fn_name), 'raised %s: %s%s' % (type(e).__name__, str(e)[:160], where), **params)
            return None


def describe(ad, feats):
    return '%s: %d libraries, %d definitions, %d occurrences below top, depth %d, %d shared non-leaf, %d boundary-crossing pins' % (
        (ad.get('meta') or {}).get('corner') or ('micro #%s' % ad['meta']['micro'] if 'micro' in (ad.get('meta') or {}) else
                                               'seed %s/%s' % (ad['meta'].get('seed'), ad['meta'].get('profile'))),
        len(ad['libraries']), sum(len(L['definitions']) for L in ad['libraries']), feats['occurrences'], feats['depth'],
        feats['shared_nonleaf_static'], feats['crossing'])


def main(case, profile_for, nontrivial, corners_filter=None):
    cfg = json.load(sys.stdin)
    out = {'evaluations': 0, 'hashes': [], 'samples': [], 'failures': [], 'cases': 0, 'stats': {}}
    stats = collections.Counter()
    if cfg.get('replay'):
        r = cfg['replay']
        f = F(r['ad'])
        try:
            case(r['ad'], f)
        except Exception:
            f.fail('HARNESS', 'case', traceback.format_exc()[-900:])
        out['evaluations'] = f.evals
        out['cases'] = 1
        want = r.get('check')
        out['failures'] = [x for x in f.fails if want is None or x['check'] == want and (r.get('site') is None or x['site'] == r['site'])]
        if not out['failures']:
            out['failures'] = [x for x in f.fails if want is None or x['check'] == want]
        for x in out['failures']:
            x['replay'] = {'check': x['check'], 'site': x['site']}     # the AD is already in the replay file
        out['other_failures'] = sorted(set('%s/%s' % (x['check'], x['site']) for x in f.fails))
        sys.stdout.write('\n@@JSON@@\n' + json.dumps(out, default=str))
        return

    def source():
        for s in cfg.get('seeds', []):
            yield designs.gen_design(s, profile_for(s))
        if cfg.get('corners'):
            for ad in designs.corner_designs():
                if corners_filter is None or corners_filter(ad):
                    yield ad
        if cfg.get('micro'):
            a, b = cfg['micro']
            for ad in designs.micro_designs(a, b):
                yield ad
    seen = set()
    hashes = set()
    for ad in source():
        f = F(ad)
        feats = designs.ad_features(ad)
        try:
            case(ad, f)
        except Exception:
            f.fail('HARNESS', 'case', traceback.format_exc()[-900:])
        out['cases'] += 1
        out['evaluations'] += f.evals
        stats.update(f.stats)
        if nontrivial(ad, feats):
            hashes.add(designs.ad_hash(ad))
            stats['nontrivial'] += 1
        if len(out['samples']) < 2 and 'micro' not in (ad.get('meta') or {}):
            out['samples'].append(describe(ad, feats) + ' -> %d relations evaluated, %d failed' % (f.evals, len(f.fails)))
        for x in f.fails:
            sig = (x['check'], x['site'])
            if sig in seen and not cfg.get('all_failures'):
                stats['fail:%s/%s' % sig] += 1
                continue
            seen.add(sig)
            stats['fail:%s/%s' % sig] += 1
            out['failures'].append(x)
    out['hashes'] = sorted(hashes)
    out['stats'] = dict(stats)
    sys.stdout.write('\n@@JSON@@\n' + json.dumps(out, default=str))
