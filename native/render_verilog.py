"""Independent structural-Verilog writer: abstract design (flavor 'verilog' of rtcommon.gen_hier) + style -> text, and the
canonical structure the text describes according to docs/source/reference/verilog_support.rst and property C06.

Written from IEEE 1364-2001 structural syntax and the support page, not from spydrnet's composer:
  module m [#(parameter K = V, ...)] ( ansi-ports | names ) ; { port-decl | wire-decl | assign | instantiation } endmodule
  instantiation: [(* attrs *)] mod [#(.K(V), ...)] inst ( .port(expr), ... | expr, ... ) ;
  expr: id | id[b] | id[h:l] | {expr, ...} | 1'b0 | 1'b1 | (empty)
Conventions asserted (from the support page / C06):
  module -> definition in library 'work'; inside `celldefine ... `endcelldefine -> library 'hdi_primitives' (ports only);
  never-declared module -> black box in 'hdi_primitives', ports of undefined direction, as wide as the widest connection;
  every port implies a same-named cable joined bit for bit; every declared or implied net is a cable [msb:lsb];
  bit k of a connection expression (from its least significant end) joins bit k of the port, named and positional alike;
  assign -> an instance of SDN_VERILOG_ASSIGNMENT_<width> (library SDN_VERILOG_ASSIGNMENT, ports i/o) joining rhs to i, lhs to o;
  1'b0 / 1'b1 -> nets \\<const0> / \\<const1>; parameters -> VERILOG.Parameters, (* *) -> VERILOG.InlineConstraints;
  a header port alias .p({a, b}) makes port p as wide as the list, its pins joined MSB-first to the listed 1-bit nets, and no cable p;
  several (* *) groups in front of one construct (module, instantiation, wire declaration) are combined into one set (support page,
  "Inline Constraints"); a name given twice keeps its last value (IEEE 1364-2001 2.8);
  the single root module is the top.

Header aliases in the AD: d['aliases'][port] is the MSB-first list of what the port's pins are joined to; an entry is either the name of
a 1-bit net (the single-bit breakout of the support page) or [net, bit] (a bit of a vector net, which may be the net that carries the
port's own name).  alias_shapes() below produces the second kind.

style (JSON-able, part of the replay):
  seed, order ('shuffle'|'top-first'|'bottom-up'), header ('ansi'|'names'|'mixed'), redeclare (port nets also declared as wire),
  maps ('named'|'positional'|'mixed'), split (probability of cutting a run), whole (probability of the bare identifier for a
  full-width run), const ('literal'|'named'), implicit (probability that a 1-bit net is left undeclared), unconn ('empty'|'omit'|'mixed'),
  comments, leaf ('celldefine'|'undeclared'|'plain'|'mixed'), esc_term (' '|'\\t'|'\\n'), group_decl, timescale, brace1,
  prim_body ('junk'|'empty'|'mixed': behavioural filler inside `celldefine modules, which the reader is documented to skip),
  attr_groups (probability that the attributes of one construct are written as several separate (* *) groups), attr_dup (probability that
  such a construct also gets an earlier group giving one of its names another, overridden, value), port_attr (probability of a (* *) group
  in front of a body port declaration: accepted, not represented, must not leak onto the next construct),
  alias_split (probability of cutting a descending run of bits inside a header alias expression instead of writing a part-select)
"""
import random, json

CONST = {'\\<const0>': "1'b0", '\\<const1>': "1'b1"}


def make_style(seed, variant=0):
    r = random.Random('v-style:%s:%s' % (seed, variant))
    return {'seed': r.randint(0, 10 ** 9), 'order': r.choice(['shuffle', 'shuffle', 'top-first', 'bottom-up']),
            'header': r.choice(['ansi', 'names', 'mixed']), 'redeclare': r.random() < 0.4, 'maps': r.choice(['named', 'named', 'positional', 'mixed']),
            'split': r.choice([0, 0.2, 0.5]), 'whole': r.choice([0.3, 0.8, 1.0]), 'const': r.choice(['literal', 'literal', 'named']),
            'implicit': r.choice([0, 0.3, 1.0]), 'unconn': r.choice(['empty', 'omit', 'mixed']), 'comments': r.choice([0, 0.05, 0.15]),
            'leaf': r.choice(['celldefine', 'undeclared', 'plain', 'mixed', 'mixed']), 'esc_term': r.choice([' '] * 8 + ['\t', '\n']),
            'group_decl': r.random() < 0.3, 'timescale': r.random() < 0.5, 'brace1': r.choice([0, 0.15]),
            'prim_body': r.choice(['junk', 'mixed', 'empty']),
            # drawn last so that the keys above keep the values they always had for a given (seed, variant)
            'attr_groups': r.choice([0, 0.5, 1.0, 1.0]), 'attr_dup': r.choice([0, 0, 0.3]), 'port_attr': r.choice([0, 0, 0.3]),
            'alias_split': r.choice([0, 0.3, 1.0])}


def alias_cables(d):
    """names of the nets that appear in the header aliases of a definition"""
    return set(x if isinstance(x, str) else x[0] for al in (d.get('aliases') or {}).values() for x in al)


ALIAS_KINDS = ['own-permuted', 'own-offset', 'own-subrange', 'own-mixed', 'other', 'shared']
# default draw: the shapes the reader is known to take as written are drawn more often than the ones it re-bases / resizes
ALIAS_DRAW = ['own-permuted'] * 4 + ['own-mixed'] * 3 + ['other'] * 3 + ['shared', 'own-subrange', 'own-offset']


def alias_shapes(ad, r, p=0.5, per_port=0.4, kinds=None):
    """Widen the header port aliases of a Verilog AD (in place) to the port expressions IEEE 1364-2001 12.3.3 allows: an identifier,
    a bit-select, a part-select or a concatenation of those - in particular onto bits of the net that carries the port's own name.
    gen_hier only makes single-bit breakouts onto 1-bit nets .p({\\p[1] , \\p[0] }).  For a port p of width w that has its plain
    same-named net p[w-1:0], one of
      own-permuted  net p unchanged, pin k joined to p[perm(k)], perm not the identity             .p({p[0], p[2], p[1]})
      own-offset    net p re-based at b0 > 0, pin k joined to p[b0 + k]                            .p(p[6:5])      input [6:5] p;
      own-subrange  net p widened (and possibly re-based), pins on a contiguous sub-range of it,   .p(p[3:1])      input [4:0] p;
                    or on an arbitrary selection of its bits                                       .p({p[4], p[0], p[2]})
      own-mixed     some pins stay on bits of p (possibly permuted among themselves), the others   .p({x, p[0], y[1]})
                    move with their connections to fresh nets
      other         net p replaced by a differently named vector net, in order or permuted         .p(al_n0[4:2])  .p({al_n0[2], al_n0[4], al_n0[3]})
      shared        a second port q of the same direction loses its net and takes further bits of  .p(p[1:0]), .q(p[4:2])   input [4:0] p;
                    the (widened) net p
    Everything already joined to a bit of p (instance pins, assign operands) follows that bit to its new index / net.
    Returns the list of (definition, port, kind) changed; draws only from r."""
    out = []
    if r.random() >= p:
        return out
    for l in ad['libraries']:
        if l['name'] == 'hdi_primitives':
            continue
        for d in l['definitions']:
            if d['cables'] or d['instances']:
                out += _alias_definition(d, r, per_port, kinds or ALIAS_DRAW)
    return out


def _alias_definition(d, r, per_port, kinds):
    made = []
    nets = {(n['cable'], n['bit']): list(n['endpoints']) for n in d['nets']}
    aliases = dict(d.get('aliases') or {})
    taken = set(c['name'] for c in d['cables']) | set(q['name'] for q in d['ports']) | set(i['name'] for i in d['instances'])
    busy = set()

    def cable(name):
        return [c for c in d['cables'] if c['name'] == name][0]

    def in_assign(name):
        return any(name in (a['lhs'][0], a['rhs'][0]) for a in d.get('assigns', []))

    def fresh(width, base):
        k = 0
        while 'al_n%d' % k in taken:
            k += 1
        taken.add('al_n%d' % k)
        d['cables'].append({'name': 'al_n%d' % k, 'width': width, 'base': base})
        return 'al_n%d' % k

    def eligible(q):
        if q['name'] in aliases or q['name'] in busy or q['name'].startswith('\\'):
            return False
        cs = [c for c in d['cables'] if c['name'] == q['name']]
        return len(cs) == 1 and cs[0]['width'] == q['width'] and cs[0]['base'] == 0 and not cs[0].get('attrs')

    def relocate(old, new, delta):
        """net (old, b) becomes (new, b + delta) for every b, assign operands included (the placement is a shift)"""
        for (c, b) in sorted(k for k in nets if k[0] == old):
            nets[('\0tmp', b + delta)] = nets.pop((c, b))
        for (c, b) in sorted(k for k in nets if k[0] == '\0tmp'):
            nets[(new, b)] = nets.pop((c, b))
        for a in d.get('assigns', []):
            for side in ('lhs', 'rhs'):
                if a[side][0] == old:
                    a[side] = [new, a[side][1] + delta, a[side][2] + delta]

    def join(q, tgt):
        """pin k of port q is joined to tgt[k] = (net, bit) and to nothing else"""
        for key in list(nets):
            nets[key] = [ep for ep in nets[key] if not (ep[0] == 'port' and ep[1] == q['name'])]
        for k, key in enumerate(tgt):
            nets.setdefault(tuple(key), []).append(['port', q['name'], k])
        aliases[q['name']] = [[tgt[k][0], tgt[k][1]] for k in range(len(tgt) - 1, -1, -1)]

    for q in list(d['ports']):
        if not eligible(q) or r.random() >= per_port:
            continue
        pn, w = q['name'], q['width']
        partners = [x for x in d['ports'] if x is not q and eligible(x) and x['direction'] == q['direction']]
        ks = [k for k in kinds if not ((k in ('own-permuted', 'own-mixed') and w < 2) or (k == 'shared' and not partners))]
        if w < 2 and r.random() < 0.5:
            continue                              # one-bit ports only have the shapes the reader resizes (and 'shared')
        if not ks:
            continue
        kind = r.choice(ks)
        busy.add(pn)
        cb = cable(pn)
        if kind == 'own-permuted':
            perm = list(range(w))
            while perm == list(range(w)):
                r.shuffle(perm)
            join(q, [(pn, perm[k]) for k in range(w)])
        elif kind == 'own-offset':
            b0 = r.choice([1, 2, 5])
            cb['base'] = b0
            relocate(pn, pn, b0)
            join(q, [(pn, b0 + k) for k in range(w)])
        elif kind == 'own-subrange':
            extra = r.choice([1, 1, 2])
            base = r.choice([0, 0, 1, 3])
            off = r.randint(0, extra)
            cb['width'], cb['base'] = w + extra, base
            relocate(pn, pn, base + off)
            if r.random() < 0.7:
                sel = list(range(off, off + w))
            else:
                sel = r.sample(range(w + extra), w)
            join(q, [(pn, base + sel[k]) for k in range(w)])
        elif kind == 'other':
            extra = r.choice([0, 0, 1, 2])
            base = r.choice([0, 0, 2, 5])
            off = r.randint(0, extra)
            if w + extra == 1:
                base = 0
            new = fresh(w + extra, base)
            relocate(pn, new, base + off)
            d['cables'].remove(cb)
            sel = list(range(off, off + w))
            if w > 1 and r.random() < 0.5:
                while sel == list(range(off, off + w)):
                    r.shuffle(sel)
            join(q, [(new, base + sel[k]) for k in range(w)])
        elif kind == 'own-mixed':
            moved = sorted(r.sample(range(w), r.randint(1, w - 1)))
            stay = [k for k in range(w) if k not in moved]
            there = list(stay)
            if len(stay) > 1 and r.random() < 0.5:
                r.shuffle(there)
            tgt = {k: (pn, there[j]) for j, k in enumerate(stay)}
            if len(moved) > 1 and r.random() < 0.5:
                base = r.choice([0, 0, 3])
                vec = fresh(len(moved) + r.choice([0, 1]), base)
                spots = [(vec, base + j) for j in range(len(moved))]
                r.shuffle(spots)
            else:
                spots = [(fresh(1, 0), 0) for _ in moved]
            for k, spot in zip(moved, spots):
                tgt[k] = spot
                if not in_assign(pn) and r.random() < 0.7:        # the connections of that bit go with the pin
                    nets[spot] = [ep for ep in nets.get((pn, k), []) if ep[0] != 'port']
                    nets[(pn, k)] = [ep for ep in nets.get((pn, k), []) if ep[0] == 'port']
            join(q, [tgt[k] for k in range(w)])
        elif kind == 'shared':
            x = r.choice(partners)
            busy.add(x['name'])
            xn, xw = x['name'], x['width']
            gap, extra = r.choice([0, 0, 1]), r.choice([0, 0, 1])
            base = r.choice([0, 0, 1])
            if r.random() < 0.5:
                op, ox = 0, w + gap
            else:
                ox, op = 0, xw + gap
            cb['width'], cb['base'] = w + xw + gap + extra, base
            relocate(pn, pn, base + op)
            relocate(xn, pn, base + ox)
            d['cables'].remove(cable(xn))
            join(q, [(pn, base + op + k) for k in range(w)])
            join(x, [(pn, base + ox + k) for k in range(xw)])
            made.append((d['name'], xn, 'shared-partner'))
        made.append((d['name'], pn, kind))
    if made:
        d['aliases'] = aliases
        d['nets'] = [{'cable': c, 'bit': b, 'endpoints': eps} for (c, b), eps in sorted(nets.items()) if eps]
    return made


class Plan:
    """Decisions that change what the text means."""

    def __init__(self, ad, style):
        r = random.Random('v-plan:%s' % style['seed'])
        self.idx = {(l['name'], d['name']): d for l in ad['libraries'] for d in l['definitions']}
        self.leaf_mode = {}
        self.inst_map = {}            # (def, inst) -> 'named' | 'positional'
        self.implicit = set()         # (def, cable)
        self.unconn = {}              # (def, inst, port) -> 'empty' | 'omit'
        used_as_ref = set()
        for (ln, dn), d in self.idx.items():
            for i in d['instances']:
                used_as_ref.add(i['ref'][1])
        for (ln, dn), d in self.idx.items():
            if not d['cables'] and not d['instances'] and ln == 'hdi_primitives':
                m = style['leaf'] if style['leaf'] != 'mixed' else r.choice(['celldefine', 'undeclared', 'plain'])
                if m == 'undeclared' and dn not in used_as_ref:
                    m = 'celldefine'
                self.leaf_mode[dn] = m
        for (ln, dn), d in self.idx.items():
            nets = {(n['cable'], n['bit']): n['endpoints'] for n in d['nets']}
            conn = {}
            for (c, b), eps in nets.items():
                for ep in eps:
                    if ep[0] == 'inst':
                        conn[(ep[1], ep[2], ep[3])] = (c, b)
            used = set(c for (i, p, b), (c, bb) in conn.items())
            for a in d.get('assigns', []):
                used.add(a['lhs'][0]); used.add(a['rhs'][0])
            pn = set(p['name'] for p in d['ports']) | alias_cables(d)
            for c in d['cables']:
                if c['name'] not in pn and c['width'] == 1 and c['base'] == 0 and c['name'] in used and not c.get('attrs') \
                        and c['name'] not in CONST and r.random() < style['implicit']:
                    self.implicit.add((dn, c['name']))
            for i in d['instances']:
                ref = self.idx[tuple(i['ref'])]
                undeclared = self.leaf_mode.get(ref['name']) == 'undeclared'
                widths = {p['name']: sum(1 for b in range(p['width']) if (i['name'], p['name'], b) in conn) for p in ref['ports']}
                allconn = all(w > 0 for w in widths.values())
                mode = style['maps'] if style['maps'] != 'mixed' else r.choice(['named', 'positional'])
                if mode == 'positional' and (undeclared or not allconn or not ref['ports']):
                    mode = 'named'
                self.inst_map[(dn, i['name'])] = mode
                for p in ref['ports']:
                    if widths[p['name']] == 0:
                        u = style['unconn'] if style['unconn'] != 'mixed' else r.choice(['empty', 'omit'])
                        if undeclared:
                            u = 'empty'
                        self.unconn[(dn, i['name'], p['name'])] = u


class Writer:
    def __init__(self, ad, style, plan=None):
        self.ad, self.style = ad, style
        self.plan = plan or Plan(ad, style)
        self.r = random.Random('v-render:%s' % style['seed'])
        # generators of their own for the later additions, so that everything else is rendered as it always was
        self.ra = random.Random('v-attr:%s' % style['seed'])
        self.rx = random.Random('v-alias:%s' % style['seed'])
        self.toks = []

    # ------------------------------------------------------------------ lexical layer
    def t(self, *toks):
        self.toks.extend(toks)

    def ident(self, name):
        if name.startswith('\\'):
            return name + self.style['esc_term']
        return name

    def nl(self):
        self.toks.append('\n')

    def text(self):
        out = []
        r = self.r
        for tok in self.toks:
            if tok == '\n':
                out.append('\n')
                continue
            if r.random() < self.style['comments']:
                out.append(r.choice(['/* c */', '// note ( ; ) endmodule\n', '/* multi\n line */', '//\n']))
            out.append(tok)
            out.append(r.choice([' ', ' ', ' ', '\n', '  ', '\t']) if not tok.endswith(('\n', '\t')) else '')
        return ''.join(out)

    # ------------------------------------------------------------------ structure
    def render(self):
        ad, P, r = self.ad, self.plan, self.r
        mods = [(ln, d) for (ln, dn), d in P.idx.items()]
        written = [(ln, d) for ln, d in mods if P.leaf_mode.get(d['name']) != 'undeclared']
        depth = {}

        def dep(key):
            if key not in depth:
                depth[key] = 1 + max([dep(tuple(i['ref'])) for i in P.idx[key]['instances']] or [0])
            return depth[key]
        if self.style['order'] == 'shuffle':
            r.shuffle(written)
        elif self.style['order'] == 'top-first':
            written.sort(key=lambda x: -dep((x[0], x[1]['name'])))
        else:
            written.sort(key=lambda x: dep((x[0], x[1]['name'])))
        self.toks.append('// independent writer\n')
        if self.style['timescale']:
            self.toks.append('`timescale 1 ps / 1 ps\n')
        for ln, d in written:
            cd = P.leaf_mode.get(d['name']) == 'celldefine'
            if cd:
                self.toks.append('\n`celldefine\n')
            self.module(d, primitive=cd)
            if cd:
                self.toks.append('\n`endcelldefine\n')
        return self.text()

    def attrs(self, a):
        """the attributes of one construct: one (* k = v, ... *) group, or (style attr_groups) the same list cut into several groups
        in front of the same construct, optionally (style attr_dup) preceded by a group whose value for one name is overridden later"""
        if not a:
            return
        items = list(a.items())
        groups = [items]
        ra, st = self.ra, self.style
        if st.get('attr_groups') and ra.random() < st['attr_groups']:
            if len(items) > 1:
                cuts = [j for j in range(1, len(items)) if ra.random() < 0.6] or [ra.randrange(1, len(items))]
                groups = [items[i:j] for i, j in zip([0] + cuts, cuts + [len(items)])]
            if ra.random() < st.get('attr_dup', 0):
                k, v = ra.choice(items)
                stale = ra.choice([x for x in [None, '"stale"', '7'] if x != v])
                groups.insert(0, [(k, stale)])
        for g in groups:
            self.group(g)

    def group(self, items):
        self.t('(*')
        first = True
        for k, v in items:
            if not first:
                self.t(',')
            first = False
            self.t(k)
            if v is not None:
                self.t('=', v)
        self.t('*)')

    def rng(self, width, base, force=False):
        if width == 1 and base == 0 and not force:
            return []
        return ['[', str(base + width - 1), ':', str(base), ']']

    def module(self, d, primitive=False):
        P, r, st = self.plan, self.r, self.style
        self.nl()
        self.attrs(d.get('attrs'))
        self.t('module', d['name'])
        if d.get('params'):
            self.t('#', '(')
            for j, (k, v) in enumerate(d['params'].items()):
                if j:
                    self.t(',')
                self.t('parameter', k, '=', v)
            self.t(')')
        hdr = st['header'] if st['header'] != 'mixed' else r.choice(['ansi', 'names'])
        aliases = d.get('aliases') or {}
        if aliases:
            hdr = 'names'                 # .port({...}) belongs to the non-ANSI header form
        self.t('(')
        for j, p in enumerate(d['ports']):
            if j:
                self.t(',')
            if p['name'] in aliases:
                al = aliases[p['name']]
                if all(isinstance(x, str) for x in al):
                    self.t('.' + p['name'], '(', '{')
                    for k, cn in enumerate(al):
                        if k:
                            self.t(',')
                        self.t(self.ident(cn))
                    self.t('}', ')')
                else:
                    self.t('.' + p['name'], '(', *self.alias_expr(d, al), ')')
                continue
            if hdr == 'ansi':
                self.t({'IN': 'input', 'OUT': 'output', 'INOUT': 'inout'}[p['direction']])
                self.t(*self.rng(p['width'], p['base']))
            self.t(self.ident(p['name']))
        self.t(')', ';')
        self.nl()
        if hdr == 'names':
            ports = list(d['ports'])
            r.shuffle(ports)
            done = set()
            declared = set()              # nets of [net, bit] aliases whose direction has been declared (two ports may share one)
            for p in ports:
                if p['name'] in done:
                    continue
                if p['name'] in aliases:
                    al = list(aliases[p['name']])
                    if all(isinstance(x, str) for x in al):
                        r.shuffle(al)
                        for cn in al:
                            self.t({'IN': 'input', 'OUT': 'output', 'INOUT': 'inout'}[p['direction']], self.ident(cn), ';')
                            self.nl()
                    else:
                        # the direction is declared on the nets of the port expression, each with its own range
                        cab = {c['name']: c for c in d['cables']}
                        names = []
                        for x in al:
                            cn = x if isinstance(x, str) else x[0]
                            if cn not in names:
                                names.append(cn)
                        self.rx.shuffle(names)
                        for cn in names:
                            if cn in declared:
                                continue
                            declared.add(cn)
                            self.port_attr()
                            self.t({'IN': 'input', 'OUT': 'output', 'INOUT': 'inout'}[p['direction']],
                                   *self.rng(cab[cn]['width'], cab[cn]['base']), self.ident(cn), ';')
                            self.nl()
                    done.add(p['name'])
                    continue
                grp = [p]
                if st['group_decl']:
                    grp += [q for q in ports if q is not p and q['name'] not in done and q['name'] not in aliases
                            and q['direction'] == p['direction'] and q['width'] == p['width']]
                self.port_attr()
                self.t({'IN': 'input', 'OUT': 'output', 'INOUT': 'inout'}[p['direction']])
                if r.random() < 0.15:
                    self.t('wire')
                self.t(*self.rng(p['width'], p['base']))
                for j, q in enumerate(grp):
                    if j:
                        self.t(',')
                    self.t(self.ident(q['name']))
                    done.add(q['name'])
                self.t(';')
                self.nl()
        if primitive:
            # behaviour the reader is documented to skip
            pb = st.get('prim_body', 'mixed')
            if pb == 'junk' or (pb == 'mixed' and r.random() < 0.5):
                self.t('reg', 'state_q', ';', 'initial', 'state_q', '=', "1'b0", ';')
                self.nl()
            self.t('endmodule')
            self.nl()
            return
        pn = set(p['name'] for p in d['ports']) | alias_cables(d)
        decls = []
        for c in d['cables']:
            if c['name'] in pn:
                if st['redeclare'] and r.random() < 0.6:
                    decls.append(c)
                continue
            if (d['name'], c['name']) in P.implicit:
                continue
            if c['name'] in CONST and st['const'] == 'literal' and self.const_used(d, c['name']) \
                    and not any(c['name'] in (a['lhs'][0], a['rhs'][0]) for a in d.get('assigns', [])):
                continue
            decls.append(c)
        r.shuffle(decls)
        for c in decls:
            self.attrs(c.get('attrs'))
            self.t('wire', *self.rng(c['width'], c['base']), self.ident(c['name']), ';')
            self.nl()
        items = [('inst', i) for i in d['instances']] + [('assign', a) for a in d.get('assigns', [])]
        r.shuffle(items)
        for kind, x in items:
            if kind == 'inst':
                self.instance(d, x)
            else:
                self.t('assign', *self.sel(d, x['lhs']), '=', *self.sel(d, x['rhs']), ';')
                self.nl()
        self.t('endmodule')
        self.nl()

    def port_attr(self):
        """(style port_attr) attribute groups in front of a body port declaration; the support page lists modules, instantiations
        and wires/regs as the constructs that carry attributes, so nothing is expected of these except that they are consumed with
        the declaration they stand in front of"""
        ra, st = self.ra, self.style
        if st.get('port_attr') and ra.random() < st['port_attr']:
            for _ in range(ra.choice([1, 1, 2])):
                self.group([(ra.choice(['IOB', 'port_only', 'X_INTERFACE_INFO']), ra.choice([None, '"TRUE"', '"p q"']))])

    def alias_expr(self, d, al):
        """tokens of the port expression of .p(expr); al: MSB-first entries, net name (1-bit net) or [net, bit]"""
        rx, st = self.rx, self.style
        cab = {c['name']: c for c in d['cables']}
        runs = []
        for x in al:
            c, b = (x, cab[x]['base']) if isinstance(x, str) else (x[0], x[1])
            if runs and runs[-1][0] == c and runs[-1][2] == b + 1 and rx.random() >= st.get('alias_split', 0.3):
                runs[-1][2] = b
            else:
                runs.append([c, b, b])
        pieces = []
        for c, hi, lo in runs:
            cb = cab[c]
            full = hi == cb['base'] + cb['width'] - 1 and lo == cb['base']
            if (cb['width'] == 1 and cb['base'] == 0) or (full and rx.random() < 0.4):
                pieces.append([self.ident(c)])
            elif hi == lo:
                pieces.append([self.ident(c), '[', str(hi), ']'])
            else:
                pieces.append([self.ident(c), '[', str(hi), ':', str(lo), ']'])
        if len(pieces) == 1 and rx.random() < 0.5:
            return pieces[0]
        out = ['{']
        for j, pc in enumerate(pieces):
            if j:
                out.append(',')
            out += pc
        return out + ['}']

    def const_used(self, d, cname):
        for n in d['nets']:
            if n['cable'] == cname and any(ep[0] == 'inst' for ep in n['endpoints']):
                return True
        return False

    def sel(self, d, s):
        """tokens of cable[hi:lo] (assign operands: identifier with optional select; constants stay named)"""
        c = [x for x in d['cables'] if x['name'] == s[0]][0]
        return self.piece(d, c, s[1], s[2], literal=False)

    def piece(self, d, c, hi, lo, literal=True):
        r, st = self.r, self.style
        if c['name'] in CONST and literal and st['const'] == 'literal':
            return [CONST[c['name']]]
        full = hi == c['base'] + c['width'] - 1 and lo == c['base']
        if c['width'] == 1:
            if c['base'] != 0 and r.random() < 0.5:
                return [self.ident(c['name']), '[', str(hi), ']']
            return [self.ident(c['name'])]
        if full and r.random() < st['whole']:
            return [self.ident(c['name'])]
        if hi == lo:
            return [self.ident(c['name']), '[', str(hi), ']']
        return [self.ident(c['name']), '[', str(hi), ':', str(lo), ']']

    def expr(self, d, bits):
        """bits: list of (cable, bit) MSB first -> tokens"""
        r, st = self.r, self.style
        cab = {c['name']: c for c in d['cables']}
        runs = []
        for c, b in bits:
            if runs and runs[-1][0] == c and runs[-1][2] == b + 1 and c not in CONST and r.random() >= st['split']:
                runs[-1][2] = b
            else:
                runs.append([c, b, b])
        pieces = [self.piece(d, cab[c], hi, lo) for c, hi, lo in runs]
        if len(pieces) == 1 and r.random() >= st['brace1']:
            return pieces[0]
        out = ['{']
        for j, p in enumerate(pieces):
            if j:
                out.append(',')
            out += p
        return out + ['}']

    def instance(self, d, i):
        P, r = self.plan, self.r
        ref = P.idx[tuple(i['ref'])]
        conn = {}
        for n in d['nets']:
            for ep in n['endpoints']:
                if ep[0] == 'inst' and ep[1] == i['name']:
                    conn[(ep[2], ep[3])] = (n['cable'], n['bit'])
        self.attrs(i.get('attrs'))
        self.t(ref['name'])
        if i.get('params'):
            self.t('#', '(')
            for j, (k, v) in enumerate(i['params'].items()):
                if j:
                    self.t(',')
                self.t('.' + k, '(', v, ')')
            self.t(')')
        self.t(self.ident(i['name']), '(')
        mode = P.inst_map[(d['name'], i['name'])]
        ports = list(ref['ports'])
        if mode == 'named':
            r.shuffle(ports)
        first = True
        for p in ports:
            bits = []
            for b in range(p['width'] - 1, -1, -1):
                if (p['name'], b) in conn:
                    bits.append(conn[(p['name'], b)])
                else:
                    assert not bits, 'connected bits must form a low-end prefix'
            if mode == 'named':
                if not bits and P.unconn[(d['name'], i['name'], p['name'])] == 'omit':
                    continue
                if not first:
                    self.t(',')
                first = False
                self.t('.' + self.ident(p['name']) if not p['name'].startswith('\\') else '.' + p['name'] + self.style['esc_term'], '(')
                if bits:
                    self.t(*self.expr(d, bits))
                self.t(')')
            else:
                if not first:
                    self.t(',')
                first = False
                self.t(*self.expr(d, bits))
        self.t(')', ';')
        self.nl()


def render(ad, style):
    w = Writer(ad, style)
    return w.render(), w.plan


def strip(name):
    return name.rstrip() if isinstance(name, str) else name


def ad_canon(ad, plan):
    """Canonical structure (shape of rtcommon.net_canon_verilog) the rendered text describes."""
    P = plan
    c = {'top': ad['top'][1], 'libs': {'work': {'defs': {}}, 'hdi_primitives': {'defs': {}}}}
    libof = {}
    for (ln, dn), d in P.idx.items():
        m = P.leaf_mode.get(dn)
        libof[dn] = 'hdi_primitives' if m in ('celldefine', 'undeclared') else 'work'
    # black boxes: ports as used
    usage = {}
    for (ln, dn), d in P.idx.items():
        for i in d['instances']:
            rn = i['ref'][1]
            if P.leaf_mode.get(rn) != 'undeclared':
                continue
            w = {}
            for n in d['nets']:
                for ep in n['endpoints']:
                    if ep[0] == 'inst' and ep[1] == i['name']:
                        w[ep[2]] = max(w.get(ep[2], 0), ep[3] + 1)
            u = usage.setdefault(rn, {})
            for p in P.idx[tuple(i['ref'])]['ports']:
                u[p['name']] = max(u.get(p['name'], 0), w.get(p['name'], 0), 1)
    widths = set()
    for (ln, dn), d in P.idx.items():
        mode = P.leaf_mode.get(dn)
        D = {'ports': {}, 'cables': {}, 'insts': {}, 'nets': {}, 'assigns': [], 'dparams': dict(d.get('params') or {}),
             'dattrs': dict(d.get('attrs') or {}), 'cattrs': {}}
        if mode == 'undeclared':
            if dn not in usage:
                continue
            for pn, w in usage[dn].items():
                D['ports'][pn] = {'dir': 'UNDEFINED', 'width': w, 'base': 0}
            c['libs']['hdi_primitives']['defs'][dn] = D
            continue
        for p in d['ports']:
            D['ports'][p['name']] = {'dir': p['direction'], 'width': p['width'], 'base': p['base']}
        cables = list(d['cables'])
        nets = {(n['cable'], n['bit']): list(n['endpoints']) for n in d['nets']}
        if not cables and d['ports']:
            # leaf written as a module (celldefine or plain): every port implies its cable
            for p in d['ports']:
                cables.append({'name': p['name'], 'width': p['width'], 'base': 0})
                for b in range(p['width']):
                    nets[(p['name'], b)] = [['port', p['name'], b]]
        for cb in cables:
            D['cables'][cb['name']] = {'width': cb['width'], 'base': cb['base']}
            if cb.get('attrs'):
                D['cattrs'][cb['name']] = dict(cb['attrs'])
            for b in range(cb['width']):
                eps = nets.get((cb['name'], cb['base'] + b), [])
                D['nets']['%s[%d]' % (cb['name'], cb['base'] + b)] = sorted(eps, key=json.dumps)
        for i in d['instances']:
            D['insts'][i['name']] = {'ref': [libof[i['ref'][1]], i['ref'][1]], 'params': dict(i.get('params') or {}), 'attrs': dict(i.get('attrs') or {})}
        for a in d.get('assigns', []):
            w = a['lhs'][1] - a['lhs'][2] + 1
            widths.add(w)
            D['assigns'].append(sorted([['%s[%d]' % (a['lhs'][0], a['lhs'][2] + k), '%s[%d]' % (a['rhs'][0], a['rhs'][2] + k)] for k in range(w)], key=json.dumps))
        D['assigns'].sort(key=json.dumps)
        c['libs'][libof[dn]]['defs'][dn] = D
    if widths:
        A = c['libs']['SDN_VERILOG_ASSIGNMENT'] = {'defs': {}}
        for w in sorted(widths):
            A['defs']['SDN_VERILOG_ASSIGNMENT_%d' % w] = {'ports': {'i': {'dir': 'IN', 'width': w, 'base': 0}, 'o': {'dir': 'OUT', 'width': w, 'base': 0}},
                                                          'cables': {}, 'insts': {}, 'nets': {}, 'assigns': [], 'dparams': {}, 'dattrs': {}, 'cattrs': {}}
    return c
