"""Bounded stand-in for C09: contract on the real spydrnet.flatten.flatten(netlist) on uniquified, fully named designs.

  C09.raises        flatten raised                                                        site: exception @ function
  C09.only-leaves   a hierarchical instance remains under the top definition               site: 'top-children'
  C09.one-per-path  leaf instances after != one per leaf path named by the slash path      site: missing | extra | duplicate
  C09.leaf-type     a flattened leaf has another definition than the leaf at that path     site: 'definition'
  C09.leaf-data     a flattened leaf carries other data than the leaf at that path         site: 'data'
  C09.nets          the partition of leaf pin bits and top port bits changed               site: 'partition'
  C09.inv           Inv (I1-I4) fails afterwards                                           site: clause
Precondition (not a C09 check): the design is made unique by uniquify(); cases where that fails are skipped and counted.
"""
import spydrnet as sdn
import spydrnet.uniquify as U
import spydrnet.flatten as FL
import designs, oracles, irlib, bcommon
from b_c08 import reachable_instances


def leaf_records(n):
    """{slash path: (definition object, data without the name)} by an independent walk."""
    out = {}

    def walk(d, path):
        for ch in d.children:
            r = ch.reference
            sub = path + (ch.name,)
            if oracles.is_leaf_definition(r):
                out['/'.join(sub)] = (r, oracles.norm_data(ch.data))
            else:
                walk(r, sub)
    walk(n.top_instance.reference, ())
    return out


def case(ad, f):
    n = designs.build_api(ad)
    U.MOD_NAME_UID = 0
    try:
        U.uniquify(n)
    except Exception:
        f.stats['skipped_uniquify_raised'] += 1
        return
    if any(not oracles.is_leaf_definition(i.reference) and len(i.reference.references) != 1 for i in reachable_instances(n)):
        f.stats['skipped_not_unique'] += 1
        return
    e0 = oracles.elab(n)
    leaves0 = leaf_records(n)
    FL.mod_name_uid = 0
    FL.unique_number = 0
    ok = [False]

    def go():
        FL.flatten(n)
        ok[0] = True
    f.guarded('C09.raises', 'flatten', go)
    if not ok[0]:
        return
    top = n.top_instance.reference
    hier = [ch.name for ch in top.children if not oracles.is_leaf_definition(ch.reference)]
    f.check(not hier, 'C09.only-leaves', 'top-children', 'hierarchical instance(s) %r remain under the top definition' % hier[:4])
    fr = oracles.flat_read(n)
    names = fr['names']
    want = sorted(leaves0)
    dup = sorted(set(x for x in names if names.count(x) > 1))
    f.check(not dup, 'C09.one-per-path', 'duplicate', 'instance name(s) %r occur more than once' % dup[:4])
    missing = [p for p in want if p not in fr['instances']]
    extra = [x for x in names if x not in leaves0]
    f.check(not missing, 'C09.one-per-path', 'missing', 'no flattened instance for leaf path(s) %r' % missing[:4])
    f.check(not extra, 'C09.one-per-path', 'extra', 'flattened instance(s) %r are no leaf path of the hierarchical design' % extra[:4])
    wrong_t = [p for p in want if p in fr['instances'] and fr['instances'][p][2] is not leaves0[p][0]]
    f.check(not wrong_t, 'C09.leaf-type', 'definition', 'leaf %r now instantiates another definition' % wrong_t[:3])
    wrong_d = [p for p in want if p in fr['instances'] and fr['instances'][p][1] != leaves0[p][1]]
    f.check(not wrong_d, 'C09.leaf-data', 'data', 'leaf %r: data %r -> %r' % (wrong_d[:1], leaves0[wrong_d[0]][1] if wrong_d else '', fr['instances'][wrong_d[0]][1] if wrong_d else ''))
    # electrical partition: elaboration before vs direct reading after
    before = sorted(sorted(('pin', '/'.join(e[1]), e[2], e[3]) if e[0] == 'pin' else e for e in g) for g in e0['nets'])
    after = fr['nets']
    f.check(before == after, 'C09.nets', 'partition', 'net partition changed: %s' % oracles.diff([list(map(list, g)) for g in before], [list(map(list, g)) for g in after]))
    inv = irlib.check_inv([n])
    for clause in sorted(set(e[0] for e in inv)):
        f.fail('C09.inv', clause, [e[1] for e in inv if e[0] == clause][0])
    # "no hierarchical instance remains": the top definition's nets touch only its own port pins and pins of its current children
    kids = set(id(ch) for ch in top.children)
    stray = []
    for cab in top.cables:
        for w in cab.wires:
            for p in w.pins:
                if hasattr(p, 'instance'):
                    if id(p.instance) not in kids:
                        stray.append('%s -> pin of %s' % (cab.name, getattr(p.instance, 'name', None)))
                elif p.port is None or p.port.definition is not top:
                    stray.append('%s -> foreign inner pin' % cab.name)
    f.check(not stray, 'C09.only-leaves', 'stray-pin', 'after flatten a net of the top definition is still tied to a pin of an instance that is not '
            'a child of the top definition: %r' % stray[:3])
    f.ok(5)


def profile_for(seed):
    return ('plain', 'named')[seed % 2]


def nontrivial(ad, feats):
    return feats['crossing'] >= 1 and feats['depth'] >= 2


if __name__ == '__main__':
    bcommon.main(case, profile_for, nontrivial)
